#!/bin/bash
# usage: savemut.sh <Cxx> <N> "<checks that were run and outcome>"   — copies /tmp/mut/Cxx/_out/N into /verif/seeded/Cxx-N
p=$1; n=$2; note=$3
d=/verif/seeded/$p-$n; mkdir -p $d
cp ${MUTSRC:-/tmp/mutout}/$p/$n/patch.diff $d/patch.diff
for f in ${MUTSRC:-/tmp/mutout}/$p/$n/*; do case "$f" in *patch.diff|*meta.json) ;; *) cp -r "$f" $d/ ;; esac; done
python3 - "$p" "$n" "$note" <<'PY'
import json,sys,os
p,n,note=sys.argv[1:4]
src=json.load(open(os.environ.get('MUTSRC','/tmp/mutout')+f'/{p}/{n}/meta.json'))
m={"breaks_property":p,"title":src.get("title"),"what_it_breaks":src.get("what_it_breaks"),"needs_to_manifest":src.get("needs_to_manifest"),
   "files_changed":src.get("files_changed"),"author_suite_result":src.get("suite_result"),"demo_how_to_run":src.get("demo_how_to_run"),"what_i_ran":note}
json.dump(m,open(f'/verif/seeded/{p}-{n}/meta.json','w'),indent=1)
PY
echo saved $d
