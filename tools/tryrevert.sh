#!/bin/bash
# usage: tryrevert.sh <commit> Cxx [Cyy...] — reverts one fix commit in /repo's working tree (not committed), runs the quick checks, restores.
c=$1; shift
cd /repo || exit 1
if [ -n "$(git status --porcelain --untracked-files=no)" ]; then echo "repo not clean"; exit 1; fi
git diff $c~1 $c | git apply -R || { echo "REVERSE PATCH DOES NOT APPLY"; exit 1; }
for p in "$@"; do
  out=$(cd /verif && ./check $p quick 2>&1); rc=$?
  echo "== revert $c: $p rc=$rc  $(echo "$out" | grep -c '^VIOLATION') violation lines"
  echo "$out" | grep '^  identity:' | head -${LINES_SHOWN:-4} | cut -c1-200
done
git -C /repo checkout -- .
