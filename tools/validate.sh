#!/bin/bash
# validates MANIFEST.json and all evidence files against the schemas
python3-vt - <<'PY'
import json,jsonschema,glob
jsonschema.validate(json.load(open('/verif/MANIFEST.json')),json.load(open('/root/.vp/MANIFEST.schema.json')))
sch=json.load(open('/root/.vp/EVIDENCE.schema.json'))
for f in sorted(glob.glob('/verif/evidence/*.json')):
    try:
        d=json.load(open(f)); jsonschema.validate(d,sch)
        cov=d.get('coverage',{})
        if d.get('level') in ('exploration','fault_enumeration') or True:
            assert cov.get('evaluations',0)>=1 and cov.get('distinct_nontrivial',0)>=2 and len(cov.get('samples',[]))>=1 and cov.get('rule'), 'coverage too thin: ev=%s distinct=%s samples=%s'%(cov.get('evaluations'),cov.get('distinct_nontrivial'),len(cov.get('samples',[])))
        print('ok',f)
    except Exception as e: print('INVALID',f,str(e)[:300])
print('manifest ok')
PY
