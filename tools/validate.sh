#!/bin/bash
# validates MANIFEST.json and all evidence files against the schemas
python3-vt - <<'PY'
import json,jsonschema,glob
jsonschema.validate(json.load(open('/verif/MANIFEST.json')),json.load(open('/root/.vp/MANIFEST.schema.json')))
sch=json.load(open('/root/.vp/EVIDENCE.schema.json'))
for f in sorted(glob.glob('/verif/evidence/*.json')):
    try:
        jsonschema.validate(json.load(open(f)),sch); print('ok',f)
    except Exception as e: print('INVALID',f,str(e)[:300])
print('manifest ok')
PY
