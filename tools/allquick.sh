#!/bin/bash
# developer aid: run every claimed quick check at a seed; print one line per check
seed=${1:-1}
cd /verif
for id in $(python3 -c "import json; print(' '.join(c['property_id'] for c in json.load(open('MANIFEST.json'))['checks']))"); do
  out=$(VERIF_SEED=$seed ./check $id quick 2>&1); rc=$?
  echo "$id rc=$rc $(echo "$out" | grep -c '^VIOLATION') viol  $(echo "$out" | grep SUMMARY | sed 's/.*evaluations/evaluations/')"
done
