#!/bin/bash
# usage: trymut.sh <patch.diff> <Cxx> [more Cxx...]  — applies the patch to /repo, runs the quick checks, reverts.
patch=$1; shift
cd /repo || exit 1
if [ -n "$(git status --porcelain --untracked-files=no)" ]; then echo "repo not clean"; exit 1; fi
git apply "$patch" || { echo "PATCH DOES NOT APPLY"; exit 1; }
for p in "$@"; do
  out=$(cd /verif && ./check $p quick 2>&1)
  rc=$?
  echo "== $p rc=$rc  $(echo "$out" | grep -c '^VIOLATION') violation lines"
  echo "$out" | grep -A3 '^VIOLATION' | head -${LINES_SHOWN:-12} | cut -c1-300
done
git -C /repo checkout -- .
git -C /repo clean -fdq   # a patch may add files
