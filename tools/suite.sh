#!/bin/bash
# Runs the repository suite with the verif guard OFF and compares against BASELINE.json stable_pass.
export GOFLAGS=-mod=mod GOPROXY=off GOSUMDB=off GOTOOLCHAIN=local
out=$(mktemp)
(cd ${REPO_DIR:-/repo} && go test -mod=mod -json -vet=off -count=1 -timeout 25m ./... > "$out" 2>/dev/null)
python3 - "$out" <<'PY'
import json,sys
b=json.load(open('/root/.vp/BASELINE.json'))
want=set(b['stable_pass'])
got=set(); failed=set()
for l in open(sys.argv[1]):
    try: e=json.loads(l)
    except Exception: continue
    if e.get('Test') and e.get('Action') in('pass','fail'):
        k=e['Package']+'::'+e['Test']
        (got if e['Action']=='pass' else failed).add(k)
missing=sorted(want-got)
print("baseline stable_pass=%d passed_now=%d missing=%d failed_now=%d"%(len(want),len(got&want),len(missing),len(failed)))
for m in missing[:40]: print("MISSING",m)
for f in sorted(failed)[:40]: print("FAILED",f)
sys.exit(1 if missing else 0)
PY
rc=$?
rm -f "$out"
exit $rc
