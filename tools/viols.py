#!/usr/bin/env python3
# dev aid: list violations recorded by the last run of a property
import json,sys,glob,collections
prop=sys.argv[1]; filt=sys.argv[2] if len(sys.argv)>2 else ''
seen=collections.OrderedDict()
for f in sorted(glob.glob(f'/verif/run/{prop}/*.jsonl')):
    for l in open(f):
        try: r=json.loads(l)
        except Exception: continue
        if r.get('k')=='viol' and filt in r['id'] and r['id'] not in seen:
            seen[r['id']]=r
for i,r in seen.items():
    w=r.get('wit') or {}
    print(i); print('   ',r.get('detail','')[:300]); 
    if isinstance(w,dict) and 'sql' in w: print('    SQL:',w['sql'][:300].replace('\n','\\n'))
print(len(seen),'identities')
