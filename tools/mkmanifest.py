#!/usr/bin/env python3
"""Regenerates /verif/MANIFEST.json from the table below (kept in one place so the manifest stays valid)."""
import json,subprocess
ALL=["C%02d"%i for i in range(1,21)]
# id -> (level, technique, level text, level note, design ref)
CHECKS={}
def add(i,level,tech,text,note,ref): CHECKS[i]=(level,tech,text,note,ref)
exec(open('/verif/tools/checks_table.py').read())
hooks=subprocess.run(['git','-C','/repo','log','--format=%h','--grep=^verif:'],capture_output=True,text=True).stdout.split()
m={"version":1,
 "setup_cmd":"./check setup",
 "hooks":{"guard":"verif (Go build tag)","enable":"go build -tags verif (the check script builds harness/cmd/vh with -tags verif against replace => /repo; -race / -cover variants add those flags)",
   "baseline_off_cmd":"cd /repo && GOFLAGS=-mod=mod GOPROXY=off GOSUMDB=off GOTOOLCHAIN=local go test -mod=mod -json -vet=off -count=1 -timeout 25m ./...",
   "source_commits":hooks,"add_only":True},
 "engines":[{"name":"vh","path":"harness/cmd/vh","serves_properties":sorted(CHECKS),"kind_free_text":"Go harness: parent orchestrates sharded child processes running the real library under workloads; monitors (boundary recorder, model/reference oracles, hooks, race detector, cover counters) write event logs the parent decides on"}],
 "checks":[],"not_applicable":[],
 "notes":"Runtime monitoring only. Verdicts: exit 0 held on what was observed (KNOWN-FINDING / INCONCLUSIVE lines possible), exit 1 with VIOLATION line, exit 2 when nothing was observed. See DESIGN.md."}
for i in ALL:
    if i in CHECKS:
        level,tech,text,note,ref=CHECKS[i]
        m["checks"].append({"property_id":i,"quick_cmd":f"./check {i} quick","thorough_cmd":f"./check {i} thorough","evidence_file":f"/verif/evidence/{i}.json",
          "replay_cmd_template":f"./check {i} --replay {{path}}","engine":"vh","level_claimed":{"category":level,"text":text,"design_ref":ref},"level_note":note,"technique":tech})
    else:
        m["not_applicable"].append({"property_id":i,"reason":NA.get(i,"check not built yet in this round (runtime monitor planned in DESIGN.md section 2); not claimed until it exists")})
json.dump(m,open('/verif/MANIFEST.json','w'),indent=1)
print("checks:",len(m["checks"]),"not claimed:",len(m["not_applicable"]))
