#!/bin/bash
# developer aid: run every claimed thorough check at a seed; one line per check
seed=${1:-1}
cd /verif
for id in $(python3 -c "import json; print(' '.join(c['property_id'] for c in json.load(open('MANIFEST.json'))['checks']))"); do
  t0=$(date +%s)
  out=$(VERIF_SEED=$seed ./check $id thorough 2>&1); rc=$?
  echo "$id rc=$rc $(echo "$out" | grep -c '^VIOLATION') viol $(( $(date +%s)-t0 ))s $(echo "$out" | grep SUMMARY | sed 's/.*evaluations/evaluations/')"
  echo "$out" | grep -A3 '^VIOLATION' | head -20
done
