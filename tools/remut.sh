#!/bin/bash
# usage: remut.sh [Cxx-N ...]  — final sweep over the seeded changes: applies each patch to /repo, runs the
# quick check(s) that are expected to catch it, reverts, and records the outcome in seeded/RESULTS.tsv and
# in the change's meta.json (field final_sweep).  Sequential: it works in /repo itself.
export GOFLAGS=-mod=mod GOPROXY=off GOSUMDB=off GOTOOLCHAIN=local
cd /verif || exit 1
declare -A extra=( [C12-4]="C18" [C14-3]="C15" [C14-5]="C16" [C01-6]="C20" [C10-3]="C09" [C01-8]="C20" [C11-9]="C02" [C01-11]="C10" [C12-12]="C08" [C03-12]="C07 C11" [C07-9]="C08" [C10-9]="C08" [C13-9]="C05" [C02-14]="C19" [C03-14]="C07" [C05-13]="C10" [C10-13]="C05" [C13-13]="C11" )
list="$@"; [ -z "$list" ] && list=$(ls seeded | grep '^C[0-9][0-9]-[0-9]*$' | sort -V)
for m in $list; do
  d=seeded/$m; p=${m%-*}
  if [ -n "$(git -C /repo status --porcelain --untracked-files=no)" ]; then echo "repo not clean"; exit 1; fi
  if ! git -C /repo apply /verif/$d/patch.diff 2>/dev/null; then echo -e "$m\tNOAPPLY" | tee -a seeded/RESULTS.tsv.new; continue; fi
  res=""
  for c in $p ${extra[$m]}; do
    out=$(./check $c quick 2>&1); rc=$?
    nv=$(echo "$out" | grep -c '^VIOLATION')
    ids=$(echo "$out" | grep '^  identity:' | head -3 | sed 's/^  identity: //' | tr '\n' ';')
    res="$res$c:rc=$rc:violations=$nv:$ids\t"
  done
  git -C /repo checkout -- . ; git -C /repo clean -fdq
  echo -e "$m\t$res" | tee -a seeded/RESULTS.tsv.new
  python3 - "$d/meta.json" "$res" <<'PY'
import json,sys
p,res=sys.argv[1:3]
m=json.load(open(p)); m['final_sweep']=[x for x in res.replace('\\t','\t').split('\t') if x]
json.dump(m,open(p,'w'),indent=1)
PY
done
