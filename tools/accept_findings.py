#!/usr/bin/env python3
"""Developer aid (never run by a check): after manual review of the violations of the last run of a property,
append the not-yet-listed identities to known_findings.jsonl.  usage: accept_findings.py Cxx [filter-substring] [--avoid f1,f2]"""
import json,sys,glob
prop=sys.argv[1]; filt=''; avoid=[]
args=sys.argv[2:]
while args:
    a=args.pop(0)
    if a=='--avoid': avoid=args.pop(0).split(',')
    else: filt=a
known=set()
for l in open('/verif/known_findings.jsonl'):
    l=l.strip()
    if l and not l.startswith('#'):
        d=json.loads(l)
        if d['status']=='known': known.add(d['identity'])
seen={}
for f in sorted(glob.glob(f'/verif/run/{prop}/*.jsonl')):
    for l in open(f):
        try: r=json.loads(l)
        except Exception: continue
        if r.get('k')=='viol' and filt in r['id'] and r['id'] not in known and r['id'] not in seen:
            seen[r['id']]=r
with open('/verif/known_findings.jsonl','a') as out:
    for i,r in sorted(seen.items()):
        w=r.get('wit') or {}
        wit=''
        if isinstance(w,dict):
            wit=w.get('sql') or w.get('input') or json.dumps(w)[:300]
        e={"status":"known","property":prop,"identity":i,"what":r.get('detail','')[:220].replace('\n','\\n'),"witness":str(wit)[:300]}
        if avoid: e["avoid"]=avoid
        out.write(json.dumps(e)+'\n')
print("appended",len(seen))
