package mon

import (
	"bufio"
	"bytes"
	"crypto/sha1"
	"encoding/hex"
	"encoding/json"
	"fmt"
	"os"
	"os/exec"
	"path/filepath"
	"regexp"
	"sort"
	"strconv"
	"strings"
	"sync"
	"syscall"
	"time"
)

const VerifDir = "/verif"
const RepoDir = "/repo"

// Viol is a violation as seen by the parent.
type Viol struct {
	ID, Clause, Detail string
	Witness            json.RawMessage
	Phase              string
}

// Finding is one line of known_findings.jsonl.
type Finding struct {
	Status   string `json:"status"` // known | fixed
	Property string `json:"property"`
	Identity string `json:"identity"`
	What     string `json:"what"`
	Witness  string `json:"witness,omitempty"`
	Commit   string `json:"commit,omitempty"`
	Avoid    []string `json:"avoid,omitempty"` // generator features kept out of the composed layer while this finding is open
}

// Ctx is the parent-side context of one check run.
type Ctx struct {
	Prop     string
	Tier     string
	Seed     int64
	Level    string
	Start    time.Time
	RunDir   string
	mu       sync.Mutex
	Stats    map[string]int64
	Info     map[string]string
	Sets     map[string]map[uint64]struct{}
	Samples  []json.RawMessage
	Viols    []Viol
	Inc      []string
	Known    []Finding
	Rule     string
	DistinctSet string // name of the set that counts distinct_nontrivial
	Assumptions []string
	Exhaustive bool
	Extra    map[string]interface{}
	ObservedNothing bool
	evaluationsKey string
}

func Env() []string {
	env := os.Environ()
	env = append(env, "GOFLAGS=-mod=mod", "GOPROXY=off", "GOSUMDB=off", "GOTOOLCHAIN=local")
	return env
}

func NewCtx(prop, tier string, seed int64, level string) *Ctx {
	c := &Ctx{Prop: prop, Tier: tier, Seed: seed, Level: level, Start: time.Now(),
		RunDir: filepath.Join(VerifDir, "run", prop), Stats: map[string]int64{}, Info: map[string]string{},
		Sets: map[string]map[uint64]struct{}{}, Extra: map[string]interface{}{}, evaluationsKey: "evaluations"}
	os.RemoveAll(c.RunDir)
	os.MkdirAll(filepath.Join(c.RunDir, "replay"), 0o755)
	c.Known = LoadFindings(prop)
	return c
}

func LoadFindings(prop string) []Finding {
	var out []Finding
	f, err := os.Open(filepath.Join(VerifDir, "known_findings.jsonl"))
	if err != nil {
		return nil
	}
	defer f.Close()
	sc := bufio.NewScanner(f)
	sc.Buffer(make([]byte, 1<<20), 1<<24)
	for sc.Scan() {
		line := strings.TrimSpace(sc.Text())
		if line == "" || strings.HasPrefix(line, "#") {
			continue
		}
		var fd Finding
		if json.Unmarshal([]byte(line), &fd) == nil && (prop == "" || fd.Property == prop) {
			out = append(out, fd)
		}
	}
	return out
}

// AvoidFeatures returns the generator features that open findings of any property ask the composed layer to avoid.
func AvoidFeatures() map[string]bool {
	m := map[string]bool{}
	for _, f := range LoadFindings("") {
		if f.Status == "known" {
			for _, a := range f.Avoid {
				m[a] = true
			}
		}
	}
	return m
}

var buildMu sync.Mutex

// Build builds the harness binary in the given variant from /repo's current tree.
// variant: "plain" | "race" | "cover". Returns the path of the binary.
func Build(variant string) (string, error) {
	buildMu.Lock()
	defer buildMu.Unlock()
	bin := filepath.Join(VerifDir, "run", "bin", "vh-"+variant)
	os.MkdirAll(filepath.Dir(bin), 0o755)
	args := []string{"build", "-tags", "verif", "-o", bin}
	switch variant {
	case "race":
		args = append(args, "-race")
	case "cover":
		args = append(args, "-cover", "-covermode=atomic", "-coverpkg=github.com/ajitpratap0/GoSQLX/pkg/...,verifharness/cmd/vh")
	}
	args = append(args, "./cmd/vh")
	cmd := exec.Command("go", args...)
	cmd.Dir = filepath.Join(VerifDir, "harness")
	cmd.Env = Env()
	out, err := cmd.CombinedOutput()
	if err != nil {
		return "", fmt.Errorf("build %s failed: %v\n%s", variant, err, out)
	}
	return bin, nil
}

// Shard describes one child invocation.
type Shard struct {
	Variant string   // plain | race | cover
	Phase   string   // phase name passed to the child
	Args    []string // extra args
	Env     []string // extra env
	Timeout time.Duration
	Name    string // log file stem
}

// ShardResult is what the parent learned from one child.
type ShardResult struct {
	Shard     Shard
	ExitCode  int
	Signal    string
	TimedOut  bool
	Ended     bool // saw the end record
	LastBegin *Rec
	Stderr    string
	LogPath   string
	UserCPU   time.Duration
	Stats     map[string]int64
	Wall      time.Duration
	MaxRSSKB  int64 // peak resident set of the child (getrusage)
	MemCapped bool  // the parent killed the child because its resident set passed the cap
}

// childRSSCapKB is the resident-set size at which the parent kills a child (and reports the end as a
// death): no input of at most 10 MiB needs anything near it, and an unbounded leak would otherwise take the
// whole sandbox down with it (there is no memory limit here).  VERIF_CHILD_RSS_CAP_MB overrides it.
func childRSSCapKB() int64 {
	if v, err := strconv.ParseInt(os.Getenv("VERIF_CHILD_RSS_CAP_MB"), 10, 64); err == nil && v > 0 {
		return v << 10
	}
	return 10 << 20 // 10 GiB
}

// rssKB reads the resident set of a process from /proc (0 if it is gone).
func rssKB(pid int) int64 {
	b, err := os.ReadFile("/proc/" + strconv.Itoa(pid) + "/statm")
	if err != nil {
		return 0
	}
	f := strings.Fields(string(b))
	if len(f) < 2 {
		return 0
	}
	pages, _ := strconv.ParseInt(f[1], 10, 64)
	return pages * int64(os.Getpagesize()) >> 10
}

// RunShards runs the children with at most par in parallel and merges their logs into the context.
func (c *Ctx) RunShards(shards []Shard, par int) []ShardResult {
	if par <= 0 {
		par = 16
	}
	bins := map[string]string{}
	for _, s := range shards {
		if _, ok := bins[s.Variant]; !ok {
			b, err := Build(s.Variant)
			if err != nil {
				fmt.Println("BUILD-FAILURE:", err)
				c.Inc = append(c.Inc, "build failure: "+err.Error())
				c.ObservedNothing = true
				return nil
			}
			bins[s.Variant] = b
		}
	}
	res := make([]ShardResult, len(shards))
	sem := make(chan struct{}, par)
	var wg sync.WaitGroup
	for i := range shards {
		wg.Add(1)
		sem <- struct{}{}
		go func(i int) {
			defer wg.Done()
			defer func() { <-sem }()
			res[i] = c.runOne(bins[shards[i].Variant], shards[i], i)
		}(i)
	}
	wg.Wait()
	return res
}

func (c *Ctx) runOne(bin string, s Shard, idx int) ShardResult {
	name := s.Name
	if name == "" {
		name = fmt.Sprintf("%s-%03d", s.Phase, idx)
	}
	logPath := filepath.Join(c.RunDir, name+".jsonl")
	errPath := filepath.Join(c.RunDir, name+".stderr")
	args := append([]string{"child", "-prop", c.Prop, "-phase", s.Phase, "-tier", c.Tier,
		"-seed", strconv.FormatInt(c.Seed, 10), "-out", logPath}, s.Args...)
	to := s.Timeout
	if to == 0 {
		to = 10 * time.Minute
	}
	cmd := exec.Command(bin, args...)
	cmd.Env = append(Env(), s.Env...)
	ef, _ := os.Create(errPath)
	cmd.Stderr = ef
	cmd.Stdout = ef
	cmd.SysProcAttr = &syscall.SysProcAttr{Setpgid: true}
	t0 := time.Now()
	r := ShardResult{Shard: s, LogPath: logPath}
	if err := cmd.Start(); err != nil {
		r.ExitCode = -1
		r.Stderr = err.Error()
		return r
	}
	done := make(chan error, 1)
	go func() { done <- cmd.Wait() }()
	var err error
	capKB := childRSSCapKB()
	deadline := time.After(to)
	tick := time.NewTicker(200 * time.Millisecond)
	defer tick.Stop()
wait:
	for {
		select {
		case err = <-done:
			break wait
		case <-tick.C:
			if rssKB(cmd.Process.Pid) > capKB {
				r.MemCapped = true
				syscall.Kill(-cmd.Process.Pid, syscall.SIGKILL)
				err = <-done
				break wait
			}
			continue
		case <-deadline:
		}
		r.TimedOut = true
		syscall.Kill(-cmd.Process.Pid, syscall.SIGQUIT)
		select {
		case err = <-done:
		case <-time.After(20 * time.Second):
			syscall.Kill(-cmd.Process.Pid, syscall.SIGKILL)
			err = <-done
		}
		break
	}
	ef.Close()
	r.Wall = time.Since(t0)
	if cmd.ProcessState != nil {
		r.UserCPU = cmd.ProcessState.UserTime()
		r.ExitCode = cmd.ProcessState.ExitCode()
		if ws, ok := cmd.ProcessState.Sys().(syscall.WaitStatus); ok && ws.Signaled() {
			r.Signal = ws.Signal().String()
		}
		if ru, ok := cmd.ProcessState.SysUsage().(*syscall.Rusage); ok && ru != nil {
			r.MaxRSSKB = int64(ru.Maxrss)
		}
	}
	_ = err
	if b, e := os.ReadFile(errPath); e == nil {
		if len(b) > 1<<20 {
			b = append(b[:1<<19], b[len(b)-(1<<19):]...)
		}
		r.Stderr = string(b)
	}
	c.mergeLog(&r, s.Phase)
	c.mu.Lock()
	if mb := r.MaxRSSKB >> 10; mb > c.Stats["max:child_peak_rss_mb"] {
		c.Stats["max:child_peak_rss_mb"] = mb
	}
	c.mu.Unlock()
	return r
}

func (c *Ctx) mergeLog(r *ShardResult, phase string) {
	f, err := os.Open(r.LogPath)
	if err != nil {
		return
	}
	defer f.Close()
	sc := bufio.NewScanner(f)
	sc.Buffer(make([]byte, 1<<20), 1<<28)
	c.mu.Lock()
	defer c.mu.Unlock()
	for sc.Scan() {
		var rec Rec
		if json.Unmarshal(sc.Bytes(), &rec) != nil {
			continue
		}
		switch rec.K {
		case "begin":
			rr := rec
			r.LastBegin = &rr
		case "viol":
			c.Viols = append(c.Viols, Viol{ID: rec.ID, Clause: rec.Clause, Detail: rec.Detail, Witness: rec.Wit, Phase: phase})
		case "inc":
			c.Inc = append(c.Inc, rec.ID+": "+rec.Detail)
		case "stats":
			r.Stats = rec.M
			for k, v := range rec.M {
				if strings.HasPrefix(k, "max:") {
					if v > c.Stats[k] {
						c.Stats[k] = v
					}
				} else {
					c.Stats[k] += v
				}
			}
			for k, v := range rec.Info {
				c.Info[k] = v
			}
		case "distinct":
			m := c.Sets[rec.Set]
			if m == nil {
				m = map[uint64]struct{}{}
				c.Sets[rec.Set] = m
			}
			for _, k := range rec.Keys {
				m[k] = struct{}{}
			}
		case "sample":
			if len(c.Samples) < 40 {
				c.Samples = append(c.Samples, rec.V)
			}
		case "end":
			r.Ended = true
		}
	}
}

var fatalRe = regexp.MustCompile(`(?m)^(fatal error: .*|panic: .*|runtime: goroutine stack exceeds.*|SIGSEGV.*|unexpected fault address.*)$`)

// DeathBanner extracts the first runtime banner from a child's stderr.
func DeathBanner(stderr string) string {
	m := fatalRe.FindString(stderr)
	return m
}

// TopLibFrame returns the first stack frame in stderr that lies in the GoSQLX module.
func TopLibFrame(stderr string) string {
	re := regexp.MustCompile(`github\.com/ajitpratap0/GoSQLX/[\w./\-]+(?:\(\*?\w+\))?[\w.]*`)
	m := re.FindString(stderr)
	return m
}

func (c *Ctx) AddViol(v Viol) {
	c.mu.Lock()
	c.Viols = append(c.Viols, v)
	c.mu.Unlock()
}

func (c *Ctx) AddInc(s string) {
	c.mu.Lock()
	c.Inc = append(c.Inc, s)
	c.mu.Unlock()
}

func (c *Ctx) AddStat(k string, n int64) {
	c.mu.Lock()
	c.Stats[k] += n
	c.mu.Unlock()
}

// Finish matches violations with the findings file, prints the verdict lines,
// writes the evidence file and returns the process exit code.
func (c *Ctx) Finish() int {
	// dedupe by identity
	byID := map[string]*Viol{}
	var order []string
	for i := range c.Viols {
		v := &c.Viols[i]
		if _, ok := byID[v.ID]; !ok {
			byID[v.ID] = v
			order = append(order, v.ID)
		}
	}
	sort.Strings(order)
	known := map[string]*Finding{}
	for i := range c.Known {
		f := &c.Known[i]
		if f.Status == "known" {
			known[f.Identity] = f
		}
	}
	var unlisted []string
	observedKnown := map[string]bool{}
	for _, id := range order {
		if _, ok := known[id]; ok {
			observedKnown[id] = true
		} else {
			unlisted = append(unlisted, id)
		}
	}
	// print known findings (all listed for this property)
	var kids []string
	for id := range known {
		kids = append(kids, id)
	}
	sort.Strings(kids)
	for _, id := range kids {
		st := "not reached in this run"
		if observedKnown[id] {
			st = "observed"
		}
		fmt.Printf("KNOWN-FINDING: property=%s %s — %s [%s]\n", c.Prop, id, known[id].What, st)
	}
	for _, s := range c.Inc {
		fmt.Printf("INCONCLUSIVE: property=%s %s\n", c.Prop, oneLine(s, 300))
	}
	maxPrint := 40
	for i, id := range unlisted {
		v := byID[id]
		path := c.writeReplay(v)
		if i < maxPrint {
			fmt.Printf("VIOLATION property=%s replay=%s\n", c.Prop, path)
			fmt.Printf("  identity: %s\n  clause: %s\n  detail: %s\n", v.ID, v.Clause, oneLine(v.Detail, 600))
		}
	}
	if len(unlisted) > maxPrint {
		fmt.Printf("  … and %d more unlisted identities (see %s/replay)\n", len(unlisted)-maxPrint, c.RunDir)
	}
	c.writeEvidence(len(unlisted), len(observedKnown), order)
	evals := c.Stats[c.evaluationsKey]
	fmt.Printf("SUMMARY property=%s tier=%s seed=%d evaluations=%d identities_seen=%d identities_not_listed=%d known_observed=%d inconclusive=%d wall=%.1fs\n",
		c.Prop, c.Tier, c.Seed, evals, len(order), len(unlisted), len(observedKnown), len(c.Inc), time.Since(c.Start).Seconds())
	if len(unlisted) > 0 {
		return 1
	}
	if c.ObservedNothing || evals == 0 {
		fmt.Printf("NO-OBSERVATION property=%s: the run produced no deciding observation\n", c.Prop)
		return 2
	}
	return 0
}

func oneLine(s string, n int) string {
	s = strings.ReplaceAll(s, "\n", "\\n")
	if len(s) > n {
		s = s[:n] + "…"
	}
	return s
}

func (c *Ctx) writeReplay(v *Viol) string {
	h := sha1.Sum([]byte(v.ID))
	p := filepath.Join(c.RunDir, "replay", hex.EncodeToString(h[:6])+".json")
	b, _ := json.MarshalIndent(map[string]interface{}{
		"property": c.Prop, "identity": v.ID, "clause": v.Clause, "detail": v.Detail,
		"phase": v.Phase, "seed": c.Seed, "tier": c.Tier, "witness": v.Witness,
	}, "", " ")
	os.WriteFile(p, b, 0o644)
	return p
}

func (c *Ctx) writeEvidence(unlisted, knownObserved int, ids []string) {
	distinct := 0
	if c.DistinctSet != "" {
		distinct = len(c.Sets[c.DistinctSet])
	}
	setSizes := map[string]int{}
	for k, v := range c.Sets {
		setSizes[k] = len(v)
	}
	samples := make([]interface{}, 0, len(c.Samples))
	for _, s := range c.Samples {
		var x interface{}
		json.Unmarshal(s, &x)
		samples = append(samples, x)
	}
	cov := map[string]interface{}{
		"evaluations":           c.Stats[c.evaluationsKey],
		"distinct_nontrivial":   distinct,
		"rule":                  c.Rule,
		"samples":               samples,
		"counters":              c.Stats,
		"distinct_sets":         setSizes,
		"info":                  c.Info,
		"identities_seen":       len(ids),
		"identities_not_listed": unlisted,
		"known_findings_observed": knownObserved,
		"inconclusive":          c.Inc,
	}
	if c.Exhaustive {
		cov["exhaustive"] = true
	}
	for k, v := range c.Extra {
		cov[k] = v
	}
	if len(ids) > 0 {
		if len(ids) > 200 {
			ids = ids[:200]
		}
		cov["identities"] = ids
	}
	ev := map[string]interface{}{
		"property_id": c.Prop, "tier": c.Tier, "seed": c.Seed, "level": c.Level,
		"coverage": cov, "assumptions": c.Assumptions, "wall_s": time.Since(c.Start).Seconds(),
		"violations": unlisted,
	}
	b, _ := json.MarshalIndent(ev, "", " ")
	os.MkdirAll(filepath.Join(VerifDir, "evidence"), 0o755)
	os.WriteFile(filepath.Join(VerifDir, "evidence", c.Prop+".json"), append(b, '\n'), 0o644)
}

// ClassifyDeaths turns abnormal child ends into violations (fatal error / panic / signal)
// or inconclusive notes (watchdog). mkID builds the identity from the banner and top library frame.
func (c *Ctx) ClassifyDeaths(results []ShardResult, clause string) {
	for _, r := range results {
		if r.Ended && r.ExitCode == 0 {
			continue
		}
		if r.Ended && r.ExitCode == 66 && r.Shard.Variant == "race" {
			continue // the race detector's exit status: the reports themselves are read from the GORACE log
		}
		last := ""
		var wit json.RawMessage
		if r.LastBegin != nil {
			last = r.LastBegin.EP
			wit, _ = json.Marshal(map[string]interface{}{"ep": r.LastBegin.EP, "input": string(r.LastBegin.In), "input_b64": r.LastBegin.In, "phase": r.Shard.Phase, "args": r.Shard.Args})
		}
		if r.MemCapped {
			// decided on bytes, not on time: the resident set passed the cap (childRSSCapKB)
			c.AddViol(Viol{ID: fmt.Sprintf("%s/death/memory-cap@%s", c.Prop, r.Shard.Phase), Clause: clause, Detail: fmt.Sprintf("child %s was stopped because its resident set passed %d MiB (an input of at most 10 MiB never needs that); last input=%s", r.Shard.Phase, childRSSCapKB()>>10, oneLine(last, 200)), Witness: wit, Phase: r.Shard.Phase})
			continue
		}
		if r.TimedOut {
			c.AddInc(fmt.Sprintf("watchdog fired on child %s after %s (last input: %s)", r.Shard.Phase, r.Wall.Round(time.Second), oneLine(last, 120)))
			continue
		}
		banner := DeathBanner(r.Stderr)
		frame := TopLibFrame(r.Stderr)
		if banner == "" && r.Signal == "" && r.ExitCode == 3 {
			// child reported an internal harness problem
			c.AddInc(fmt.Sprintf("child %s exited 3: %s", r.Shard.Phase, oneLine(tail(r.Stderr, 400), 400)))
			continue
		}
		id := fmt.Sprintf("%s/death/%s@%s", c.Prop, normBanner(banner, r.Signal, r.ExitCode), frame)
		c.AddViol(Viol{ID: id, Clause: clause, Detail: fmt.Sprintf("child died (exit=%d signal=%q ended=%v) banner=%q last input=%s\n%s", r.ExitCode, r.Signal, r.Ended, banner, oneLine(last, 200), tail(r.Stderr, 1500)), Witness: wit, Phase: r.Shard.Phase})
	}
}

func normBanner(b, sig string, code int) string {
	if b == "" {
		if sig != "" {
			return "signal:" + sig
		}
		return "exit:" + strconv.Itoa(code)
	}
	b = regexp.MustCompile(`0x[0-9a-f]+|\d+`).ReplaceAllString(b, "N")
	if len(b) > 80 {
		b = b[:80]
	}
	return b
}

func tail(s string, n int) string {
	if len(s) > n {
		return s[len(s)-n:]
	}
	return s
}

// CountRaceReports parses GORACE log files with the given prefix and returns deduplicated reports
// keyed by line-stripped library stack pairs. Reports with no library frame are discarded.
func CountRaceReports(prefix string) (total int, dedup map[string]string) {
	dedup = map[string]string{}
	files, _ := filepath.Glob(prefix + "*")
	lineRe := regexp.MustCompile(`:\d+( \+0x[0-9a-f]+)?`)
	for _, f := range files {
		b, err := os.ReadFile(f)
		if err != nil {
			continue
		}
		blocks := bytes.Split(b, []byte("=================="))
		for _, blk := range blocks {
			if !bytes.Contains(blk, []byte("WARNING: DATA RACE")) {
				continue
			}
			total++
			var frames []string
			for _, ln := range strings.Split(string(blk), "\n") {
				ln = strings.TrimSpace(ln)
				if strings.HasPrefix(ln, "github.com/ajitpratap0/GoSQLX/") {
					fn := ln
					if i := strings.Index(fn, "("); i > 0 {
						fn = fn[:i]
					}
					frames = append(frames, fn)
				}
			}
			if len(frames) == 0 {
				continue
			}
			// innermost library frame of each of the two accesses: approximate by first frame after each "by goroutine"
			key := innermostPair(string(blk))
			key = lineRe.ReplaceAllString(key, "")
			if _, ok := dedup[key]; !ok {
				s := string(blk)
				if len(s) > 3000 {
					s = s[:3000]
				}
				dedup[key] = s
			}
		}
	}
	return
}

func innermostPair(blk string) string {
	var firsts []string
	sections := regexp.MustCompile(`(?m)^(Write|Read|Previous write|Previous read|Atomic|Previous atomic)[^\n]*by [^\n]*:$`).FindAllStringIndex(blk, -1)
	for _, loc := range sections {
		rest := blk[loc[1]:]
		for _, ln := range strings.Split(rest, "\n") {
			t := strings.TrimSpace(ln)
			if t == "" && len(firsts) > 0 {
				break
			}
			if strings.HasPrefix(t, "github.com/ajitpratap0/GoSQLX/") {
				if i := strings.Index(t, "("); i > 0 {
					t = t[:i]
				}
				firsts = append(firsts, t)
				break
			}
			if strings.HasPrefix(t, "Goroutine ") || strings.HasPrefix(t, "Previous ") {
				break
			}
		}
	}
	sort.Strings(firsts)
	return strings.Join(firsts, " <-> ")
}
