// Package mon holds the shared monitoring machinery: the child-side event
// recorder (log-before-call, violations, counters, distinct-shape sets) and the
// parent-side runner (build variants, sharded children under a watchdog, death
// classification, findings matching, evidence).
package mon

import (
	"bufio"
	"encoding/json"
	"fmt"
	"hash/fnv"
	"os"
	"sort"
	"sync"
)

// Rec is one line of a child's event log.
type Rec struct {
	K      string            `json:"k"`                // begin | viol | stats | distinct | sample | inc | known | end
	Seq    int64             `json:"seq,omitempty"`    // begin: sequence number of the input
	EP     string            `json:"ep,omitempty"`     // begin: entry point / case id
	In     []byte            `json:"in,omitempty"`     // begin: the raw input (base64 in JSON)
	ID     string            `json:"id,omitempty"`     // viol: identity
	Clause string            `json:"clause,omitempty"` // viol: oracle clause
	Detail string            `json:"detail,omitempty"` // viol / inc: human text
	Wit    json.RawMessage   `json:"wit,omitempty"`    // viol: witness (replayable)
	M      map[string]int64  `json:"m,omitempty"`      // stats
	Set    string            `json:"set,omitempty"`    // distinct: set name
	Keys   []uint64          `json:"keys,omitempty"`   // distinct: hashed keys
	V      json.RawMessage   `json:"v,omitempty"`      // sample
	Info   map[string]string `json:"info,omitempty"`   // free-form evidence strings
}

// Recorder is the child-side writer. It is safe for concurrent use.
type Recorder struct {
	mu       sync.Mutex
	f        *os.File
	w        *bufio.Writer
	stats    map[string]int64
	sets     map[string]map[uint64]struct{}
	samples  map[string]int
	violSeen map[string]int
	info     map[string]string
	MaxViolPerID int
}

func NewRecorder(path string) (*Recorder, error) {
	f, err := os.Create(path)
	if err != nil {
		return nil, err
	}
	return &Recorder{f: f, w: bufio.NewWriterSize(f, 1<<16), stats: map[string]int64{},
		sets: map[string]map[uint64]struct{}{}, samples: map[string]int{}, violSeen: map[string]int{},
		info: map[string]string{}, MaxViolPerID: 2}, nil
}

func (r *Recorder) write(rec *Rec, flush bool) {
	b, _ := json.Marshal(rec)
	r.w.Write(b)
	r.w.WriteByte('\n')
	if flush {
		r.w.Flush()
	}
}

// Begin logs an input before the library sees it and flushes to the OS, so
// that a process-fatal error can be attributed by the parent.
func (r *Recorder) Begin(seq int64, ep string, in []byte) {
	r.mu.Lock()
	defer r.mu.Unlock()
	if len(in) > 4096 {
		// large inputs: log a recipe-free prefix and length; the case id (ep) must be enough to rebuild it
		r.write(&Rec{K: "begin", Seq: seq, EP: fmt.Sprintf("%s [len=%d]", ep, len(in)), In: in[:4096]}, true)
		return
	}
	r.write(&Rec{K: "begin", Seq: seq, EP: ep, In: in}, true)
}

// Viol records a violation. identity must be stable across seeds.
func (r *Recorder) Viol(identity, clause, detail string, witness interface{}) {
	r.mu.Lock()
	defer r.mu.Unlock()
	r.stats["violations_raw"]++
	r.violSeen[identity]++
	if r.violSeen[identity] > r.MaxViolPerID {
		return
	}
	wb, _ := json.Marshal(witness)
	if len(detail) > 2000 {
		detail = detail[:2000] + "…"
	}
	r.write(&Rec{K: "viol", ID: identity, Clause: clause, Detail: detail, Wit: wb}, true)
}

func (r *Recorder) Inconclusive(caseID, reason string) {
	r.mu.Lock()
	defer r.mu.Unlock()
	r.write(&Rec{K: "inc", ID: caseID, Detail: reason}, false)
}

func (r *Recorder) Count(name string, n int64) {
	r.mu.Lock()
	r.stats[name] += n
	r.mu.Unlock()
}

// Max keeps the maximum of a gauge under "max:"+name.
func (r *Recorder) Max(name string, v int64) {
	r.mu.Lock()
	if v > r.stats["max:"+name] {
		r.stats["max:"+name] = v
	}
	r.mu.Unlock()
}

func (r *Recorder) Info(k, v string) {
	r.mu.Lock()
	r.info[k] = v
	r.mu.Unlock()
}

func Hash(s string) uint64 {
	h := fnv.New64a()
	h.Write([]byte(s))
	return h.Sum64()
}

// Distinct adds key to the named distinct set.
func (r *Recorder) Distinct(set, key string) {
	h := Hash(key)
	r.mu.Lock()
	m := r.sets[set]
	if m == nil {
		m = map[uint64]struct{}{}
		r.sets[set] = m
	}
	m[h] = struct{}{}
	r.mu.Unlock()
}

// Sample records up to max actual cases per class.
func (r *Recorder) Sample(class string, max int, v interface{}) {
	r.mu.Lock()
	defer r.mu.Unlock()
	if r.samples[class] >= max {
		return
	}
	r.samples[class]++
	b, _ := json.Marshal(map[string]interface{}{"class": class, "case": v})
	r.write(&Rec{K: "sample", V: b}, false)
}

// Close writes the aggregated records and the end marker.
func (r *Recorder) Close() {
	r.mu.Lock()
	defer r.mu.Unlock()
	r.write(&Rec{K: "stats", M: r.stats, Info: r.info}, false)
	names := make([]string, 0, len(r.sets))
	for n := range r.sets {
		names = append(names, n)
	}
	sort.Strings(names)
	for _, n := range names {
		keys := make([]uint64, 0, len(r.sets[n]))
		for k := range r.sets[n] {
			keys = append(keys, k)
		}
		for len(keys) > 0 {
			c := len(keys)
			if c > 20000 {
				c = 20000
			}
			r.write(&Rec{K: "distinct", Set: n, Keys: keys[:c]}, false)
			keys = keys[c:]
		}
	}
	r.write(&Rec{K: "end"}, true)
	r.f.Close()
}
