package props

import (
	"context"
	"fmt"
	"github.com/ajitpratap0/GoSQLX/pkg/sql/token"
	"math/rand"
	"runtime"
	"runtime/debug"
	"strconv"
	"strings"
	"time"

	"github.com/ajitpratap0/GoSQLX/pkg/models"
	"github.com/ajitpratap0/GoSQLX/pkg/sql/keywords"
	"github.com/ajitpratap0/GoSQLX/pkg/sql/parser"
	"github.com/ajitpratap0/GoSQLX/pkg/sql/tokenizer"
	"verifharness/dump"
	"verifharness/gen"
	"verifharness/mon"
)

func init() {
	Registry["C08"] = &Prop{Level: "exploration", Parent: c08Parent, Child: c08Child}
}

func c08Parent(c *mon.Ctx) {
	c.Rule = "random histories (length 2-12) over one tokenizer and one parser instance: tokenize, the five parse entry points, recovery parse, cancelled parse at poll k, ApplyOptions (strict, dialect), SetDialect, Reset, Release, Put->Get through the pools (single P, GC off, pointer identity recorded), over valid, invalid, deeply nested (depth-limit) and multi-line inputs; then probes (dialect-, strict-, position-, depth- and comment-sensitive) run on the used instances and on fresh instances configured as the current holder configured them: tokens, comments, tree, error code, message and location must be equal. A failing history is shrunk by dropping operations while the same probe still differs; the identity is the probe, the differing aspect and the minimal operation sequence. distinct_nontrivial = distinct histories whose pooled instance was actually reused or that contain a failing/cancelled call"
	c.DistinctSet = "histories"
	c.Assumptions = []string{"a pool round trip or Reset() returns the instance to the default configuration; Release() is not assumed to change options", "pool steps in which the pool did not hand back the same object are not counted"}
	per := 1200
	if c.Tier == "thorough" {
		per = 32000
	}
	sh := shards("plain", "histories", 16, "-n", fmt.Sprint(per))
	for i := range sh {
		// the watchdog is there for a shard that hangs, not for a loaded machine: a thorough shard takes eight
		// minutes on an idle one
		sh[i].Timeout = 40 * time.Minute
	}
	res := c.RunShards(sh, 16)
	c.ClassifyDeaths(res, "histories complete")
	if c.Stats["pool_reused"] == 0 {
		c.AddInc("no pool step handed back the same object: pooled-instance clause not observed")
	}
}

type h8Op struct {
	Kind string
	Arg  string
	K    int
}

func (o h8Op) String() string {
	if o.Arg != "" {
		return o.Kind + "(" + trunc(o.Arg, 30) + ")"
	}
	return o.Kind
}

type h8Cfg struct {
	Strict  bool
	Dialect string
	TokDial string
}

type h8State struct {
	tk               *tokenizer.Tokenizer
	p                *parser.Parser
	cfg              h8Cfg
	reusedP, reusedT int
}

var h8Inputs = map[string][]string{
	"valid":   {"SELECT a, b FROM t WHERE a = 1", "INSERT INTO t (a) VALUES (1)", "SELECT a -- c1\nFROM t /* c2 */ WHERE b = 2", "WITH c AS (SELECT 1) SELECT * FROM c", "SELECT\t1,\t2\t/* tabs */\tFROM\tt", "\t\t\tSELECT a\n\t\t\tFROM t", "SELECT 1", "\t\tSELECT 1"},
	"invalid": {"SELECT - FROM t", "INSERT INTO t VALUES (1, -)", "SELECT -(a + ) FROM t", "SELECT +(1", "SELECT a,\n  b\nFROM t\nWHERE ]", "SELECT FROM", "INSERT INTO t VALUES (", "SELECT a FROM t WHERE a = 'unterminated", "SELECT 'bad \\q escape'", "SELECT a FROM t;;\n\nSELECT ] x",
		// eighth round: a failure inside each kind of lexeme, after part of it has been read (whatever scratch state the
		// reader keeps is non-empty at the moment of the failure)
		"SELECT 'secret", "SELECT 'abc\\q'", "SELECT '''triple open", "SELECT \"open ident", "SELECT `open tick", "SELECT $tag$open dollar", "SELECT $$open dollar", "SELECT /* never closed", "SELECT 12e+", "SELECT 'a', 'b', 'unfinished",
		"SELECT 'x\\u12", "SELECT N'open national", "SELECT E'open escape", "SELECT 0x", "SELECT \u2018curly open"},
	"deep": {"SELECT " + strings.Repeat("(", 150) + "1" + strings.Repeat(")", 150), "SELECT " + strings.Repeat("f(", 120) + "1" + strings.Repeat(")", 120),
		"SELECT " + strings.Repeat("- ", 150) + "1", "SELECT " + strings.Repeat("+ ", 130) + "a FROM t", "SELECT " + strings.Repeat("NOT ", 140) + "a", "SELECT " + strings.Repeat("CASE WHEN a THEN ", 110) + "1" + strings.Repeat(" END", 110),
		"SELECT " + strings.Repeat("- ", 60) + " FROM t", "SELECT a FROM t WHERE " + strings.Repeat("(", 60) + "- ",
		// nesting stopped by the guards outside the expression parser (derived tables, scalar sub-queries, CTE bodies)
		strings.Repeat("SELECT * FROM (", 120) + "SELECT 1" + strings.Repeat(") x", 120), "SELECT " + strings.Repeat("(SELECT ", 70) + "1" + strings.Repeat(")", 70),
		strings.Repeat("WITH c AS (", 110) + "SELECT 1" + strings.Repeat(") SELECT * FROM c", 110)},
	"multi": {"SELECT 1;\nSELECT 2;\nSELECT a FROM", ";; SELECT 1", "SELECT a FROM t LIMIT 10, 20"},
}

var h8Kinds = []string{"tokenize", "parse", "parse-ctx", "parse-pos", "parse-recovery", "parse-cancelled", "opt-strict", "opt-mysql", "tok-mysql", "reset-p", "reset-t", "release-p", "pool-p", "pool-t", "tokenize-ctx", "multi-recovery-release", "multi-recovery-release-twice", "parse-ctx-cancel-after"}

func h8RandomOp(r *rand.Rand) h8Op {
	k := h8Kinds[r.Intn(len(h8Kinds))]
	op := h8Op{Kind: k}
	switch k {
	case "tokenize", "parse", "parse-ctx", "parse-pos", "parse-recovery", "parse-cancelled", "tokenize-ctx", "multi-recovery-release", "multi-recovery-release-twice", "parse-ctx-cancel-after":
		classes := []string{"valid", "invalid", "invalid", "deep", "multi"}
		c := classes[r.Intn(len(classes))]
		op.Arg = h8Inputs[c][r.Intn(len(h8Inputs[c]))]
		op.K = r.Intn(6)
	}
	return op
}

func (s *h8State) apply(op h8Op) {
	tokenize := func() []models.TokenWithSpan {
		toks, err := s.tk.Tokenize([]byte(op.Arg))
		if err != nil {
			return nil
		}
		return toks
	}
	switch op.Kind {
	case "tokenize":
		tokenize()
	case "tokenize-ctx":
		_, _ = s.tk.TokenizeContext(context.Background(), []byte(op.Arg))
	case "multi-recovery-release", "multi-recovery-release-twice":
		// the pooled recovery entry point; its result is documented as safe to release more than once
		res := parser.ParseMultiWithRecovery(h8PlainTokens())
		res.Release()
		if op.Kind == "multi-recovery-release-twice" {
			res.Release()
		}
	case "parse":
		if t := tokenize(); t != nil {
			_, _ = s.p.ParseFromModelTokens(t)
		}
	case "parse-ctx":
		if t := tokenize(); t != nil {
			_, _ = s.p.ParseContextFromModelTokens(context.Background(), t)
		}
	case "parse-ctx-cancel-after":
		// the usual "ctx, cancel := WithCancel(...); defer cancel()" caller: the context is cancelled once the call is over
		if t := tokenize(); t != nil {
			ctx, cancel := context.WithCancel(context.Background())
			_, _ = s.p.ParseContextFromModelTokens(ctx, t)
			cancel()
		}
	case "parse-pos":
		if t := tokenize(); t != nil {
			_, _ = s.p.ParseFromModelTokensWithPositions(t)
		}
	case "parse-recovery":
		if t := tokenize(); t != nil {
			_, _ = s.p.ParseWithRecoveryFromModelTokens(t)
		}
	case "parse-cancelled":
		if t := tokenize(); t != nil {
			_, _ = s.p.ParseContextFromModelTokens(newCountingCtx(op.K, context.Canceled), t)
		}
	case "opt-strict":
		s.p.ApplyOptions(parser.WithStrictMode())
		s.cfg.Strict = true
	case "opt-mysql":
		s.p.ApplyOptions(parser.WithDialect("mysql"))
		s.cfg.Dialect = "mysql"
	case "tok-mysql":
		s.tk.SetDialect(keywords.DialectMySQL)
		s.cfg.TokDial = "mysql"
	case "reset-p":
		s.p.Reset()
		s.cfg.Strict, s.cfg.Dialect = false, ""
	case "reset-t":
		s.tk.Reset()
	case "release-p":
		s.p.Release()
	case "pool-p":
		old := s.p
		parser.PutParser(s.p)
		s.p = parser.GetParser()
		if s.p == old {
			s.reusedP++
		}
		s.cfg.Strict, s.cfg.Dialect = false, ""
	case "pool-t":
		old := s.tk
		tokenizer.PutTokenizer(s.tk)
		s.tk = tokenizer.GetTokenizer()
		if s.tk == old {
			s.reusedT++
		}
		s.cfg.TokDial = ""
	}
}

type h8Probe struct {
	Name string
	SQL  string
	Mode string // parse | parse-pos | tokens
	Solo bool   // the history is replayed on instances of its own for this probe (it looks at what the last call left behind)
}

// h8Oversize is one byte longer than the input size limit.
var h8Oversize = []byte("SELECT 1" + strings.Repeat(" ", tokenizer.MaxInputSize-7))

var h8Probes = []h8Probe{
	// calls the tokenizer refuses before scanning: nothing of an earlier call may remain visible on the instance
	{"refused-cancelled", "SELECT 1", "refused-cancelled", true},
	{"refused-oversize", "", "refused-oversize", true},
	{"empty-input", "", "tokens", true},
	{"empty-input-ctx", "", "tokens-ctx", true},
	{"ctx-indented", "     SELECT a FROM t WHERE 'x", "tokens-ctx", true},
	{"ctx-tabs", "\tSELECT\ta,\n\t\tb FROM t", "tokens-ctx", true},
	{"ctx-indented-deep", strings.Repeat(" ", 20) + "SELECT a FROM t WHERE 'x", "tokens-ctx", true},
	{"indented-deep", strings.Repeat(" ", 22) + "SELECT a FROM t WHERE ]", "tokens", true},
	{"ctx-blanks-only", "      ", "tokens-ctx", true},
	{"blanks-only", "       ", "tokens", true},
	{"ctx-comment-after-blanks", strings.Repeat(" ", 18) + "/* c */ SELECT 1", "tokens-ctx", true},
	{"parser-pool-distinct", "", "parser-pool-distinct", true},
	{"depth-150", "SELECT " + strings.Repeat("(", 150) + "1" + strings.Repeat(")", 150), "parse", false},
	{"depth-190-fn", "SELECT " + strings.Repeat("f(", 190) + "1" + strings.Repeat(")", 190), "parse", false},
	{"dialect-limit", "SELECT a FROM t LIMIT 10, 20", "parse", false},
	{"strict-semicolons", ";; SELECT 1", "parse", false},
	{"error-location-plain", "SELECT a FROM t WHERE ]", "parse", false},
	{"error-location-positions", "SELECT a\nFROM t\nWHERE ]", "parse-pos", false},
	{"depth-90", "SELECT " + strings.Repeat("(", 90) + "1" + strings.Repeat(")", 90), "parse", false},
	{"depth-96", "SELECT " + strings.Repeat("(", 96) + "1" + strings.Repeat(")", 96), "parse", false},
	{"depth-97", "SELECT " + strings.Repeat("(", 97) + "1" + strings.Repeat(")", 97), "parse", false},
	{"depth-98", "SELECT " + strings.Repeat("(", 98) + "1" + strings.Repeat(")", 98), "parse", false},
	{"depth-99", "SELECT " + strings.Repeat("(", 99) + "1" + strings.Repeat(")", 99), "parse", false},
	{"valid-tree", "SELECT a, COUNT(*) FROM t JOIN u ON t.a = u.a WHERE b IN (1, 2) GROUP BY a", "parse", false},
	{"tokens-comments", "SELECT a -- one\nFROM t /* two */ WHERE `q` = \"r\"", "tokens", false},
	{"tokens-strings", "SELECT 'alice', 'b''c', 'tab\\there', $$dollar$$, \"quoted id\" FROM t WHERE x = 'y'", "tokens", false},
	{"tokens-keywords", "SELECT zerofill, unsigned, ilike, returning FROM straight_join", "tokens", false},
	// the context entry point reads the same lexemes through its own preamble: every lexeme kind through it as well
	{"ctx-tokens-strings", "SELECT 'alice', 'b''c', 'tab\\there', $$dollar$$, \"quoted id\" FROM t WHERE x = 'y'", "tokens-ctx", true},
	{"ctx-tokens-comments", "SELECT a -- one\nFROM t /* two */ WHERE `q` = \"r\"", "tokens-ctx", false},
	{"ctx-tokens-first-string", "SELECT 'x'", "tokens-ctx", true},
	{"tokens-first-string", "SELECT 'x'", "tokens", true},
	{"ctx-tokens-lexemes", "SELECT '''tri''', $t$d$t$, `tick`, \"id\", 1.5e3, 0x1F, N'nat', E'esc\\n', :name, @v, $1 FROM t", "tokens-ctx", true},
	{"tokens-lexemes", "SELECT '''tri''', $t$d$t$, `tick`, \"id\", 1.5e3, 0x1F, N'nat', E'esc\\n', :name, @v, $1 FROM t", "tokens", false},
	{"cancel-at-poll-3", "SELECT a + 1, b * 2, c FROM t WHERE d = 4 AND e IN (5, 6, 7) OR f BETWEEN 8 AND 9 ORDER BY a, b + c", "parse-cancel-at-3", true},
	{"cancel-profile-expressions", "SELECT a + 1, b * 2, c FROM t WHERE d = 4 AND e IN (5, 6, 7) OR f BETWEEN 8 AND 9 ORDER BY a, b + c", "parse-cancel-profile", true},
	{"cancel-profile-statements", "SELECT a, b, c, d, e, f, g, h FROM t WHERE a = 1; SELECT i, j, k FROM u WHERE l = 2; SELECT m", "parse-cancel-profile", true},
	{"recovery", "SELECT 1; SELECT FROM; SELECT 2", "recovery", false},
	{"recovery-plain-tokens", "SELECT a FROM t WHERE ] ; SELECT 2", "recovery-tokens", false},
}

// h8PlainTokens is a hand-built token stream (SELECT a FROM t WHERE ] ; SELECT 2) for the token-level entry points.
func h8PlainTokens() []token.Token {
	id := func(s string) token.Token { return token.Token{Type: models.TokenTypeIdentifier, Literal: s} }
	return []token.Token{{Type: models.TokenTypeSelect, Literal: "SELECT"}, id("a"), {Type: models.TokenTypeFrom, Literal: "FROM"}, id("t"), {Type: models.TokenTypeWhere, Literal: "WHERE"},
		{Type: models.TokenTypeRBracket, Literal: "]"}, {Type: models.TokenTypeSemicolon, Literal: ";"}, {Type: models.TokenTypeSelect, Literal: "SELECT"}, {Type: models.TokenTypeNumber, Literal: "2"}, {Type: models.TokenTypeEOF}}
}

// h8Outcome runs one probe on (tk, p) and digests everything observable.
func h8Outcome(tk *tokenizer.Tokenizer, p *parser.Parser, pr h8Probe) map[string]string {
	out := map[string]string{}
	out["dialect"] = string(tk.Dialect())
	if pr.Mode == "refused-cancelled" || pr.Mode == "refused-oversize" {
		var err error
		if pr.Mode == "refused-cancelled" {
			ctx, cancel := context.WithCancel(context.Background())
			cancel()
			_, err = tk.TokenizeContext(ctx, []byte(pr.SQL))
		} else {
			_, err = tk.Tokenize(h8Oversize)
		}
		if err != nil {
			out["tokenize-error"] = firstLine(err.Error())
			if len(out["tokenize-error"]) > 80 {
				out["tokenize-error"] = out["tokenize-error"][:80]
			}
		}
		out["comments"] = dump.Dump(tk.Comments)
		return out
	}
	if pr.Mode == "parser-pool-distinct" {
		// two holders at the same time never get the same parser
		p1, p2 := parser.GetParser(), parser.GetParser()
		out["tree"] = fmt.Sprint(p1 == p2)
		if p1 != p2 {
			parser.PutParser(p2)
		}
		parser.PutParser(p1)
		return out
	}
	var toks []models.TokenWithSpan
	var err error
	if pr.Mode == "tokens-ctx" {
		toks, err = tk.TokenizeContext(context.Background(), []byte(pr.SQL))
	} else {
		toks, err = tk.Tokenize([]byte(pr.SQL))
	}
	if err != nil {
		out["tokenize-error"] = fmt.Sprintf("%+v", shapeOf(err))
		out["comments"] = dump.Dump(tk.Comments)
		return out
	}
	out["tokens"] = dump.Dump(toks)
	out["comments"] = dump.Dump(tk.Comments)
	if pr.Mode == "tokens" || pr.Mode == "tokens-ctx" {
		return out
	}
	if pr.Mode == "recovery-tokens" {
		// the plain-token recovery entry point: no position table belongs to this stream
		stmts, errs := p.ParseWithRecovery(h8PlainTokens())
		out["tree"] = dump.Dump(stmts)
		var es []string
		for _, e := range errs {
			es = append(es, fmt.Sprintf("%+v / %s", shapeOf(e), firstLine(e.Error())))
		}
		out["error"] = strings.Join(es, " | ")
		return out
	}
	if pr.Mode == "recovery" {
		stmts, errs := p.ParseWithRecoveryFromModelTokens(toks)
		out["tree"] = dump.Dump(stmts)
		var es []string
		for _, e := range errs {
			es = append(es, fmt.Sprintf("%+v", shapeOf(e)))
		}
		out["error"] = strings.Join(es, " | ")
		return out
	}
	var perr error
	var tree interface{}
	if pr.Mode == "parse-cancel-profile" {
		// the same call under contexts that turn done from their 1st, 2nd, ... 24th poll on: which of them still
		// complete is a function of the tokens only
		// (the probe's own text and select lists of 5, 12, 15, 20 and 31 columns)
		var prof []string
		var streams [][]models.TokenWithSpan
		for _, n := range []int{5, 3, 12, 15, 20, 31} {
			cols := make([]string, n)
			for i := range cols {
				cols[i] = fmt.Sprintf("c%d", i)
			}
			if ts, err := mustTokenizer().Tokenize([]byte("SELECT " + strings.Join(cols, ", ") + " FROM t")); err == nil {
				streams = append(streams, ts)
			}
		}
		streams = append(streams, toks)
		for si, ts := range streams {
			// from contexts that outlive the call down to one that is done at once: the first calls complete, so
			// that nothing the earlier ones did (a cancellation, say) brings the two instances into step
			for k := 14; k >= 0; k-- {
				a, e := p.ParseContextFromModelTokens(newCountingCtx(k, context.Canceled), ts)
				switch {
				case e != nil:
					prof = append(prof, fmt.Sprintf("%d.%d:%s", si, k, shapeOf(e).Code+"/"+firstLine(e.Error())))
				case a != nil:
					prof = append(prof, fmt.Sprintf("%d.%d:tree/%d", si, k, len(a.Statements)))
				default:
					prof = append(prof, fmt.Sprintf("%d.%d:nil", si, k))
				}
			}
		}
		out["tree"] = strings.Join(prof, " ")
		return out
	}
	if strings.HasPrefix(pr.Mode, "parse-cancel-at-") {
		// a context that turns done while the call runs (from its k-th poll on): whether the call still completes, and
		// with what, is a function of the context and the tokens only
		k, _ := strconv.Atoi(strings.TrimPrefix(pr.Mode, "parse-cancel-at-"))
		a, e := p.ParseContextFromModelTokens(newCountingCtx(k, context.Canceled), toks)
		perr = e
		if a != nil {
			tree = a
		}
	} else if pr.Mode == "parse-pos" {
		a, e := p.ParseFromModelTokensWithPositions(toks)
		perr = e
		if a != nil {
			tree = a
		}
	} else {
		a, e := p.ParseFromModelTokens(toks)
		perr = e
		if a != nil {
			tree = a
		}
	}
	if tree != nil {
		out["tree"] = dump.Dump(tree)
	}
	if perr != nil {
		out["error"] = fmt.Sprintf("%+v", shapeOf(perr))
	}
	return out
}

func h8Fresh(cfg h8Cfg) (*tokenizer.Tokenizer, *parser.Parser) {
	tk := mustTokenizer()
	if cfg.TokDial == "mysql" {
		tk.SetDialect(keywords.DialectMySQL)
	}
	var opts []parser.ParserOption
	if cfg.Strict {
		opts = append(opts, parser.WithStrictMode())
	}
	if cfg.Dialect != "" {
		opts = append(opts, parser.WithDialect(cfg.Dialect))
	}
	return tk, parser.NewParser(opts...)
}

// h8Run executes a history and returns, per probe, the first differing aspect ("" when equal).
func h8Run(ops []h8Op) (map[string]string, map[string][2]string, *h8State) {
	s := &h8State{tk: tokenizer.GetTokenizer(), p: parser.GetParser()}
	// the instances may come from the pool in any state a previous history left them in: start from clean ones
	s.tk, s.p = mustTokenizer(), parser.NewParser()
	for _, op := range ops {
		s.apply(op)
	}
	diffs := map[string]string{}
	detail := map[string][2]string{}
	for _, pr := range h8Probes {
		var used map[string]string
		if pr.Solo {
			solo := &h8State{tk: mustTokenizer(), p: parser.NewParser()}
			for _, op := range ops {
				solo.apply(op)
			}
			used = h8Outcome(solo.tk, solo.p, pr)
		} else {
			used = h8Outcome(s.tk, s.p, pr)
		}
		ftk, fp := h8Fresh(s.cfg)
		fresh := h8Outcome(ftk, fp, pr)
		for _, aspect := range []string{"dialect", "tokenize-error", "tokens", "comments", "tree", "error"} {
			if used[aspect] != fresh[aspect] {
				diffs[pr.Name] = aspect
				detail[pr.Name] = [2]string{used[aspect], fresh[aspect]}
				break
			}
		}
	}
	return diffs, detail, s
}

func opKinds(ops []h8Op) string {
	var ks []string
	for _, o := range ops {
		k := o.Kind
		if o.Arg != "" {
			for cls, list := range h8Inputs {
				for _, in := range list {
					if in == o.Arg {
						k += ":" + cls
					}
				}
			}
		}
		ks = append(ks, k)
	}
	return strings.Join(ks, ">")
}

func c08Child(a *ChildArgs) {
	runtime.GOMAXPROCS(1)
	debug.SetGCPercent(-1) // keep sync.Pool contents: pool steps hand back the same object
	base := a.Seed*7919 + int64(a.Shard)*104729
	_ = gen.Plain
	_ = mon.Hash
	for i := 0; i < a.N; i++ {
		r := rand.New(rand.NewSource(base + int64(i)*15485863))
		n := 2 + r.Intn(11)
		ops := make([]h8Op, n)
		for k := range ops {
			ops[k] = h8RandomOp(r)
		}
		a.Rec.Count("evaluations", 1)
		diffs, detail, st := h8Run(ops)
		a.Rec.Count("pool_reused", int64(st.reusedP+st.reusedT))
		kinds := opKinds(ops)
		if st.reusedP+st.reusedT > 0 || strings.Contains(kinds, "invalid") || strings.Contains(kinds, "cancelled") || strings.Contains(kinds, "deep") {
			a.Rec.Distinct("histories", kinds)
		}
		for probe, aspect := range diffs {
			// shrink: drop operations while the same probe still differs in the same aspect
			min := append([]h8Op(nil), ops...)
			runs := 0
			for changed := true; changed; {
				changed = false
				for k := 0; k < len(min); k++ {
					cand := append(append([]h8Op(nil), min[:k]...), min[k+1:]...)
					if runs++; runs%8 == 0 {
						runtime.GC() // the collector is off (see above): shrinking must not pile up garbage without bound
					}
					d2, _, _ := h8Run(cand)
					if d2[probe] == aspect {
						min = cand
						changed = true
						break
					}
				}
			}
			_, dmin, _ := h8Run(min)
			var hist []string
			for _, o := range min {
				hist = append(hist, o.String())
			}
			a.Rec.Viol(fmt.Sprintf("C08/%s/%s/%s", probe, aspect, opKinds(min)), "the outcome of a call depends only on its input and the current holder's configuration",
				fmt.Sprintf("probe %s differs in %s after history [%s]: used instance %s | fresh instance %s", probe, aspect, strings.Join(hist, "; "), trunc(dmin[probe][0], 300), trunc(dmin[probe][1], 300)),
				map[string]interface{}{"history": hist, "probe": probe, "original_history": opKinds(ops), "used": trunc(detail[probe][0], 400), "fresh": trunc(detail[probe][1], 400)})
		}
		if i < 2 {
			a.Rec.Sample("history", 2, map[string]interface{}{"ops": kinds})
		}
		if i%200 == 199 {
			runtime.GC() // bounded memory; pools are emptied, which the next histories tolerate (reuse is counted, not assumed)
		}
	}
}
