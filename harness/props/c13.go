package props

import (
	"context"
	"errors"
	"fmt"
	"math/rand"
	"os"
	"regexp"
	"strings"
	"time"

	goerrors "github.com/ajitpratap0/GoSQLX/pkg/errors"
	"github.com/ajitpratap0/GoSQLX/pkg/formatter"
	"github.com/ajitpratap0/GoSQLX/pkg/gosqlx"
	"github.com/ajitpratap0/GoSQLX/pkg/sql/parser"
	"github.com/ajitpratap0/GoSQLX/pkg/sql/tokenizer"
	"verifharness/gen"
	"verifharness/mon"
)

func init() {
	Registry["C13"] = &Prop{Level: "exploration", Parent: c13Parent, Child: c13Child}
}

func c13Parent(c *mon.Ctx) {
	c.Rule = "every rejecting call (token-level corruptions of model statements, lexical garbage, nesting / size limit violations, recovery-mode errors) is checked: errors.As reaches *errors.Error; the code is in (errors.go constants ∩ docs/ERROR_CODES.md) and of the right family (tokenizer failure => E1xxx, parser failure on a good token stream => E2xxx/E3xxx, limits => E1006/E1007/E2007); message non-empty; a set location lies inside the input; a second call on fresh instances and a call on a reused instance give the same code, message and location; ParseError causes stay reachable. distinct_nontrivial = distinct (entry point, code, normalised message) triples observed"
	c.DistinctSet = "error_shapes"
	c.Assumptions = []string{"a zero location means 'not set' and is allowed here (C05 is stricter for the position-tracking parser)"}
	per := 800
	if c.Tier == "thorough" {
		per = 30000
	}
	sh := shards("plain", "mutants", 16, "-n", fmt.Sprint(per))
	sh = append(sh, shards("plain", "lexical", 1)...)
	sh = append(sh, shards("plain", "reuse", 2, "-n", fmt.Sprint(per))...)
	res := c.RunShards(sh, 16)
	c.ClassifyDeaths(res, "failing calls return errors")
}

var documentedCodes map[string]bool

func loadDocumentedCodes() {
	documentedCodes = map[string]bool{}
	src, _ := os.ReadFile("/repo/pkg/errors/errors.go")
	doc, _ := os.ReadFile("/repo/docs/ERROR_CODES.md")
	inSrc := map[string]bool{}
	for _, m := range regexp.MustCompile(`ErrorCode = "(E\d{4})"`).FindAllStringSubmatch(string(src), -1) {
		inSrc[m[1]] = true
	}
	for _, m := range regexp.MustCompile(`E\d{4}`).FindAllString(string(doc), -1) {
		if inSrc[m] {
			documentedCodes[m] = true
		}
	}
}

type errShape struct {
	Code, Msg  string
	Line, Col  int
	Structured bool
}

func shapeOf(err error) errShape {
	var ge *goerrors.Error
	if errors.As(err, &ge) {
		return errShape{Code: string(ge.Code), Msg: ge.Message, Line: ge.Location.Line, Col: ge.Location.Column, Structured: true}
	}
	return errShape{Msg: err.Error()}
}

func normMsg(m string) string {
	m = quotedRe.ReplaceAllString(m, "_")
	if len(m) > 60 {
		m = m[:60]
	}
	return m
}

// c13CheckErr applies the per-error clauses. lexical tells whether the tokenizer itself rejects the input.
func c13CheckErr(a *ChildArgs, ep, input string, err error, lexical bool, limit string) errShape {
	a.Rec.Count("evaluations", 1)
	sh := shapeOf(err)
	wit := map[string]interface{}{"entry_point": ep, "input": trunc(input, 400), "error": firstLine(err.Error())}
	if !sh.Structured {
		a.Rec.Viol("C13/"+ep+"/unstructured/"+normMsg(err.Error()), "every returned error exposes a structured error through standard unwrapping", "errors.As finds no *errors.Error in: "+firstLine(err.Error()), wit)
		return sh
	}
	a.Rec.Distinct("error_shapes", ep+"|"+sh.Code+"|"+normMsg(sh.Msg))
	// the library's own classification helpers must agree with standard unwrapping on the error exactly as it was
	// returned (the entry points wrap their structured error)
	if !goerrors.IsStructuredError(err) || string(goerrors.GetCode(err)) != sh.Code || !goerrors.IsCode(err, goerrors.ErrorCode(sh.Code)) {
		a.Rec.Viol("C13/"+ep+"/helpers-disagree/"+sh.Code, "every failure is classifiable by its code", fmt.Sprintf("errors.As finds code %s; IsStructuredError=%v GetCode=%q IsCode=%v",
			sh.Code, goerrors.IsStructuredError(err), goerrors.GetCode(err), goerrors.IsCode(err, goerrors.ErrorCode(sh.Code))), wit)
	} else if c, ok := goerrors.ExtractErrorCode(err); !ok || string(c) != sh.Code {
		a.Rec.Viol("C13/"+ep+"/helpers-disagree/extract-"+sh.Code, "every failure is classifiable by its code", fmt.Sprintf("ExtractErrorCode=%q,%v for code %s", c, ok, sh.Code), wit)
	}
	if !documentedCodes[sh.Code] {
		a.Rec.Viol("C13/"+ep+"/undocumented-code/"+sh.Code, "the code is a documented one", "code "+sh.Code+" is not both in errors.go and docs/ERROR_CODES.md", wit)
	}
	switch {
	case limit != "":
		if sh.Code != limit {
			a.Rec.Viol("C13/"+ep+"/limit-code/"+limit+"-got-"+sh.Code, "limit violations carry their dedicated codes", fmt.Sprintf("want %s got %s (%s)", limit, sh.Code, sh.Msg), wit)
		}
	case lexical:
		if !strings.HasPrefix(sh.Code, "E1") {
			a.Rec.Viol("C13/"+ep+"/family/lexical-got-"+sh.Code+"/"+normMsg(sh.Msg), "lexical problems carry a tokenizer code", fmt.Sprintf("the tokenizer rejects this input but the code is %s (%s)", sh.Code, sh.Msg), wit)
		}
	default:
		if !strings.HasPrefix(sh.Code, "E2") && !strings.HasPrefix(sh.Code, "E3") {
			a.Rec.Viol("C13/"+ep+"/family/grammar-got-"+sh.Code+"/"+normMsg(sh.Msg), "grammar problems carry a parser code", fmt.Sprintf("the tokenizer accepts this input but the code is %s (%s)", sh.Code, sh.Msg), wit)
		}
	}
	if strings.TrimSpace(sh.Msg) == "" {
		a.Rec.Viol("C13/"+ep+"/empty-message/"+sh.Code, "non-empty message", "empty message", wit)
	}
	if sh.Line > 0 || sh.Col > 0 {
		lines := strings.Split(input, "\n")
		okLoc := sh.Line >= 1 && sh.Line <= len(lines) && sh.Col >= 1
		if okLoc {
			// column may point one past the end of the line (end of input); tabs are not expanded here
			// (the tokenizer counts a tab as more than one column: allow its documented tab width)
			// (the tokenizer counts a tab as four columns: one byte plus three)
			if sh.Col > len(lines[sh.Line-1])+1+3*strings.Count(lines[sh.Line-1], "\t") {
				okLoc = false
			}
		}
		if !okLoc {
			a.Rec.Viol("C13/"+ep+"/location-outside-input/"+sh.Code, "a set location lies within the input", fmt.Sprintf("location %d:%d, input has %d lines", sh.Line, sh.Col, len(lines)), wit)
		}
	}
	return sh
}

type failingEP struct {
	Name string
	F    func(s string) []error
}

func c13EntryPoints() []failingEP {
	one := func(err error) []error {
		if err == nil {
			return nil
		}
		return []error{err}
	}
	return []failingEP{
		{"gosqlx.Parse", func(s string) []error { _, err := gosqlx.Parse(s); return one(err) }},
		{"gosqlx.Validate", func(s string) []error { return one(gosqlx.Validate(s)) }},
		{"gosqlx.ParseWithContext", func(s string) []error { _, err := gosqlx.ParseWithContext(context.Background(), s); return one(err) }},
		{"parser.Validate", func(s string) []error { return one(parser.Validate(s)) }},
		{"gosqlx.ParseMultiple", func(s string) []error { _, err := gosqlx.ParseMultiple([]string{"SELECT 1", s}); return one(err) }},
		{"gosqlx.ValidateMultiple", func(s string) []error { return one(gosqlx.ValidateMultiple([]string{"SELECT 1", s, "SELECT 2"})) }},
		{"gosqlx.ParseBytes", func(s string) []error { _, err := gosqlx.ParseBytes([]byte(s)); return one(err) }},
		{"gosqlx.ParseWithTimeout", func(s string) []error { _, err := gosqlx.ParseWithTimeout(s, time.Hour); return one(err) }},
		{"gosqlx.Format", func(s string) []error { _, err := gosqlx.Format(s, gosqlx.DefaultFormatOptions()); return one(err) }},
		{"formatter.Format", func(s string) []error { _, err := formatter.New(formatter.Options{}).Format(s); return one(err) }},
		{"parser.ValidateBytesWithDialect", func(s string) []error { return one(parser.ValidateBytesWithDialect([]byte(s), "postgresql")) }},
		{"parser.ParseWithDialect", func(s string) []error { _, err := parser.ParseWithDialect(s, "mysql"); return one(err) }},
		{"parser.ParseBytes", func(s string) []error { _, err := parser.ParseBytes([]byte(s)); return one(err) }},
		{"gosqlx.ParseWithRecovery", func(s string) []error { _, errs := gosqlx.ParseWithRecovery(s); return errs }},
		{"Tokenizer.Tokenize", func(s string) []error {
			tk := tokenizer.GetTokenizer()
			defer tokenizer.PutTokenizer(tk)
			_, err := tk.Tokenize([]byte(s))
			return one(err)
		}},
		{"Parser.ParseWithPositions", func(s string) []error {
			tk := tokenizer.GetTokenizer()
			defer tokenizer.PutTokenizer(tk)
			toks, err := tk.Tokenize([]byte(s))
			if err != nil {
				return one(err)
			}
			p := parser.NewParser()
			defer p.Release()
			_, err = p.ParseFromModelTokensWithPositions(toks)
			return one(err)
		}},
	}
}

func tokenizerRejects(s string) bool {
	tk, err := tokenizer.New()
	if err != nil {
		return false
	}
	_, err = tk.Tokenize([]byte(s))
	return err != nil
}

func c13Input(a *ChildArgs, input, limit string) {
	lexical := tokenizerRejects(input)
	for _, ep := range c13EntryPoints() {
		errs := ep.F(input)
		if len(errs) == 0 {
			continue
		}
		a.Rec.Count("rejecting_calls", 1)
		var shapes []errShape
		for i, e := range errs {
			lim := limit
			if i > 0 {
				lim = "" // only the first error of a recovery run is the limit violation; later ones come from resynchronising inside the same text
			}
			shapes = append(shapes, c13CheckErr(a, ep.Name, input, e, lexical, lim))
			var pe *parser.ParseError
			if errors.As(e, &pe) {
				if pe.Cause == nil || errors.Unwrap(pe) != pe.Cause {
					a.Rec.Viol("C13/"+ep.Name+"/cause-unreachable", "wrapped causes remain reachable", "ParseError without reachable cause", map[string]interface{}{"input": trunc(input, 300)})
				}
				// a located ParseError wraps a located cause: a caller who unwraps to the structured error must not find 0:0
				var ce *goerrors.Error
				if pe.Line > 0 && errors.As(pe.Cause, &ce) && ce.Location.Line == 0 && ce.Location.Column == 0 {
					a.Rec.Viol("C13/"+ep.Name+"/cause-unlocated/"+string(ce.Code), "a set location lies within the input", fmt.Sprintf("ParseError at %d:%d wraps %s at 0:0", pe.Line, pe.Column, ce.Code), map[string]interface{}{"input": trunc(input, 300)})
				}
			}
		}
		// determinism: the same call again (fresh pooled instances), twice
		for rep := 0; rep < 2; rep++ {
			again := ep.F(input)
			same := len(again) == len(errs)
			for i := 0; same && i < len(again); i++ {
				if shapeOf(again[i]) != shapes[i] {
					same = false
				}
			}
			if !same {
				a.Rec.Viol("C13/"+ep.Name+"/not-reproducible", "the same input always produces the same code, message and location",
					fmt.Sprintf("first: %v  again: %v", errs, again), map[string]interface{}{"input": trunc(input, 300), "entry_point": ep.Name})
				break
			}
		}
	}
	// pooled instance: a parser that tracked positions for another failing input goes back to the pool; the
	// pool-backed validators must then report exactly what they reported before
	before := shapesOf(parser.Validate(input))
	{
		tkp := tokenizer.GetTokenizer()
		pp := parser.GetParser()
		if toks, err := tkp.Tokenize([]byte("SELECT a,\n  b,\n  c\nFROM t\nWHERE x = ]")); err == nil {
			_, _ = pp.ParseFromModelTokensWithPositions(toks)
		}
		parser.PutParser(pp)
		tokenizer.PutTokenizer(tkp)
	}
	after := shapesOf(parser.Validate(input))
	a.Rec.Count("evaluations", 1)
	if before != after {
		a.Rec.Viol("C13/pooled-instance/differs", "the same input always produces the same code, message and location",
			fmt.Sprintf("parser.Validate before: %+v  after a position-tracking holder returned its parser to the pool: %+v", before, after), map[string]interface{}{"input": trunc(input, 300)})
	}
	// reused instance: one tokenizer + one parser used for a different failing input first
	tk := tokenizer.GetTokenizer()
	p := parser.NewParser()
	run := func(s string) error {
		tk.Reset()
		toks, err := tk.Tokenize([]byte(s))
		if err != nil {
			return err
		}
		_, err = p.ParseFromModelTokensWithPositions(toks)
		return err
	}
	_ = run("SELECT a,\n  b\nFROM t WHERE ]")
	e1 := run(input)
	tk2 := tokenizer.GetTokenizer()
	p2 := parser.NewParser()
	var e2 error
	if toks, err := tk2.Tokenize([]byte(input)); err != nil {
		e2 = err
	} else {
		_, e2 = p2.ParseFromModelTokensWithPositions(toks)
	}
	if (e1 == nil) != (e2 == nil) || (e1 != nil && shapeOf(e1) != shapeOf(e2)) {
		a.Rec.Viol("C13/reused-instance/differs", "the same input always produces the same code, message and location",
			fmt.Sprintf("reused: %v  fresh: %v", e1, e2), map[string]interface{}{"input": trunc(input, 300)})
	}
	tokenizer.PutTokenizer(tk)
	tokenizer.PutTokenizer(tk2)
	p.Release()
	p2.Release()
}

var lexicalGarbage = []string{
	"SELECT 'abc", "SELECT \"abc", "SELECT `abc", "SELECT 'a\\", "SELECT 'a\\q'", "SELECT 'a\\.b'", "SELECT $tag$ abc", "SELECT /* abc", "SELECT 1e", "SELECT 1e+", "SELECT 1.2.3",
	"SELECT a ^ b", "SELECT ~", "SELECT a FROM t WHERE a = }", "SELECT {", "SELECT \x00", "SELECT \xff\xfe", "SELECT a\x80b", "SELECT \\", "SELECT @", "SELECT #", "SELECT a ! b", "SELECT '''", "SELECT \"\"\"",
	"SELECT 'multi\nline", "SELECT a -- c\n 'x", "\xef\xbb\xbfSELECT 1", "SELECT ‘smart’", "SELECT “x", "SELECT 0x", "SELECT 1_000", "SELECT a.", "SELECT .a", "SELECT $", "SELECT $1$", "SELECT :", "SELECT ::", "SELECT a FROM t;\x1a",
}

func c13Child(a *ChildArgs) {
	loadDocumentedCodes()
	a.Rec.Info("documented_codes", fmt.Sprint(len(documentedCodes)))
	switch a.Phase {
	case "lexical":
		// every backslash escape letter, complete, with trailing hex-like digits, and cut off by the end of the input
		for c := byte('0'); c <= 'z'; c++ {
			if !(c >= '0' && c <= '9' || c >= 'A' && c <= 'Z' || c >= 'a' && c <= 'z') {
				continue
			}
			for _, form := range []string{"SELECT 'a\\%cb'", "SELECT 'a\\%c12'", "SELECT 'a\\%c00e9 x'", "SELECT 'a\\%cZZZZ'", "SELECT 'a\\%c", "SELECT 'a\\%c1", "SELECT \"q\\%cq\" FROM t WHERE 'a\\%c{1F600}' = b"} {
				c13Input(a, strings.ReplaceAll(form, "%c", string(c)), "")
			}
		}
		for _, s := range lexicalGarbage {
			c13Input(a, s, "")
			c13Input(a, "SELECT a\nFROM t\nWHERE x = 1 AND "+strings.TrimPrefix(s, "SELECT "), "")
		}
		// limits
		for _, d := range []int{150, 400} {
			c13Input(a, "SELECT "+strings.Repeat("(", d)+"1"+strings.Repeat(")", d), "E2007")
			c13Input(a, "SELECT "+strings.Repeat("f(", d)+"1"+strings.Repeat(")", d), "E2007")
			c13Input(a, "SELECT "+strings.Repeat("CASE WHEN a THEN ", d)+"1"+strings.Repeat(" END", d), "E2007")
			// nesting that is stopped by the guards outside the expression parser: CTE bodies, derived tables, sub-queries
			c13Input(a, strings.Repeat("WITH c AS (", d)+"SELECT 1"+strings.Repeat(") SELECT * FROM c", d), "E2007")
			c13Input(a, strings.Repeat("SELECT * FROM (", d)+"SELECT 1"+strings.Repeat(") x", d), "E2007")
			c13Input(a, "SELECT "+strings.Repeat("(SELECT ", d)+"1"+strings.Repeat(")", d), "E2007")
			c13Input(a, "SELECT "+strings.Repeat("MATCH(a) AGAINST (", d)+"'x'"+strings.Repeat(")", d)+" FROM t", "E2007")
		}
		// the depth-limit error keeps its code wherever the over-deep expression stands: every expression-bearing clause,
		// alone and inside the constructs that describe their sub-errors (statement after WITH, CTE body, CASE, BETWEEN)
		deep := strings.Repeat("(", 160) + "1" + strings.Repeat(")", 160)
		wrappers := append([]nestCtx{}, exprWrappers...)
		wrappers = append(wrappers, nestCtx{"on-conflict-set", "INSERT INTO t VALUES (1) ON CONFLICT (a) DO UPDATE SET a = ", ""}, nestCtx{"insert-returning", "INSERT INTO t VALUES (1) RETURNING ", ""},
			nestCtx{"update-returning", "UPDATE t SET a = 1 RETURNING ", ""}, nestCtx{"values-row-2", "INSERT INTO t VALUES (1, 2), (3, ", ")"}, nestCtx{"having", "SELECT a FROM t GROUP BY a HAVING ", ""},
			nestCtx{"join-on", "SELECT a FROM t JOIN u ON ", ""}, nestCtx{"order-by", "SELECT a FROM t ORDER BY ", ""}, nestCtx{"limit", "SELECT a FROM t LIMIT ", ""})
		inner := []nestCtx{{"plain", "", ""}, {"case-when", "CASE WHEN ", " THEN 1 END"}, {"between-hi", "1 BETWEEN 0 AND ", ""}, {"func-arg", "f(", ")"}, {"in-list", "1 IN (", ")"}}
		outer := []nestCtx{{"plain", "", ""}, {"after-with", "WITH c AS (SELECT 1) ", ""}, {"cte-body", "WITH c AS (", ") SELECT * FROM c"}}
		for _, w := range wrappers {
			for _, in := range inner {
				for _, o := range outer {
					if o.Name != "plain" && strings.HasPrefix(w.Pre, "CREATE") {
						continue
					}
					sql := o.Pre + w.Pre + in.Pre + deep + in.Suf + w.Suf + o.Suf
					// only where the shallow form is accepted (the context exists in the surface)
					shallow := o.Pre + w.Pre + in.Pre + "(1)" + in.Suf + w.Suf + o.Suf
					if _, err := gosqlx.Parse(shallow); err != nil {
						continue
					}
					c13Input(a, sql, "E2007")
				}
			}
		}
		// a lexical error at the very end of a line on which a compound-keyword look-ahead was rewound across tabs and
		// comments (the location must still lie inside the line)
		for _, opener := range []string{"NATURAL", "ORDER", "GROUP", "LEFT", "FULL", "CROSS", "GROUPING", "OUTER"} {
			for _, sep := range []string{"\t/* pk */ ", "\t\t/**/\t", " /* a */\t/* b */\t", "\t"} {
				for _, next := range []string{"x", "JOIN b ON", ", y"} {
					if next == "JOIN b ON" && opener != "NATURAL" && opener != "ORDER" && opener != "GROUP" && opener != "GROUPING" {
						continue // would complete the compound
					}
					for _, bad := range []string{"'", "\"abc", "\x01", "`q"} {
						c13Input(a, "SELECT a.id, b.id\nFROM accounts AS a "+opener+sep+next+" WHERE b.x = "+bad, "")
						c13Input(a, "SELECT a.id, b.id FROM accounts AS a "+opener+sep+next+" "+bad, "")
					}
				}
			}
		}
		// statements rejected at the end of the input, with line ends, blank lines or a comment line behind the last
		// token (the location is one past the last token at most)
		for _, cut := range []string{"SELECT a FROM", "SELECT a,", "INSERT INTO t (a, b) VALUES (1,", "UPDATE t SET a =", "SELECT a FROM t WHERE b IN (1, 2", "CREATE TABLE t (a INT,", "SELECT a FROM t ORDER BY"} {
			for _, tail := range []string{"\n", "\n\n\n", "\n-- trailing note\n", "\r\n", " \n", "\n  "} {
				c13Input(a, cut+tail, "")
				c13Input(a, "SELECT 1;\n"+cut+tail, "")
			}
		}
		big := "SELECT 1 " + strings.Repeat(" ", tokenizer.MaxInputSize)
		c13Input(a, big, "E1006")
		// oversize with line breaks before, at and after the limit offset (the location of the error must stay inside the input)
		c13Input(a, "SELECT 1\n"+strings.Repeat("-- filler line\n", tokenizer.MaxInputSize/15+2), "E1006")
		c13Input(a, strings.Repeat(" ", tokenizer.MaxInputSize)+"\n", "E1006")
		c13Input(a, strings.Repeat(" ", tokenizer.MaxInputSize-1)+"\n\n\n", "E1006")
		// grammar-stage rejections of well-formed tokens: a number that is not a row count
		for _, q := range []string{"SELECT a FROM t LIMIT 1.5", "SELECT a FROM t LIMIT 1e3", "SELECT a FROM t LIMIT 99999999999999999999", "SELECT a FROM t LIMIT 5 OFFSET 2.5",
			"SELECT a FROM t ORDER BY a OFFSET 18446744073709551616 ROWS", "SELECT a FROM t ORDER BY a FETCH FIRST 1.5 ROWS ONLY"} {
			c13Input(a, q, "")
		}
		a.Rec.Sample("lexical", 2, map[string]string{"input": lexicalGarbage[4]})
	case "reuse":
		// one long-lived parser and tokenizer, never reset, across hundreds of rejected inputs: every error must be
		// the one a fresh pair reports for that input (code, message, location)
		avoid := mon.AvoidFeatures()
		base := a.Seed*7919 + int64(a.Shard)*104729 + 21
		bads := []string{"INSERT INTO t VALUES (1, -)", "SELECT - FROM t", "SELECT a FROM t WHERE (a = ", "SELECT f(", "SELECT CASE WHEN a THEN", "SELECT NOT", "UPDATE t SET a = -", "SELECT +(1", "SELECT 'unterminated",
			"SELECT a FROM t WHERE a IN (1,", "SELECT CAST(a AS", "SELECT a FROM", "SELECT a,, b FROM t", "SELECT a FROM t WHERE a = = 1"}
		tkU, pU := mustTokenizer(), parser.NewParser()
		run := func(tk *tokenizer.Tokenizer, p *parser.Parser, sql string) errShape {
			toks, err := tk.Tokenize([]byte(sql))
			if err != nil {
				return shapeOf(err)
			}
			if _, err := p.ParseFromModelTokens(toks); err != nil {
				return shapeOf(err)
			}
			return errShape{}
		}
		for i := 0; i < a.N*2; i++ {
			var sql string
			if i%3 != 2 {
				sql = bads[(i/3+i)%len(bads)]
			} else {
				r := rand.New(rand.NewSource(base + int64(i)*15485863))
				g := gen.New(r, avoid)
				m, _, _ := gen.MutateToks(r, g.Statement(2).Toks)
				sql = gen.Plain(m)
			}
			a.Rec.Count("evaluations", 1)
			used := run(tkU, pU, sql)
			fresh := run(mustTokenizer(), parser.NewParser(), sql)
			if used != fresh {
				a.Rec.Viol("C13/reuse/differs/"+fresh.Code+"-became-"+used.Code, "the same input always produces the same code, message and location, also on an instance that has failed before",
					fmt.Sprintf("after %d calls on the same parser: %+v, on a fresh one: %+v", i, used, fresh), map[string]interface{}{"input": sql, "calls_before": i})
				break
			}
		}
	case "mutants":
		avoid := mon.AvoidFeatures()
		base := a.Seed*7919 + int64(a.Shard)*104729
		for i := 0; i < a.N; i++ {
			seed := base + int64(i)*15485863
			r := rand.New(rand.NewSource(seed))
			g := gen.New(r, avoid)
			x := g.Statement(2)
			m, _, kind := gen.MutateToks(r, x.Toks)
			lay := gen.Layout{R: r, Sep: i % 3, KwCase: i % 2}
			s := gen.Render(m, lay)
			if i%5 == 0 {
				y := g.Statement(1)
				s = gen.Plain(y.Toks) + ";\n" + s
			}
			c13Input(a, s, "")
			if i < 3 {
				a.Rec.Sample("mutant", 3, map[string]string{"kind": kind, "input": trunc(s, 300)})
			}
		}
	}
}

func shapesOf(err error) errShape {
	if err == nil {
		return errShape{}
	}
	return shapeOf(err)
}
