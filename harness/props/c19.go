package props

import (
	"bytes"
	"context"
	"encoding/json"
	"fmt"
	"math/rand"
	"os"
	"os/exec"
	"path/filepath"
	"sort"
	"strings"
	"syscall"
	"time"

	"github.com/ajitpratap0/GoSQLX/pkg/gosqlx"
	"github.com/ajitpratap0/GoSQLX/pkg/linter"
	"github.com/ajitpratap0/GoSQLX/pkg/linter/rules/keywords"
	"github.com/ajitpratap0/GoSQLX/pkg/linter/rules/style"
	"github.com/ajitpratap0/GoSQLX/pkg/linter/rules/whitespace"
	"github.com/ajitpratap0/GoSQLX/pkg/sql/ast"
	"github.com/ajitpratap0/GoSQLX/pkg/sql/parser"
	"github.com/ajitpratap0/GoSQLX/pkg/sql/tokenizer"
	"verifharness/gen"
	"verifharness/mon"
)

const c19Bin = "/verif/run/bin/gosqlx"

func init() {
	Registry["C19"] = &Prop{Level: "fault_enumeration", Parent: c19Parent, Child: c19Child}
}

func c19Parent(c *mon.Ctx) {
	c.Rule = "a gosqlx binary built from the working tree is run in scratch directories. Verdicts: for random sets of files (accepted model statements in several layouts, statements made unacceptable by a never-legal token and confirmed rejected by the library, files with lint defects) validate / parse / format / format --check / lint / lint --fail-on-warn must exit 0 exactly when the library's own verdict (gosqlx.Parse; the linter with the CLI's rule set) says so, JSON and SARIF reports must parse and name exactly the rejected files, and every file's bytes and mtime must be unchanged by the check-only commands. Consistency: what format prints, what format -i writes and what format --check decides must agree for every file and option set. Fault enumeration: format -i and lint --auto-fix are run under RLIMIT_FSIZE = k for every k from 0 to the size of the new content (the write fails after k bytes), and under strace killing the process on entry to the j-th write / close / rename / openat / chmod / fsync / unlinkat system call for every j until the run completes; afterwards the file must hold exactly the original or exactly the new content, and a file whose processing failed must be untouched. distinct_nontrivial = distinct (command line, file contents) cases"
	c.DistinctSet = "cases"
	c.Assumptions = []string{"zero-byte files are excluded from the verdict oracle (the CLI treats them as nothing to do; the property's other clauses still apply to them); blank and comment-only files are inputs the library rejects", "the library verdict is gosqlx.Parse with default options (for validate --strict: the parser in strict mode); dialect flags are not explored",
		"strace counts injection points per thread, so the enumeration covers the j-th call of whichever thread reaches it first; RLIMIT_FSIZE enumeration is exact"}
	// build the CLI from the working tree
	cmd := exec.Command("go", "build", "-o", c19Bin, "./cmd/gosqlx")
	cmd.Dir = "/repo"
	cmd.Env = append(os.Environ(), "GOFLAGS=-mod=mod", "GOPROXY=off", "GOSUMDB=off", "GOTOOLCHAIN=local")
	if out, err := cmd.CombinedOutput(); err != nil {
		fmt.Printf("BUILD-FAILURE: gosqlx does not build: %v\n%s\n", err, trunc(string(out), 2000))
		os.Exit(2)
	}
	per := 40
	if c.Tier == "thorough" {
		per = 1500
	}
	sh := shards("plain", "verdicts", 6, "-n", fmt.Sprint(per))
	sh = append(sh, shards("plain", "consistency", 4, "-n", fmt.Sprint(per))...)
	sh = append(sh, shards("plain", "streams", 3, "-n", fmt.Sprint(per/2))...)
	sh = append(sh, shards("plain", "fsize", 3, "-n", fmt.Sprint(per/10+2))...)
	sh = append(sh, shards("plain", "kill", 3, "-n", fmt.Sprint(per/20+1))...)
	for i := range sh {
		sh[i].Timeout = 40 * time.Minute
	}
	res := c.RunShards(sh, 16)
	c.ClassifyDeaths(res, "the harness child ran to completion")
}

// ---- running the binary -------------------------------------------------------------------------

type c19Run struct {
	rc       int
	out, err string
	timedOut bool
	killed   bool
}

func c19Exec(dir string, pre []string, args ...string) c19Run {
	return c19ExecIn(dir, nil, pre, args...)
}

// c19ExecIn runs the binary with stdin connected to a pipe carrying input (nil: no stdin).
func c19ExecIn(dir string, input []byte, pre []string, args ...string) c19Run {
	ctx, cancel := context.WithTimeout(context.Background(), 120*time.Second)
	defer cancel()
	full := append(append([]string{}, pre...), c19Bin)
	full = append(full, args...)
	cmd := exec.CommandContext(ctx, full[0], full[1:]...)
	cmd.Dir = dir
	cmd.Env = []string{"HOME=" + dir, "PATH=/usr/bin:/bin", "GOMAXPROCS=2", "NO_COLOR=1"}
	cmd.Stdin = nil
	if input != nil {
		cmd.Stdin = bytes.NewReader(input)
	}
	var o, e bytes.Buffer
	cmd.Stdout, cmd.Stderr = &o, &e
	err := cmd.Run()
	r := c19Run{out: o.String(), err: e.String()}
	if ctx.Err() != nil {
		r.timedOut = true
		return r
	}
	if err != nil {
		if ee, ok := err.(*exec.ExitError); ok {
			r.rc = ee.ExitCode()
			if ws, ok := ee.Sys().(syscall.WaitStatus); ok && ws.Signaled() {
				r.killed = true
				r.rc = 128 + int(ws.Signal())
			}
		} else {
			r.rc = -1
		}
	}
	return r
}

type c19File struct {
	arg      string // how the file is named on the command line
	name     string
	content  string
	accepted bool // library verdict
	strictOK bool // library verdict in strict mode (parser.WithStrictMode)
	blank    bool
	kind     string
}

// c19LibAcceptsStrict is the library's verdict in strict mode (empty statements are rejected).
func c19LibAcceptsStrict(s string) bool {
	tkz := tokenizer.GetTokenizer()
	defer tokenizer.PutTokenizer(tkz)
	toks, err := tkz.Tokenize([]byte(s))
	if err != nil {
		return false
	}
	tree, err := parser.NewParser(parser.WithStrictMode()).ParseFromModelTokens(toks)
	if err == nil && tree != nil {
		ast.ReleaseAST(tree)
	}
	return err == nil
}

func c19LibAccepts(s string) bool {
	a, err := gosqlx.Parse(s)
	_ = a
	return err == nil
}

// c19MakeFile draws one file.
func c19MakeFile(r *rand.Rand, avoid map[string]bool, i int) c19File {
	g := gen.New(rand.New(rand.NewSource(r.Int63())), avoid)
	f := c19File{name: fmt.Sprintf("f%02d.sql", i)}
	switch k := r.Intn(13); {
	case k == 12:
		// accepted, but with empty statements: rejected in strict mode only
		f.content = []string{"SELECT 1;;\n", ";SELECT a FROM t;\n", "SELECT 1;\n;\nSELECT 2;\n", "SELECT a FROM t ; ; ;\n"}[r.Intn(4)]
		f.kind = "empty-statements"
	case k < 5:
		x := g.Statement(2)
		f.content = gen.Render(x.Toks, gen.Layout{R: r, KwCase: r.Intn(3), Sep: r.Intn(4)})
		if r.Intn(2) == 0 {
			f.content += ";\n"
		}
		f.kind = "model"
	case k < 7:
		// several statements
		n := 2 + r.Intn(3)
		var parts []string
		for j := 0; j < n; j++ {
			parts = append(parts, gen.Render(g.Statement(1).Toks, gen.Layout{R: r, KwCase: r.Intn(3), Sep: r.Intn(3)}))
		}
		f.content = strings.Join(parts, ";\n") + ";\n"
		f.kind = "multi"
	case k < 10:
		x := g.Statement(2)
		toks := x.Toks
		at := 1 + r.Intn(len(toks))
		var all []gen.Tok
		all = append(all, toks[:at]...)
		all = append(all, gen.Tok{S: []string{"#", "!", "]]"}[r.Intn(3)]})
		all = append(all, toks[at:]...)
		f.content = gen.Render(all, gen.Layout{R: r, KwCase: r.Intn(3), Sep: r.Intn(3)}) + "\n"
		f.kind = "poisoned"
	case k < 11:
		f.content = []string{"", "\n", "   \n\n", "-- only a comment\n", "/* c */", "-- a\n-- b\n\n"}[r.Intn(6)]
		f.blank = f.content == "" // a zero-byte file is no input at all; blank and comment-only files are inputs the library rejects
		f.kind = "blank"
	default:
		f.content = []string{"select a  from t   \n", "SELECT a\n\tFROM t\n  \tWHERE x = 1\n", "SELECT a FROM t\n\n\n\nWHERE b = 2\n", "select A from T where 'x  y' = b  \n"}[r.Intn(4)]
		f.kind = "lint-defects"
	}
	if !f.blank {
		f.accepted = c19LibAccepts(f.content)
		f.strictOK = c19LibAcceptsStrict(f.content)
	}
	return f
}

type c19Snap struct {
	content string
	mtime   time.Time
	mode    os.FileMode
}

func c19Snapshot(dir string, files []c19File) map[string]c19Snap {
	m := map[string]c19Snap{}
	for _, f := range files {
		p := filepath.Join(dir, f.name)
		b, _ := os.ReadFile(p)
		st, err := os.Stat(p)
		if err == nil {
			m[f.name] = c19Snap{string(b), st.ModTime(), st.Mode()}
		}
	}
	return m
}

func c19WriteFiles(dir string, files []c19File) {
	for _, f := range files {
		os.MkdirAll(filepath.Dir(filepath.Join(dir, f.name)), 0755)
		os.WriteFile(filepath.Join(dir, f.name), []byte(f.content), 0644)
	}
	// make mtimes old so that any rewrite shows
	old := time.Now().Add(-48 * time.Hour)
	for _, f := range files {
		os.Chtimes(filepath.Join(dir, f.name), old, old)
	}
}

// c19Names returns the command-line spelling of each file: plain, ./x, absolute or ../dir/x depending on the file's shape.
func c19Names(files []c19File) []string {
	var n []string
	for _, f := range files {
		n = append(n, f.arg)
	}
	return n
}

// c19Resolve turns a path as printed in a report into an absolute clean path.
func c19Resolve(dir, p string) string {
	p = strings.TrimPrefix(p, "file://")
	if !filepath.IsAbs(p) {
		p = filepath.Join(dir, p)
	}
	return filepath.Clean(p)
}

func c19CLILinter(maxLen int) *linter.Linter {
	return linter.New(
		whitespace.NewTrailingWhitespaceRule(), whitespace.NewMixedIndentationRule(), whitespace.NewConsecutiveBlankLinesRule(1),
		whitespace.NewIndentationDepthRule(4, 4), whitespace.NewLongLinesRule(maxLen), whitespace.NewRedundantWhitespaceRule(),
		style.NewColumnAlignmentRule(), style.NewCommaPlacementRule(style.CommaTrailing), style.NewAliasingConsistencyRule(true),
		keywords.NewKeywordCaseRule(keywords.CaseUpper))
}

func c19Scratch(a *ChildArgs, tag string) string {
	dir := filepath.Join("/verif/run/C19", fmt.Sprintf("scratch-%s-%d-%d", tag, a.Shard, os.Getpid()))
	os.RemoveAll(dir)
	os.MkdirAll(dir, 0755)
	return dir
}

func c19Child(a *ChildArgs) {
	avoid := mon.AvoidFeatures()
	base := a.Seed*7919 + int64(a.Shard)*104729
	switch a.Phase {
	case "verdicts":
		dir := c19Scratch(a, "v")
		defer os.RemoveAll(dir)
		for i := 0; i < a.N; i++ {
			r := rand.New(rand.NewSource(base + int64(i)*15485863))
			c19Verdicts(a, r, avoid, dir)
		}
	case "streams":
		dir := c19Scratch(a, "s")
		defer os.RemoveAll(dir)
		for i := 0; i < a.N; i++ {
			r := rand.New(rand.NewSource(base + int64(i)*15485863 + 3))
			c19Streams(a, r, avoid, dir)
		}
		if a.Shard == 0 {
			// stdin beyond the size limit: a valid 10 MiB prefix followed by a broken tail is not valid input
			// (the part below the limit is a complete, valid script on its own)
			head := "SELECT 1 /*"
			tailOK := "*/ ;"
			big := head + strings.Repeat("c", 10<<20-len(head)-len(tailOK)) + tailOK + " SELECT FROM WHERE"
			for _, c := range [][]string{{"validate"}, {"format"}, {"parse"}} {
				run := c19ExecIn(dir, []byte(big), nil, c...)
				a.Rec.Count("evaluations", 1)
				if run.rc == 0 && !run.timedOut {
					a.Rec.Viol("C19/streams/"+c[0]+"-stdin-oversize/exit-0", "commands exit with status zero exactly when the library accepts every given input", "stdin of "+fmt.Sprint(len(big))+" bytes whose tail is malformed was accepted (silently truncated?)", map[string]interface{}{"args": c, "stdout": trunc(run.out, 300), "stderr": trunc(run.err, 300)})
				}
			}
		}
	case "consistency":
		dir := c19Scratch(a, "c")
		defer os.RemoveAll(dir)
		for i := 0; i < a.N; i++ {
			r := rand.New(rand.NewSource(base + int64(i)*15485863))
			c19Consistency(a, r, avoid, dir)
		}
	case "fsize":
		dir := c19Scratch(a, "f")
		defer os.RemoveAll(dir)
		for i := 0; i < a.N; i++ {
			r := rand.New(rand.NewSource(base + int64(i)*15485863))
			c19Atomic(a, r, avoid, dir, "fsize", i)
		}
	case "kill":
		dir := c19Scratch(a, "k")
		defer os.RemoveAll(dir)
		for i := 0; i < a.N; i++ {
			r := rand.New(rand.NewSource(base + int64(i)*15485863))
			c19Atomic(a, r, avoid, dir, "kill", i)
		}
	}
}

func c19Clean(dir string) {
	ents, _ := os.ReadDir(dir)
	for _, e := range ents {
		os.RemoveAll(filepath.Join(dir, e.Name()))
	}
}

func c19Verdicts(a *ChildArgs, r *rand.Rand, avoid map[string]bool, dir string) {
	c19Clean(dir)
	n := 1 + r.Intn(5)
	var files []c19File
	for i := 0; i < n; i++ {
		files = append(files, c19MakeFile(r, avoid, i))
	}
	for i := range files {
		switch r.Intn(7) {
		case 0:
			files[i].name = "." + files[i].name // a dot-file
		case 1:
			files[i].name = filepath.Join("sub", ".cfg", files[i].name)
		case 2:
			files[i].name = "q[1]" + files[i].name // characters that also mean something in a glob pattern
		}
		switch r.Intn(5) {
		case 0:
			files[i].arg = "./" + files[i].name
		case 1:
			files[i].arg = filepath.Join(dir, files[i].name)
		case 2:
			files[i].arg = filepath.Join("..", filepath.Base(dir), files[i].name)
		default:
			files[i].arg = files[i].name
		}
	}
	c19WriteFiles(dir, files)
	var judged []c19File // files that take part in the verdict oracle
	for _, f := range files {
		if !f.blank {
			judged = append(judged, f)
		}
	}
	witFiles := map[string]string{}
	for _, f := range files {
		witFiles[f.name] = f.content
	}
	rejected := []string{}
	for _, f := range judged {
		if !f.accepted {
			rejected = append(rejected, c19Resolve(dir, f.name))
		}
	}
	sort.Strings(rejected)
	check := func(label string, args []string, wantZero *bool, fs []c19File) c19Run {
		before := c19Snapshot(dir, files)
		run := c19Exec(dir, nil, args...)
		a.Rec.Count("evaluations", 1)
		a.Rec.Distinct("cases", label+"|"+strings.Join(args, " ")+"|"+fmt.Sprint(hash64([]byte(fmt.Sprint(witFiles)))))
		a.Rec.Sample("verdicts-"+label, 1, map[string]interface{}{"args": args, "rc": run.rc, "library_rejects": rejected, "stdout": trunc(run.out, 200)})
		wit := map[string]interface{}{"args": args, "files": witFiles, "rc": run.rc, "stdout": trunc(run.out, 1500), "stderr": trunc(run.err, 1500), "library_rejects": rejected}
		if run.timedOut {
			a.Rec.Inconclusive("C19/verdicts/"+label+"/timeout", "CLI run exceeded the 120 s watchdog")
			return run
		}
		if run.rc > 1 || run.rc < 0 || strings.Contains(run.err, "panic:") || strings.Contains(run.err, "goroutine ") {
			a.Rec.Viol("C19/verdicts/"+label+"/crash", "commands exit with status zero exactly when the library accepts every input", fmt.Sprintf("exit status %d: %s", run.rc, trunc(run.err, 300)), wit)
			return run
		}
		if wantZero != nil && (run.rc == 0) != *wantZero {
			a.Rec.Viol(fmt.Sprintf("C19/verdicts/%s/exit-%d-library-%v", label, run.rc, *wantZero), "commands exit with status zero exactly when the library accepts every given input and no failing-severity finding exists", fmt.Sprintf("exit status %d, library verdict ok=%v (rejected: %v)", run.rc, *wantZero, rejected), wit)
		}
		after := c19Snapshot(dir, files)
		for _, f := range files {
			if before[f.name] != after[f.name] {
				a.Rec.Viol("C19/verdicts/"+label+"/modified-file", "check-only modes never modify any file", fmt.Sprintf("%s changed (content equal: %v, mtime equal: %v)", f.name, before[f.name].content == after[f.name].content, before[f.name].mtime.Equal(after[f.name].mtime)), wit)
				break
			}
		}
		return run
	}
	if len(judged) == 0 {
		// only blank files: just the no-modification clause
		check("validate-blank", append([]string{"validate"}, c19Names(files)...), nil, files)
		return
	}
	allOK := len(rejected) == 0
	names := c19Names(judged)
	check("validate", append([]string{"validate"}, names...), &allOK, judged)
	check("validate-quiet", append([]string{"validate", "--quiet"}, names...), &allOK, judged)
	// strict mode: the library's strict verdict (empty statements are rejected) decides
	strictAll := true
	for _, f := range judged {
		if !f.strictOK {
			strictAll = false
		}
	}
	check("validate-strict", append([]string{"validate", "--strict"}, names...), &strictAll, judged)
	// machine-readable reports
	for _, fm := range []string{"json", "sarif", "json+stats", "sarif+stats"} {
		fargs := []string{"validate", "--output-format", strings.TrimSuffix(fm, "+stats")}
		if strings.HasSuffix(fm, "+stats") {
			fargs = append(fargs, "--stats") // the report stays one well-formed document whatever else is asked for
			fm = strings.TrimSuffix(fm, "+stats")
		}
		run := check("validate-"+fm, append(fargs, names...), &allOK, judged)
		if run.timedOut || run.rc > 1 {
			continue
		}
		wit := map[string]interface{}{"files": witFiles, "stdout": trunc(run.out, 3000), "library_rejects": rejected}
		var named []string
		if fm == "json" {
			var rep struct {
				Results struct {
					Valid        bool `json:"valid"`
					TotalFiles   int  `json:"total_files"`
					InvalidFiles int  `json:"invalid_files"`
				} `json:"results"`
				Errors []struct {
					File string `json:"file"`
				} `json:"errors"`
			}
			if err := json.Unmarshal([]byte(run.out), &rep); err != nil {
				a.Rec.Viol("C19/verdicts/validate-json/not-json", "machine-readable reports are well-formed", "stdout is not one JSON document: "+err.Error(), wit)
				continue
			}
			for _, e := range rep.Errors {
				named = append(named, c19Resolve(dir, e.File))
			}
			if rep.Results.InvalidFiles != len(rejected) || rep.Results.TotalFiles != len(judged) || rep.Results.Valid != allOK {
				a.Rec.Viol("C19/verdicts/validate-json/counts", "machine-readable reports name exactly the failing inputs", fmt.Sprintf("report says total=%d invalid=%d valid=%v; given %d files, library rejects %d", rep.Results.TotalFiles, rep.Results.InvalidFiles, rep.Results.Valid, len(judged), len(rejected)), wit)
			}
		} else {
			var rep struct {
				Version string `json:"version"`
				Runs    []struct {
					Results []struct {
						Locations []struct {
							PhysicalLocation struct {
								ArtifactLocation struct {
									URI string `json:"uri"`
								} `json:"artifactLocation"`
							} `json:"physicalLocation"`
						} `json:"locations"`
					} `json:"results"`
				} `json:"runs"`
			}
			if err := json.Unmarshal([]byte(run.out), &rep); err != nil || rep.Version == "" || len(rep.Runs) != 1 {
				a.Rec.Viol("C19/verdicts/validate-sarif/not-sarif", "machine-readable reports are well-formed", fmt.Sprintf("stdout is not one SARIF document with one run: %v", err), wit)
				continue
			}
			for _, res := range rep.Runs[0].Results {
				for _, l := range res.Locations {
					named = append(named, c19Resolve(dir, l.PhysicalLocation.ArtifactLocation.URI))
				}
			}
		}
		set := map[string]bool{}
		for _, n := range named {
			set[n] = true
		}
		var uniq []string
		for n := range set {
			uniq = append(uniq, n)
		}
		sort.Strings(uniq)
		if strings.Join(uniq, ",") != strings.Join(rejected, ",") {
			a.Rec.Viol("C19/verdicts/validate-"+fm+"/names", "machine-readable reports name exactly the failing inputs", fmt.Sprintf("report names %v, library rejects %v", uniq, rejected), wit)
		}
	}
	// parse: one file at a time
	for _, f := range judged[:1] {
		ok := f.accepted
		check("parse", []string{"parse", f.arg}, &ok, judged)
	}
	// format to stdout and --check: exit status follows acceptance (check additionally fails if a file needs formatting)
	check("format-stdout", append([]string{"format"}, names...), &allOK, judged)
	if !allOK {
		f := false
		check("format-check", append([]string{"format", "--check"}, names...), &f, judged)
	} else {
		check("format-check", append([]string{"format", "--check"}, names...), nil, judged)
	}
	// lint: library verdict with the CLI's rule set
	l := c19CLILinter(100)
	errs, warns := 0, 0
	for _, f := range judged {
		for _, v := range l.LintString(f.content, f.name).Violations {
			switch v.Severity {
			case linter.SeverityError:
				errs++
			case linter.SeverityWarning:
				warns++
			}
		}
	}
	lz := errs == 0
	check("lint", append([]string{"lint"}, names...), &lz, judged)
	lw := errs == 0 && warns == 0
	check("lint-fail-on-warn", append([]string{"lint", "--fail-on-warn"}, names...), &lw, judged)
	// the same verdicts when the report goes to a file, and with the security scan switched on for clean inputs
	check("lint-output-file", append([]string{"lint", "-o", "lint-report.txt"}, names...), &lz, judged)
	check("lint-output-file-fail-on-warn", append([]string{"lint", "--fail-on-warn", "-o", "lint-report.txt"}, names...), &lw, judged)
	check("validate-output-file", append([]string{"validate", "-o", "validate-report.txt"}, names...), &allOK, judged)
	os.Remove(filepath.Join(dir, "lint-report.txt"))
	os.Remove(filepath.Join(dir, "validate-report.txt"))
	// an input that does not exist is an input the library cannot accept, alone or next to good ones
	no := false
	for _, c := range [][]string{{"validate"}, {"format"}, {"format", "--check"}, {"lint"}} {
		check(strings.Join(c, "")+"-missing-input", append(append(append([]string{}, c...), names...), "no-such-input.sql"), &no, judged)
	}
	// ... whatever the missing path is called (words the commands use in their own messages)
	for _, odd := range []string{"file is empty/x.sql", "invalid file path.sql", "no such file or directory.sql", "security validation failed/q.sql"} {
		check("validate-missing-input-odd-name", append(append([]string{"validate"}, names...), odd), &no, judged)
	}
	// the same inputs found by recursion: copies below a directory, two levels deep
	rdir := filepath.Join(dir, "rdir")
	os.MkdirAll(filepath.Join(rdir, "deep", "deeper"), 0o755)
	for i, f := range judged {
		sub := []string{"", "deep", filepath.Join("deep", "deeper")}[i%3]
		os.WriteFile(filepath.Join(rdir, sub, fmt.Sprintf("r%d.sql", i)), []byte(f.content), 0o644)
	}
	check("lint-recursive", []string{"lint", "-r", "rdir"}, &lz, judged)
	check("validate-recursive", []string{"validate", "-r", "rdir"}, &allOK, judged)
	check("lint-recursive-missing-dir", []string{"lint", "-r", "rdir", "no-such-dir"}, &no, judged)
	check("lint-recursive-only-missing-dir", []string{"lint", "-r", "no-such-dir"}, &no, judged)
	check("validate-recursive-missing-dir", []string{"validate", "-r", "rdir", "no-such-dir"}, &no, judged)
	os.RemoveAll(rdir)
	// machine-readable output of parse: the exit status still says whether the library accepts the input
	for _, f := range judged[:1] {
		ok := f.accepted
		check("parse-json", []string{"parse", "-f", "json", f.arg}, &ok, judged)
	}
	// lint --auto-fix on copies: whatever it repaired, a file that still holds failing findings afterwards is not a
	// clean run
	fdir := filepath.Join(dir, "fixdir")
	os.MkdirAll(fdir, 0o755)
	var fargs []string
	for i, f := range judged {
		n := fmt.Sprintf("fx%d.sql", i)
		os.WriteFile(filepath.Join(fdir, n), []byte(f.content), 0o644)
		fargs = append(fargs, filepath.Join("fixdir", n))
	}
	for _, failOnWarn := range []bool{false, true} {
		for i, f := range judged {
			os.WriteFile(filepath.Join(fdir, fmt.Sprintf("fx%d.sql", i)), []byte(f.content), 0o644)
		}
		args := []string{"lint", "--auto-fix"}
		if failOnWarn {
			args = append(args, "--fail-on-warn")
		}
		run := c19Exec(dir, nil, append(args, fargs...)...)
		if run.timedOut || run.rc > 1 || run.rc < 0 {
			continue
		}
		a.Rec.Count("evaluations", 1)
		remaining := 0
		var still []string
		for i := range judged {
			b, err := os.ReadFile(filepath.Join(fdir, fmt.Sprintf("fx%d.sql", i)))
			if err != nil {
				continue
			}
			for _, v := range l.LintString(string(b), "f.sql").Violations {
				if v.Severity == linter.SeverityError || (failOnWarn && v.Severity == linter.SeverityWarning) {
					remaining++
					still = append(still, fmt.Sprintf("fx%d.sql:%s", i, v.Rule))
				}
			}
		}
		if remaining > 0 && run.rc == 0 {
			a.Rec.Viol(fmt.Sprintf("C19/verdicts/lint-auto-fix-fail-on-warn=%v/exit-0-findings-remain", failOnWarn), "commands exit with status zero exactly when ... no failing-severity finding exists",
				fmt.Sprintf("exit status 0 although %d failing-severity findings remain in the files after the rewrite: %v", remaining, still), map[string]interface{}{"files": witFiles, "args": args, "stdout": trunc(run.out, 600)})
		}
	}
	os.RemoveAll(fdir)
}

// c19Streams: the same verdicts when the input arrives on stdin or as an inline argument, and for odd option values.
func c19Streams(a *ChildArgs, r *rand.Rand, avoid map[string]bool, dir string) {
	c19Clean(dir)
	f := c19MakeFile(r, avoid, 0)
	for f.blank {
		f = c19MakeFile(r, avoid, 0)
	}
	// forms the CLI may not take for SQL text are left to the file path tests: keep to texts that start with a statement keyword
	first := strings.ToUpper(strings.Fields(f.content + " x")[0])
	wit := map[string]interface{}{"input": f.content, "library_accepts": f.accepted}
	judge := func(label string, run c19Run, wantZero bool, args []string) {
		a.Rec.Count("evaluations", 1)
		a.Rec.Distinct("cases", label+"|"+strings.Join(args, " ")+"|"+f.content)
		w := map[string]interface{}{"input": trunc(f.content, 600), "library_accepts": f.accepted, "args": args, "rc": run.rc, "stdout": trunc(run.out, 600), "stderr": trunc(run.err, 600)}
		if run.timedOut {
			a.Rec.Inconclusive("C19/streams/"+label+"/timeout", "CLI run exceeded the watchdog")
			return
		}
		if run.rc > 1 || run.rc < 0 || strings.Contains(run.err, "panic:") || strings.Contains(run.err, "goroutine ") {
			a.Rec.Viol("C19/streams/"+label+"/crash", "commands exit with status zero exactly when the library accepts every input", fmt.Sprintf("exit status %d: %s", run.rc, trunc(run.err, 300)), w)
			return
		}
		if (run.rc == 0) != wantZero {
			a.Rec.Viol(fmt.Sprintf("C19/streams/%s/exit-%d-library-%v", label, run.rc, wantZero), "commands exit with status zero exactly when the library accepts every given input", fmt.Sprintf("exit status %d, library verdict ok=%v", run.rc, wantZero), w)
		}
	}
	_ = wit
	in := []byte(f.content)
	for _, c := range []struct {
		label string
		args  []string
	}{{"validate-stdin", []string{"validate"}}, {"validate-stdin-dash", []string{"validate", "-"}}, {"format-stdin", []string{"format"}}, {"parse-stdin", []string{"parse"}}, {"validate-stdin-json", []string{"validate", "--output-format", "json"}}, {"parse-stdin-json", []string{"parse", "-f", "json"}}} {
		judge(c.label, c19ExecIn(dir, in, nil, c.args...), f.accepted, c.args)
	}
	// a report about stdin names stdin, not a scratch file the command made for itself
	if !f.accepted {
		for _, fm := range []string{"json", "sarif"} {
			run := c19ExecIn(dir, in, nil, "validate", "--output-format", fm)
			if run.timedOut || run.rc > 1 {
				continue
			}
			a.Rec.Count("evaluations", 1)
			var doc interface{}
			body := run.out
			if i := strings.LastIndex(body, "}"); i >= 0 {
				body = body[:i+1]
			}
			if err := json.Unmarshal([]byte(body), &doc); err != nil {
				continue // well-formedness is judged with the file reports
			}
			var named []string
			var walk func(v interface{}, key string)
			walk = func(v interface{}, key string) {
				switch x := v.(type) {
				case map[string]interface{}:
					for k, y := range x {
						walk(y, k)
					}
				case []interface{}:
					for _, y := range x {
						walk(y, key)
					}
				case string:
					if key == "file" || key == "uri" {
						named = append(named, x)
					}
				}
			}
			walk(doc, "")
			for _, n := range named {
				if strings.HasPrefix(n, "http") { // SARIF schema / help links
					continue
				}
				if n != "stdin" && n != "-" && n != "<stdin>" {
					a.Rec.Viol("C19/streams/validate-stdin-"+fm+"/names-other-file", "machine-readable reports name exactly the failing inputs",
						fmt.Sprintf("the %s report about text read from stdin names %q", fm, n), map[string]interface{}{"input": trunc(f.content, 300), "stdout": trunc(run.out, 1500)})
					break
				}
			}
		}
	}
	// comment-led and parenthesised texts on stdin are SQL like any other
	for _, lead := range []string{"-- note\n", "/* c */ ", "\n\n  "} {
		if f.accepted {
			judge("parse-stdin-led", c19ExecIn(dir, []byte(lead+f.content), nil, "parse"), true, []string{"parse", "<stdin with lead " + strings.TrimSpace(lead) + ">"})
			judge("validate-stdin-led", c19ExecIn(dir, []byte(lead+f.content), nil, "validate"), true, []string{"validate", "<stdin with lead>"})
		}
	}
	// inline argument (the CLI only takes text that looks like SQL: statement keyword first, no newline games)
	if (first == "SELECT" || first == "INSERT" || first == "UPDATE" || first == "DELETE" || first == "CREATE" || first == "WITH") && !strings.ContainsAny(f.content, "\n\r") && len(f.content) < 4000 {
		for _, c := range [][]string{{"validate"}, {"parse"}, {"format"}, {"parse", "-f", "json"}} {
			judge(strings.Join(c, "")+"-inline", c19Exec(dir, nil, append(append([]string{}, c...), f.content)...), f.accepted, append(append([]string{}, c...), "<inline>"))
		}
		if f.accepted {
			// --check on inline text: exit status says whether the text is already formatted
			p := c19Exec(dir, nil, "format", f.content)
			chk := c19Exec(dir, nil, "format", "--check", f.content)
			a.Rec.Count("evaluations", 1)
			needs := strings.TrimRight(p.out, "\n") != strings.TrimRight(f.content, "\n")
			if p.rc == 0 && needs != (chk.rc != 0) {
				a.Rec.Viol(fmt.Sprintf("C19/streams/format-check-inline/needs-%v-rc-%d", needs, chk.rc), "the verdict of format --check is consistent with what format prints", fmt.Sprintf("format prints a different text: %v; format --check exit status %d", needs, chk.rc), map[string]interface{}{"input": f.content, "printed": trunc(p.out, 400), "stdout_check": trunc(chk.out, 400)})
			}
		}
	}
	// the stdin marker together with a file the library rejects: the file is an input like any other
	os.WriteFile(filepath.Join(dir, "rejected.sql"), []byte("SELECT FROM WHERE\n"), 0644)
	if run := c19ExecIn(dir, []byte("SELECT 1"), nil, "validate", "-", "rejected.sql"); !run.timedOut {
		a.Rec.Count("evaluations", 1)
		if run.rc == 0 {
			a.Rec.Viol("C19/streams/validate-stdin-marker-and-file/exit-0-library-false", "commands exit with status zero exactly when the library accepts every given input",
				"validate - rejected.sql (valid text on stdin) exits 0: the rejected file was ignored", map[string]interface{}{"stdout": trunc(run.out, 300), "stderr": trunc(run.err, 300)})
		}
	}
	os.Remove(filepath.Join(dir, "rejected.sql"))
	// --strict holds for inline text and stdin as it does for files (empty statements are rejected)
	for _, q := range []string{"SELECT 1;;", "SELECT 1;", "SELECT 1; ; SELECT 2", "SELECT a FROM t", "SELECT a FROM t;;;"} {
		ok := c19LibAcceptsStrict(q)
		judge("validate-strict-inline", c19Exec(dir, nil, "validate", "--strict", q), ok, []string{"validate", "--strict", q})
		judge("validate-strict-stdin", c19ExecIn(dir, []byte(q), nil, "validate", "--strict"), ok, []string{"validate", "--strict", "<stdin " + q + ">"})
	}
	// inline texts with characters that also occur in file names
	for _, q := range []string{"SELECT a / b FROM t", "SELECT a /* c */ FROM t", "SELECT 'x/y.sql' FROM t", "SELECT a FROM t WHERE p = 'q.sql'", "select a from t where b = 'C:\\dir'", "SELECT a FROM"} {
		ok := c19LibAccepts(q)
		for _, c := range [][]string{{"validate"}, {"parse"}, {"format"}} {
			judge(c[0]+"-inline-pathlike", c19Exec(dir, nil, append(c, q)...), ok, append(c, q))
		}
	}
	// option values at and beyond their sensible range
	os.WriteFile(filepath.Join(dir, "o.sql"), in, 0644)
	for _, o := range [][]string{{"--indent", "-1"}, {"--indent", "0"}, {"--indent", "64"}, {"--max-line", "-5"}, {"--max-line", "0"}, {"--indent", "-100000"}} {
		judge("format-option"+strings.Join(o, ""), c19Exec(dir, nil, append(append([]string{"format"}, o...), "o.sql")...), f.accepted, append([]string{"format"}, o...))
	}
}

func c19Consistency(a *ChildArgs, r *rand.Rand, avoid map[string]bool, dir string) {
	c19Clean(dir)
	f := c19MakeFile(r, avoid, 0)
	for f.blank {
		f = c19MakeFile(r, avoid, 0)
	}
	optsets := [][]string{{}, {"--compact"}, {"--no-uppercase"}, {"--indent", "4"}, {"--indent", "0"}, {"--compact", "--no-uppercase"}}
	opts := optsets[r.Intn(len(optsets))]
	f.arg = f.name
	files := []c19File{f}
	c19WriteFiles(dir, files)
	a.Rec.Count("evaluations", 1)
	a.Rec.Distinct("cases", "consistency|"+strings.Join(opts, " ")+"|"+f.content)
	wit := map[string]interface{}{"file": f.content, "options": opts, "library_accepts": f.accepted}
	p := c19Exec(dir, nil, append(append([]string{"format"}, opts...), f.name)...)
	chk := c19Exec(dir, nil, append(append([]string{"format", "--check"}, opts...), f.name)...)
	// --check together with -i is still a check
	chkI := c19Exec(dir, nil, append(append([]string{"format", "--check", "-i"}, opts...), f.name)...)
	mid := c19Snapshot(dir, files)
	if mid[f.name].content != f.content {
		a.Rec.Viol("C19/consistency/check-modified-file", "check-only modes never modify any file", "format / format --check / format --check -i changed the file", wit)
		return
	}
	if !chkI.timedOut && !chk.timedOut && (chkI.rc == 0) != (chk.rc == 0) {
		a.Rec.Viol(fmt.Sprintf("C19/consistency/check-with-inplace/rc-%d-vs-%d", chkI.rc, chk.rc), "the verdict of format --check is consistent", fmt.Sprintf("format --check exits %d, format --check -i exits %d", chk.rc, chkI.rc), wit)
	}
	// -o: the named file receives what is otherwise printed, the input stays as it is
	os.Remove(filepath.Join(dir, "out.sql"))
	ofile := c19Exec(dir, nil, append(append([]string{"format", "-o", "out.sql"}, opts...), f.name)...)
	if !ofile.timedOut && !p.timedOut {
		ob, oerr := os.ReadFile(filepath.Join(dir, "out.sql"))
		wo := map[string]interface{}{"file": f.content, "options": opts, "library_accepts": f.accepted, "printed": trunc(p.out, 1500), "out_file": trunc(string(ob), 1500), "rc_print": p.rc, "rc_o": ofile.rc, "stdout_o": trunc(ofile.out, 300), "stderr_o": trunc(ofile.err, 300)}
		if (ofile.rc == 0) != (p.rc == 0) {
			a.Rec.Viol(fmt.Sprintf("C19/consistency/output-file/exit-%d-print-%d", ofile.rc, p.rc), "for the same input and options the commands' verdicts are mutually consistent", fmt.Sprintf("format exits %d, format -o exits %d", p.rc, ofile.rc), wo)
		} else if p.rc == 0 && f.accepted {
			if oerr != nil {
				a.Rec.Viol("C19/consistency/output-file/missing", "the text format prints and the text it writes are consistent", "format -o out.sql exited 0 and wrote no file: "+oerr.Error(), wo)
			} else if o := string(ob); o != p.out && o+"\n" != p.out && o != p.out+"\n" {
				a.Rec.Viol("C19/consistency/output-file/differs", "the text format prints and the text it writes are consistent", firstDiff(p.out, o), wo)
			}
		}
		if c19Snapshot(dir, files)[f.name].content != f.content {
			a.Rec.Viol("C19/consistency/output-file/modified-input", "check-only modes never modify any file", "format -o changed its input file", wo)
			return
		}
		os.Remove(filepath.Join(dir, "out.sql"))
	}
	w := c19Exec(dir, nil, append(append([]string{"format", "-i"}, opts...), f.name)...)
	if p.timedOut || chk.timedOut || w.timedOut {
		a.Rec.Inconclusive("C19/consistency/timeout", "CLI run exceeded the watchdog")
		return
	}
	after := c19Snapshot(dir, files)
	written := after[f.name].content
	wit["printed"], wit["written"], wit["rc_print"], wit["rc_check"], wit["rc_inplace"] = trunc(p.out, 1500), trunc(written, 1500), p.rc, chk.rc, w.rc
	wit["stderr_check"] = trunc(chk.err, 400)
	if !f.accepted {
		if written != f.content {
			a.Rec.Viol("C19/consistency/rewrote-rejected-file", "in-place rewriting replaces a file only when processing of that file succeeded", "format -i changed a file the library rejects", wit)
		}
		if p.rc == 0 || w.rc == 0 || chk.rc == 0 {
			a.Rec.Viol("C19/consistency/exit-zero-on-rejected", "exit with status zero exactly when the library accepts every given input", fmt.Sprintf("rc print=%d check=%d in-place=%d on a rejected file", p.rc, chk.rc, w.rc), wit)
		}
		return
	}
	if p.rc != 0 || w.rc != 0 {
		a.Rec.Viol("C19/consistency/exit-nonzero-on-accepted", "exit with status zero exactly when the library accepts every given input", fmt.Sprintf("rc print=%d in-place=%d on an accepted file: %s", p.rc, w.rc, trunc(p.err+w.err, 300)), wit)
		return
	}
	printed := p.out
	// the printer appends one newline if the text does not end in one
	if printed != written && printed != written+"\n" {
		a.Rec.Viol("C19/consistency/print-vs-inplace", "the text format prints and the text format -i writes are consistent", firstDiff(printed, written), wit)
	}
	needs := written != f.content
	if needs != (chk.rc != 0) {
		a.Rec.Viol(fmt.Sprintf("C19/consistency/check-verdict/needs-%v-rc-%d", needs, chk.rc), "the verdict of format --check is consistent with what format -i writes", fmt.Sprintf("format -i changed the file: %v; format --check exit status %d", needs, chk.rc), wit)
	}
	// what format prints, saved as a file, is formatted: --check must say so, with LF and with CRLF line ends alike
	// judged against what -i then does to that file
	for variant := 0; variant < 4; variant++ {
		crlf := variant%2 == 1
		text := printed
		if variant >= 2 {
			text = strings.TrimRight(printed, "\n") // exactly what -i writes
		}
		if crlf {
			text = strings.ReplaceAll(strings.ReplaceAll(text, "\r\n", "\n"), "\n", "\r\n")
		}
		g := c19File{name: "g.sql", arg: "g.sql", content: text}
		gfiles := []c19File{g}
		c19WriteFiles(dir, gfiles)
		p2 := c19Exec(dir, nil, append(append([]string{"format"}, opts...), g.name)...)
		chkG := c19Exec(dir, nil, append(append([]string{"format", "--check"}, opts...), g.name)...)
		wG := c19Exec(dir, nil, append(append([]string{"format", "-i"}, opts...), g.name)...)
		a.Rec.Count("evaluations", 1)
		if p2.timedOut || chkG.timedOut || wG.timedOut || p2.rc != 0 || wG.rc != 0 {
			continue
		}
		writtenG := c19Snapshot(dir, gfiles)[g.name].content
		w2 := map[string]interface{}{"file": text, "options": opts, "crlf": crlf, "printed": trunc(p2.out, 800), "written": trunc(writtenG, 800), "rc_check": chkG.rc}
		if p2.out != writtenG && p2.out != writtenG+"\n" {
			a.Rec.Viol(fmt.Sprintf("C19/consistency/print-vs-inplace/reformat-crlf-%v", crlf), "the text format prints and the text format -i writes are consistent", firstDiff(p2.out, writtenG), w2)
		}
		needsG := writtenG != text
		if needsG != (chkG.rc != 0) {
			a.Rec.Viol(fmt.Sprintf("C19/consistency/check-verdict/reformat-crlf-%v/needs-%v-rc-%d", crlf, needsG, chkG.rc), "the verdict of format --check is consistent with what format -i writes", fmt.Sprintf("format -i changed the file: %v; format --check exit status %d", needsG, chkG.rc), w2)
		}
	}
	// formatting again must not need another change according to --check
	chk2 := c19Exec(dir, nil, append(append([]string{"format", "--check"}, opts...), f.name)...)
	if chk2.rc != 0 && c19LibAccepts(written) {
		w2 := c19Exec(dir, nil, append(append([]string{"format", "-i"}, opts...), f.name)...)
		_ = w2
		again := c19Snapshot(dir, files)[f.name].content
		a.Rec.Count("reformat_not_fixed_point", 1)
		_ = again
	}
}

// c19Atomic enumerates failure points of one in-place rewrite.
func c19Atomic(a *ChildArgs, r *rand.Rand, avoid map[string]bool, dir, mode string, idx int) {
	c19Clean(dir)
	useLint := idx%2 == 1
	var f c19File
	for tries := 0; ; tries++ {
		if useLint {
			f = c19File{name: "t.sql", content: []string{"select a  from t   \n", "SELECT a\n\tFROM t\n  \tWHERE x = 1   \n", "select A from T where 'x  y' = b  \n\n\n\nselect 2\n"}[r.Intn(3)], accepted: true}
			break
		}
		f = c19MakeFile(r, avoid, 0)
		f.name = "t.sql"
		if f.accepted && !f.blank {
			break
		}
		if tries > 50 {
			return
		}
	}
	args := []string{"format", "-i", f.name}
	if useLint {
		args = []string{"lint", "--auto-fix", f.name}
	}
	files := []c19File{f}
	// every second lint case rewrites through a symbolic link: the path then names the link, the bytes live elsewhere
	viaLink := useLint && idx%4 == 3
	// a target that has a second name (hard link): the bytes are shared with another directory entry, which is no reason
	// to write them in place
	hardLink := idx%4 == 2 || idx%8 == 5
	write := func() {
		c19WriteFiles(dir, files)
		if hardLink {
			os.Link(filepath.Join(dir, f.name), filepath.Join(dir, "second_name.bak"))
		}
		if viaLink {
			os.Rename(filepath.Join(dir, f.name), filepath.Join(dir, "real_"+f.name))
			os.Symlink("real_"+f.name, filepath.Join(dir, f.name))
		}
	}
	// reference run: the complete new content
	write()
	ref := c19Exec(dir, nil, args...)
	if ref.timedOut {
		a.Rec.Inconclusive("C19/"+mode+"/timeout", "reference run exceeded the watchdog")
		return
	}
	newContent := c19Snapshot(dir, files)[f.name].content
	if newContent == f.content {
		a.Rec.Count("no_rewrite_needed", 1)
		return
	}
	label := "format-i"
	if useLint {
		label = "lint-auto-fix"
	}
	if viaLink {
		label += "-via-symlink"
	}
	if hardLink {
		label += "-hard-linked"
	}
	judge := func(point string, run c19Run) bool {
		a.Rec.Count("evaluations", 1)
		a.Rec.Sample(mode+"-"+label, 2, map[string]interface{}{"fault": point, "rc": run.rc, "original_bytes": len(f.content), "new_bytes": len(newContent)})
		a.Rec.Distinct("cases", mode+"|"+label+"|"+point+"|"+f.content)
		got := c19Snapshot(dir, files)[f.name].content
		_, statErr := os.Stat(filepath.Join(dir, f.name))
		if statErr == nil && (got == f.content || got == newContent) {
			return true
		}
		cls := "partial"
		if statErr != nil {
			cls = "missing"
		} else if got == "" {
			cls = "empty"
		}
		a.Rec.Viol("C19/"+mode+"/"+label+"/"+cls, "if the process is interrupted or a write fails after any number of bytes, the file on disk holds either the complete original or the complete new content",
			fmt.Sprintf("fault %s: file holds %d bytes (original %d, new %d): %q", point, len(got), len(f.content), len(newContent), trunc(got, 80)), map[string]interface{}{"args": args, "original": f.content, "new": newContent, "found": got, "fault": point, "rc": run.rc, "stderr": trunc(run.err, 400)})
		return false
	}
	if mode == "fsize" {
		for k := 0; k <= len(newContent); k++ {
			c19Clean(dir)
			write()
			run := c19Exec(dir, []string{"/usr/bin/prlimit", fmt.Sprintf("--fsize=%d", k), "--"}, args...)
			if run.timedOut {
				a.Rec.Inconclusive("C19/fsize/timeout", "run exceeded the watchdog")
				return
			}
			if !judge(fmt.Sprintf("RLIMIT_FSIZE=%d", k), run) {
				return
			}
		}
		return
	}
	// kill on entry to the j-th syscall of each kind
	for _, sc := range []string{"write", "close", "openat", "rename,renameat,renameat2", "chmod,fchmod,fchmodat", "fsync,fdatasync", "unlink,unlinkat"} {
		for j := 1; j <= 60; j++ {
			c19Clean(dir)
			write()
			run := c19Exec(dir, []string{"/usr/bin/strace", "-f", "-o", "/dev/null", "-e", "trace=" + sc, "-e", fmt.Sprintf("inject=%s:signal=KILL:when=%d", sc, j)}, args...)
			if run.timedOut {
				a.Rec.Inconclusive("C19/kill/timeout", "run exceeded the watchdog")
				return
			}
			if !judge(fmt.Sprintf("SIGKILL on entry to %s #%d", sc, j), run) {
				return
			}
			if !run.killed && run.rc != 137 {
				break // the run completed: no j-th call of this kind
			}
		}
	}
	// the j-th call of each kind fails with an error the program can see (disk full, I/O error): the file is again
	// either the original or the new content, and a rewrite that did not happen is not reported as success
	trace := filepath.Join(dir, ".strace.out")
	for _, sc := range []struct{ calls, errno string }{{"write", "ENOSPC"}, {"rename,renameat,renameat2", "EIO"}, {"fsync,fdatasync", "EIO"}, {"chmod,fchmod,fchmodat", "EPERM"}, {"openat", "ENOSPC"}} {
		for j := 1; j <= 40; j++ {
			c19Clean(dir)
			write()
			os.Remove(trace)
			run := c19Exec(dir, []string{"/usr/bin/strace", "-f", "-o", trace, "-e", "trace=" + sc.calls, "-e", fmt.Sprintf("inject=%s:error=%s:when=%d", sc.calls, sc.errno, j)}, args...)
			if run.timedOut {
				a.Rec.Inconclusive("C19/kill/timeout", "run exceeded the watchdog")
				return
			}
			tb, _ := os.ReadFile(trace)
			os.Remove(trace)
			if !strings.Contains(string(tb), "(INJECTED)") {
				break // no j-th call of this kind
			}
			point := fmt.Sprintf("%s on %s #%d", sc.errno, sc.calls, j)
			if !judge(point, run) {
				return
			}
			if got := c19Snapshot(dir, files)[f.name].content; got == f.content && run.rc == 0 {
				a.Rec.Viol("C19/"+mode+"/"+label+"/success-without-rewrite/"+strings.Split(sc.calls, ",")[0], "in-place rewriting replaces a file only when processing of that file succeeded (and a failed rewrite is not a success)",
					fmt.Sprintf("fault %s: the file still holds the original, the command exits 0", point), map[string]interface{}{"args": args, "original": f.content, "fault": point, "stdout": trunc(run.out, 300), "stderr": trunc(run.err, 300)})
				return
			}
		}
	}
}
