package props

import (
	"fmt"
	"math/rand"
	"sort"
	"strings"

	"github.com/ajitpratap0/GoSQLX/pkg/gosqlx"
	"verifharness/gen"
	"verifharness/mon"
)

func init() {
	Registry["C15"] = &Prop{Level: "exploration", Parent: c15Parent, Child: c15Child}
}

func c15Parent(c *mon.Ctx) {
	c.Rule = "for each model statement the generator records every table, column and function name it placed (and the aliases / CTE column lists / string contents that must not appear); the statement is parsed in two layouts and the six Extract* results are compared as sets with that record: missing name, extra name, duplicate, lost qualifier, layout dependence. distinct_nontrivial = distinct statements with at least two recorded names"
	c.DistinctSet = "statements"
	c.Assumptions = []string{"'*' and 't.*' are not column references on either side", "a CTE name written in a FROM position counts as a table position", "INSERT column lists, UPDATE SET targets and USING columns count as column references"}
	per := 700
	if c.Tier == "thorough" {
		per = 30000
	}
	sh := shards("plain", "random", 16, "-n", fmt.Sprint(per))
	sh = append(sh, shards("plain", "catalogue", 1)...)
	res := c.RunShards(sh, 16)
	c.ClassifyDeaths(res, "extraction returns")
}

func setOf(xs []string) (map[string]bool, []string) {
	m := map[string]bool{}
	var dups []string
	for _, x := range xs {
		if m[x] {
			dups = append(dups, x)
		}
		m[x] = true
	}
	return m, dups
}

func diffSets(want, got map[string]bool) (missing, extra []string) {
	for k := range want {
		if !got[k] {
			missing = append(missing, k)
		}
	}
	for k := range got {
		if !want[k] {
			extra = append(extra, k)
		}
	}
	sort.Strings(missing)
	sort.Strings(extra)
	return
}

func qnames(qs []gosqlx.QualifiedName) []string {
	var out []string
	for _, q := range qs {
		out = append(out, q.String())
	}
	return out
}

func dropStar(m map[string]bool) map[string]bool {
	out := map[string]bool{}
	for k := range m {
		if k == "*" || strings.HasSuffix(k, ".*") {
			continue
		}
		out[k] = true
	}
	return out
}

// c15Check compares extraction results with the placement record. kind is the statement kind for identities.
func c15Check(a *ChildArgs, idPrefix, kind string, x gen.X, p *gen.Placement, seed int64) {
	layouts := []gen.Layout{{}, {KwCase: 1, Sep: 2, R: rand.New(rand.NewSource(seed))}}
	var first map[string][]string
	for li, lay := range layouts {
		sql := gen.Render(x.Toks, lay)
		tree, err := gosqlx.Parse(sql)
		if err != nil {
			a.Rec.Count("rejected_skipped", 1)
			if idPrefix == "C15/fixed" {
				// a hand-written statement the parser does not take decides nothing: say so instead of passing silently
				a.Rec.Inconclusive("C15/fixed/"+kind+"/rejected", "the hand-written statement is not accepted: "+firstLine(err.Error()))
			}
			return
		}
		md := gosqlx.ExtractMetadata(tree)
		res := map[string][]string{
			"tables":            gosqlx.ExtractTables(tree),
			"tables-qualified":  qnames(gosqlx.ExtractTablesQualified(tree)),
			"columns":           gosqlx.ExtractColumns(tree),
			"columns-qualified": qnames(gosqlx.ExtractColumnsQualified(tree)),
			"functions":         gosqlx.ExtractFunctions(tree),
			"metadata.tables":   md.Tables,
			"metadata.columns":  md.Columns,
			"metadata.functions": md.Functions,
		}
		wantTables := map[string]bool{}
		wantTablesQ := map[string]bool{}
		for t := range p.Tables {
			wantTablesQ[t] = true
			// the unqualified variant also reports the name as written (established reading of the extractor)
			wantTables[t] = true
		}
		wants := map[string]map[string]bool{
			"tables": wantTables, "tables-qualified": wantTablesQ, "columns": p.Columns, "columns-qualified": p.QColumns,
			"functions": p.Functions, "metadata.tables": wantTables, "metadata.columns": p.Columns, "metadata.functions": p.Functions,
		}
		for _, what := range []string{"tables", "tables-qualified", "columns", "columns-qualified", "functions", "metadata.tables", "metadata.columns", "metadata.functions"} {
			a.Rec.Count("evaluations", 1)
			got, dups := setOf(res[what])
			got = dropStar(got)
			want := wants[what]
			if what == "functions" || what == "metadata.functions" {
				// function names are compared case-insensitively (COUNT vs count is the same function)
				got, want = upperSet(got), upperSet(want)
			}
			wit := map[string]interface{}{"sql": sql, "what": what, "got": res[what], "want": gen.Keys(want)}
			if len(dups) > 0 {
				a.Rec.Viol(fmt.Sprintf("%s/%s/%s/duplicate", idPrefix, kind, what), "results are duplicate-free", fmt.Sprintf("duplicates %v", dups), wit)
			}
			missing, extra := diffSets(want, got)
			if len(missing) > 0 {
				a.Rec.Viol(fmt.Sprintf("%s/%s/%s/missing", idPrefix, kind, what), "the extracted set equals the set of names written", fmt.Sprintf("missing %v (got %v)", missing, res[what]), wit)
			}
			if len(extra) > 0 {
				cls := "extra"
				for _, e := range extra {
					if p.Forbidden[e] {
						cls = "extra-forbidden"
					}
				}
				a.Rec.Viol(fmt.Sprintf("%s/%s/%s/%s", idPrefix, kind, what, cls), "aliases, synthesised names, string contents and keywords never appear", fmt.Sprintf("extra %v (want %v)", extra, gen.Keys(want)), wit)
			}
		}
		if li == 0 {
			first = res
		} else {
			for k, v := range res {
				g1, _ := setOf(first[k])
				g2, _ := setOf(v)
				if m, e := diffSets(g1, g2); len(m)+len(e) > 0 {
					a.Rec.Viol(fmt.Sprintf("%s/%s/%s/layout-dependent", idPrefix, kind, k), "results do not depend on layout", fmt.Sprintf("layout 1 %v vs layout 2 %v", first[k], v), map[string]interface{}{"sql": sql})
				}
			}
		}
	}
}

func upperSet(m map[string]bool) map[string]bool {
	out := map[string]bool{}
	for k := range m {
		out[strings.ToUpper(k)] = true
	}
	return out
}

func stmtKind(x gen.X) string {
	if x.T == nil {
		return "?"
	}
	return x.T.Type
}

func c15Child(a *ChildArgs) {
	switch a.Phase {
	case "random":
		avoid := mon.AvoidFeatures()
		base := a.Seed*7919 + int64(a.Shard)*104729
		for i := 0; i < a.N; i++ {
			seed := base + int64(i)*15485863
			g := gen.New(rand.New(rand.NewSource(seed)), avoid)
			x := g.Statement(3)
			p := g.P
			if len(p.Tables)+len(p.Columns)+len(p.Functions) >= 2 {
				a.Rec.Distinct("statements", gen.Plain(x.Toks))
			}
			c15Check(a, "C15/composed", stmtKind(x), x, p, seed)
			if i < 2 {
				a.Rec.Sample("random", 2, map[string]interface{}{"sql": trunc(gen.Plain(x.Toks), 300), "tables": gen.Keys(p.Tables), "columns": gen.Keys(p.QColumns), "functions": gen.Keys(p.Functions)})
			}
		}
	case "catalogue":
		for _, cc := range C03Catalogue() {
			g := gen.New(rand.New(rand.NewSource(42)), nil)
			x := cc.Build(g)
			a.Rec.Distinct("statements", gen.Plain(x.Toks))
			c15Check(a, "C15/cat", catGroup(cc.ID), x, g.P, 7)
		}
		// statements outside the model grammar, with their placement written by hand
		for _, fx := range []struct {
			id, sql         string
			tabs, cols, fns []string
		}{
			{"replace-into", "REPLACE INTO t2 ( a , b ) VALUES ( 1 , f ( c ) )", []string{"t2"}, []string{"a", "b", "c"}, []string{"f"}},
			{"niladic-keywords", "SELECT CURRENT_DATE , CURRENT_TIMESTAMP , current_time , a FROM t WHERE b < LOCALTIMESTAMP", []string{"t"}, []string{"a", "b"}, nil},
			{"match-against", "SELECT a FROM t WHERE MATCH ( b , c ) AGAINST ( 'x' IN BOOLEAN MODE )", []string{"t"}, []string{"a", "b", "c"}, []string{"MATCH"}},
			{"cte-delete-body", "WITH moved AS ( DELETE FROM old_orders WHERE created < cutoff ( days ) RETURNING id , total ) INSERT INTO archive ( id , total ) SELECT id , total FROM moved",
				[]string{"old_orders", "archive", "moved"}, []string{"created", "days", "id", "total"}, []string{"cutoff"}},
			{"cte-update-insert-bodies", "WITH up AS ( UPDATE t1 SET a = f ( b ) WHERE c IN ( SELECT d FROM u1 ) RETURNING a ) , ins AS ( INSERT INTO v1 ( x ) VALUES ( g ( 1 ) ) RETURNING x ) SELECT a , x FROM up , ins",
				[]string{"t1", "u1", "v1", "up", "ins"}, []string{"a", "b", "c", "d", "x"}, []string{"f", "g"}},
			{"ragged-insert", "INSERT INTO audit ( id ) VALUES ( 1 ) , ( 2 , ( SELECT secret FROM vault WHERE h ( k ) = 0 ) ) , ( 3 , 4 , g ( m ) )", []string{"audit", "vault"}, []string{"id", "secret", "k", "m"}, []string{"h", "g"}},
			{"case-three-arms", "SELECT CASE WHEN a = f1 ( 1 ) THEN g1 ( b ) WHEN c = ( SELECT m FROM w1 ) THEN h1 ( d ) WHEN e THEN ( SELECT n FROM w2 ) ELSE k1 ( 4 ) END FROM t",
				[]string{"t", "w1", "w2"}, []string{"a", "b", "c", "d", "e", "m", "n"}, []string{"f1", "g1", "h1", "k1"}},
			{"two-statements-same-names", "SELECT count ( id ) FROM users WHERE lower ( n ) = 'x' ; SELECT count ( id ) , lower ( n ) FROM users , orders WHERE id = uid ; UPDATE users SET n = lower ( n )",
				[]string{"users", "orders"}, []string{"id", "n", "uid"}, []string{"count", "lower"}},
			{"lower-case-niladic", "select current_date , Current_Timestamp , localtime , a from t where b < session_user", []string{"t"}, []string{"a", "b"}, nil},
			{"array-constructor", "SELECT ARRAY [ 1 , f ( a ) , ( SELECT z FROM q ) ] FROM t", []string{"t", "q"}, []string{"a", "z"}, []string{"f"}},
			// names with three, four and five parts: the qualifiers are part of the name in every variant
			{"many-part-names", "SELECT a FROM srv.db.sch.orders , west.crm.dbo.customers , db.sch.t3 JOIN east.crm.dbo.customers ON a = b WHERE c IN ( SELECT d FROM n1.n2.n3.n4.deep )",
				[]string{"srv.db.sch.orders", "east.crm.dbo.customers", "west.crm.dbo.customers", "db.sch.t3", "n1.n2.n3.n4.deep"}, []string{"a", "b", "c", "d"}, nil},
			// comma-separated FROM lists of plain tables, at the top and inside a sub-query and a CTE
			{"from-comma-lists", "WITH w AS ( SELECT x FROM p1 , p2 , p3 ) SELECT a FROM t1 , t2 , w WHERE b IN ( SELECT c FROM u1 , u2 )", []string{"p1", "p2", "p3", "t1", "t2", "w", "u1", "u2"}, []string{"x", "a", "b", "c"}, nil},
			// ordering by the alias of a select item (an output name, not a column reference)
			{"order-by-alias", "SELECT a AS z , f ( b ) AS y FROM t ORDER BY z DESC , y", []string{"t"}, []string{"a", "b"}, []string{"f"}},
			// names that merely fold to a value keyword under Unicode case rules are columns like any other
			{"names-folding-to-niladic-keywords", "SELECT \u017fession_user , current_t\u0131me , a FROM t WHERE b < local\u0131me", []string{"t"}, []string{"\u017fession_user", "current_t\u0131me", "a", "b", "local\u0131me"}, nil},
		} {
			g := gen.New(rand.New(rand.NewSource(42)), nil)
			var toks []gen.Tok
			for _, w := range strings.Fields(fx.sql) {
				toks = append(toks, gen.Tok{S: w})
			}
			for _, t := range fx.tabs {
				g.P.Tables[t] = true
			}
			for _, c := range fx.cols {
				g.P.Columns[c] = true
				g.P.QColumns[c] = true
			}
			for _, f := range fx.fns {
				g.P.Functions[f] = true
			}
			a.Rec.Distinct("statements", fx.sql)
			c15Check(a, "C15/fixed", fx.id, gen.X{Toks: toks}, g.P, 7)
		}
		// flat operator chains much longer than any nesting limit: the names written first are as much part of the
		// statement as the last ones
		for _, n := range []int{150, 700, 1600} {
			g := gen.New(rand.New(rand.NewSource(42)), nil)
			var sb strings.Builder
			sb.WriteString("SELECT last_col FROM t WHERE EXISTS ( SELECT x FROM audit_log WHERE LOWER ( y ) = 'v' )")
			g.P.Tables["t"], g.P.Tables["audit_log"] = true, true
			for _, c := range []string{"last_col", "x", "y"} {
				g.P.Columns[c], g.P.QColumns[c] = true, true
			}
			g.P.Functions["LOWER"] = true
			for k := 0; k < n; k++ {
				fmt.Fprintf(&sb, " OR id%d = fn%d ( %d )", k, k%7, k)
				g.P.Columns[fmt.Sprintf("id%d", k)], g.P.QColumns[fmt.Sprintf("id%d", k)] = true, true
				g.P.Functions[fmt.Sprintf("fn%d", k%7)] = true
			}
			var toks []gen.Tok
			for _, w := range strings.Fields(sb.String()) {
				toks = append(toks, gen.Tok{S: w})
			}
			c15Check(a, "C15/fixed", fmt.Sprintf("or-chain-%d", n), gen.X{Toks: toks}, g.P, 7)
		}
	}
}

// catGroup reduces a catalogue ID to its group (first two path elements), e.g. C03/join/LEFT_JOIN/on/table -> join.
func catGroup(id string) string {
	parts := strings.Split(strings.TrimPrefix(id, "C03/"), "/")
	if parts[0] == "stmt" && len(parts) > 1 {
		return "stmt-" + parts[1]
	}
	return parts[0]
}
