package props

import (
	"fmt"
	"math/rand"
	"reflect"
	"strings"

	"github.com/ajitpratap0/GoSQLX/pkg/gosqlx"
	"github.com/ajitpratap0/GoSQLX/pkg/sql/ast"
	"verifharness/dump"
	"verifharness/gen"
	"verifharness/mon"
)

func init() {
	Registry["C14"] = &Prop{Level: "exploration", Parent: c14Parent, Child: c14Child}
}

func c14Parent(c *mon.Ctx) {
	c.Rule = "tree mode: every parsed tree (catalogue, random, corpus) is walked by reflection over exported fields to collect all values implementing ast.Node (pointers by identity, value nodes by type+content) and compared with the set ast.Inspect visits (completeness and soundness). structural mode: for every exported struct type of package ast (registry generated from the source at check time) and every exported field that can hold a node, a sentinel node is stored there and ast.Inspect and ast.Walk must reach it. distinct_nontrivial = distinct (type, field) pairs exercised in structural mode plus distinct trees in tree mode"
	c.DistinctSet = "cases"
	c.Assumptions = []string{"typed-nil pointers are ignored on both sides", "SelectStatement.TableName / JoinClause.Left are representation duplicates, not tree content"}
	per := 600
	if c.Tier == "thorough" {
		per = 20000
	}
	sh := shards("plain", "trees", 16, "-n", fmt.Sprint(per))
	sh = append(sh, shards("plain", "structural", 1)...)
	res := c.RunShards(sh, 16)
	c.ClassifyDeaths(res, "traversal returns")
}

var nodeIface = reflect.TypeOf((*ast.Node)(nil)).Elem()

type reachNode struct {
	Ptr    uintptr
	Type   string
	Key    string // type + content (value nodes)
	Parent string // ParentType.Field through which it was reached
	IsPtr  bool
}

// collectReachable walks v by reflection and returns every value implementing ast.Node.
func collectReachable(root interface{}, visited func(reachNode) bool) []reachNode {
	var out []reachNode
	seen := map[uintptr]bool{}
	var walk func(v reflect.Value, parent string, depth int)
	walk = func(v reflect.Value, parent string, depth int) {
		if depth > 200000 {
			return
		}
		switch v.Kind() {
		case reflect.Interface:
			if !v.IsNil() {
				walk(v.Elem(), parent, depth+1)
			}
		case reflect.Ptr:
			if v.IsNil() {
				return
			}
			if v.Elem().Kind() != reflect.Struct {
				return
			}
			p := v.Pointer()
			if v.Type().Implements(nodeIface) {
				if seen[p] {
					return
				}
				seen[p] = true
				rn := reachNode{Ptr: p, Type: v.Elem().Type().Name(), Parent: parent, IsPtr: true}
				out = append(out, rn)
				if visited != nil && !visited(rn) {
					return // report the topmost unvisited node only
				}
			}
			walkStruct(v.Elem(), walk, depth)
		case reflect.Struct:
			t := v.Type()
			if t.PkgPath() != "github.com/ajitpratap0/GoSQLX/pkg/sql/ast" {
				return
			}
			if (t.Implements(nodeIface) || reflect.PtrTo(t).Implements(nodeIface)) && !v.IsZero() {
				// (a zero struct stored by value is an absent node, like a nil pointer: ObjectName{} in an operation that names no table)
				rn := reachNode{Type: t.Name(), Key: t.Name() + ":" + dump.Dump(v.Interface()), Parent: parent}
				out = append(out, rn)
				if visited != nil && !visited(rn) {
					return
				}
			}
			walkStruct(v, walk, depth)
		case reflect.Slice, reflect.Array:
			for i := 0; i < v.Len(); i++ {
				walk(v.Index(i), parent, depth+1)
			}
		}
	}
	walk(reflect.ValueOf(root), "root", 0)
	return out
}

var includeDuplicateFields bool

func collectReachableAll(root interface{}) []reachNode {
	includeDuplicateFields = true
	defer func() { includeDuplicateFields = false }()
	return collectReachable(root, nil)
}

func walkStruct(v reflect.Value, walk func(reflect.Value, string, int), depth int) {
	t := v.Type()
	for i := 0; i < t.NumField(); i++ {
		f := t.Field(i)
		if f.PkgPath != "" {
			continue
		}
		key := t.Name() + "." + f.Name
		if !includeDuplicateFields && (key == "SelectStatement.TableName" || key == "JoinClause.Left") {
			continue
		}
		walk(v.Field(i), key, depth+1)
	}
}

type visitRec struct {
	ptrs map[uintptr]int
	keys map[string]int
	n    int
}

func inspectAll(root ast.Node, useWalk bool) *visitRec {
	vr := &visitRec{ptrs: map[uintptr]int{}, keys: map[string]int{}}
	f := func(n ast.Node) bool {
		if n == nil {
			return false
		}
		rv := reflect.ValueOf(n)
		if rv.Kind() == reflect.Ptr {
			if rv.IsNil() {
				return false // typed nil: ignored on both sides
			}
			vr.ptrs[rv.Pointer()]++
			if rv.Elem().Kind() == reflect.Struct {
				vr.keys[rv.Elem().Type().Name()+":"+dump.Dump(rv.Elem().Interface())]++
			}
		} else if rv.Kind() == reflect.Struct {
			vr.keys[rv.Type().Name()+":"+dump.Dump(n)]++
		}
		vr.n++
		return true
	}
	if useWalk {
		_ = ast.Walk(ast.Inspector(f), root)
	} else {
		ast.Inspect(root, f)
	}
	return vr
}

// c14Prune checks the documented pruning contract of the traversal API: returning false for a node skips that node's
// children and nothing else. The reference is a plain recursion over Children().
func c14Prune(a *ChildArgs, tree *ast.AST, sql string) {
	isNil := func(n ast.Node) bool {
		if n == nil {
			return true
		}
		rv := reflect.ValueOf(n)
		return rv.Kind() == reflect.Ptr && rv.IsNil()
	}
	// number of nodes of an unpruned reference walk
	total := 0
	var count func(n ast.Node)
	count = func(n ast.Node) {
		if isNil(n) {
			return
		}
		total++
		for _, c := range n.Children() {
			count(c)
		}
	}
	count(tree)
	if total < 3 {
		return
	}
	for _, k := range []int{1, 2, total / 3, total / 2, total - 2} {
		if k < 1 || k >= total {
			continue
		}
		// reference: visit order with the k-th visited node pruned
		var ref []string
		seen := 0
		var walk func(n ast.Node)
		walk = func(n ast.Node) {
			if isNil(n) {
				return
			}
			seen++
			ref = append(ref, fmt.Sprintf("%T", n))
			if seen == k {
				return
			}
			for _, c := range n.Children() {
				walk(c)
			}
		}
		walk(tree)
		var got []string
		seenI := 0
		ast.Inspect(tree, func(n ast.Node) bool {
			if isNil(n) {
				return false
			}
			seenI++
			got = append(got, fmt.Sprintf("%T", n))
			return seenI != k
		})
		a.Rec.Count("evaluations", 1)
		if strings.Join(got, ",") != strings.Join(ref, ",") {
			a.Rec.Viol("C14/prune/inspect-differs", "pruning one node skips exactly that node's children", fmt.Sprintf("callback returns false at visited node %d of %d: Inspect visits %d nodes, a Children() recursion with the same pruning visits %d", k, total, len(got), len(ref)), map[string]interface{}{"sql": trunc(sql, 400), "k": k})
			return
		}
	}
}

func c14Tree(a *ChildArgs, sql string) {
	tree, err := gosqlx.Parse(sql)
	if err != nil {
		a.Rec.Count("rejected_skipped", 1)
		return
	}
	a.Rec.Count("evaluations", 1)
	a.Rec.Distinct("cases", "tree:"+sql)
	c14Prune(a, tree, sql)
	vis := inspectAll(tree, false)
	// the tree handed over by value (ast.AST implements Node with value receivers) is the same tree
	byValue := 0
	ast.Inspect(*tree, func(n ast.Node) bool {
		if n == nil {
			return false
		}
		if rv := reflect.ValueOf(n); rv.Kind() == reflect.Ptr && rv.IsNil() {
			return false
		}
		byValue++
		return true
	})
	if byValue != vis.n {
		a.Rec.Viol("C14/by-value/visit-count", "walking visits every node reachable through the tree's own fields",
			fmt.Sprintf("ast.Inspect(*tree) visits %d nodes, ast.Inspect(tree) %d", byValue, vis.n), map[string]interface{}{"sql": sql})
	}
	reach := collectReachable(tree, func(r reachNode) bool {
		if r.IsPtr {
			return vis.ptrs[r.Ptr] > 0
		}
		return vis.keys[r.Key] > 0
	})
	reachPtr := map[uintptr]bool{}
	reachKeys := map[string]bool{}
	for _, r := range reach {
		if r.IsPtr {
			reachPtr[r.Ptr] = true
		} else {
			reachKeys[r.Key] = true
		}
	}
	a.Rec.Count("nodes_reachable", int64(len(reach)))
	a.Rec.Count("nodes_visited", int64(vis.n))
	for _, r := range reach {
		if r.IsPtr {
			if vis.ptrs[r.Ptr] == 0 {
				a.Rec.Viol("C14/unvisited/"+r.Parent+"->"+r.Type, "walking visits every node reachable through the tree's own fields",
					fmt.Sprintf("node %s reached through %s is never visited by ast.Inspect", r.Type, r.Parent), map[string]interface{}{"sql": sql})
			}
		} else if vis.keys[r.Key] == 0 {
			a.Rec.Viol("C14/unvisited/"+r.Parent+"->"+r.Type, "walking visits every node reachable through the tree's own fields",
				fmt.Sprintf("value node %s reached through %s is never visited by ast.Inspect: %s", r.Type, r.Parent, trunc(r.Key, 200)), map[string]interface{}{"sql": sql})
		}
	}
	// nodes reachable through the representation-duplicate fields (JoinClause.Left) are allowed, not required
	for _, r := range collectReachableAll(tree) {
		if r.IsPtr {
			reachPtr[r.Ptr] = true
		} else {
			reachKeys[r.Key] = true
		}
	}
	// soundness: every visited pointer is reachable, or its content equals a reachable value node (Children() hands out copies)
	ast.Inspect(tree, func(n ast.Node) bool {
		if n == nil {
			return false
		}
		rv := reflect.ValueOf(n)
		if rv.Kind() != reflect.Ptr || rv.IsNil() {
			return rv.Kind() != reflect.Ptr
		}
		if reachPtr[rv.Pointer()] {
			return true
		}
		if rv.Elem().Kind() == reflect.Struct {
			k := rv.Elem().Type().Name() + ":" + dump.Dump(rv.Elem().Interface())
			if reachKeys[k] {
				return true
			}
			a.Rec.Viol("C14/visited-not-in-tree/"+rv.Elem().Type().Name(), "nothing that is not part of the tree is visited",
				"visited node is not reachable through the tree's fields: "+trunc(k, 200), map[string]interface{}{"sql": sql})
		}
		return true
	})
}

// ---------- structural mode ----------

func canHoldNode(t reflect.Type) bool {
	switch t.Kind() {
	case reflect.Interface:
		return t.Implements(nodeIface) || nodeIface.Implements(t) && t.NumMethod() > 0 && t.PkgPath() == "github.com/ajitpratap0/GoSQLX/pkg/sql/ast"
	case reflect.Ptr:
		return t.Elem().Kind() == reflect.Struct && t.Implements(nodeIface)
	case reflect.Struct:
		return t.PkgPath() == "github.com/ajitpratap0/GoSQLX/pkg/sql/ast" && (t.Implements(nodeIface) || reflect.PtrTo(t).Implements(nodeIface))
	case reflect.Slice:
		return canHoldNode(t.Elem())
	}
	return false
}

const sentinelName = "__c14_sentinel__"

// makeSentinel builds a value assignable to t that contains a recognisable node; returns the value and a matcher.
func makeSentinel(t reflect.Type) (reflect.Value, func(n ast.Node) bool, bool) {
	switch t.Kind() {
	case reflect.Interface:
		cands := []interface{}{&ast.Identifier{Name: sentinelName}, &ast.SelectStatement{TableName: sentinelName}, &ast.SetOperation{Operator: sentinelName}}
		for _, c := range cands {
			cv := reflect.ValueOf(c)
			if cv.Type().Implements(t) {
				ptr := cv.Pointer()
				return cv, func(n ast.Node) bool {
					rv := reflect.ValueOf(n)
					return rv.Kind() == reflect.Ptr && rv.Pointer() == ptr
				}, true
			}
		}
		return reflect.Value{}, nil, false
	case reflect.Ptr:
		pv := reflect.New(t.Elem())
		ptr := pv.Pointer()
		return pv, func(n ast.Node) bool {
			rv := reflect.ValueOf(n)
			return rv.Kind() == reflect.Ptr && rv.Pointer() == ptr
		}, true
	case reflect.Struct:
		sv := reflect.New(t).Elem()
		marked := false
		for i := 0; i < t.NumField(); i++ {
			if t.Field(i).PkgPath == "" && t.Field(i).Type.Kind() == reflect.String {
				sv.Field(i).SetString(sentinelName)
				marked = true
				break
			}
		}
		if !marked {
			// mark through a nested node-typed field
			for i := 0; i < t.NumField(); i++ {
				f := t.Field(i)
				if f.PkgPath == "" && canHoldNode(f.Type) && f.Type.Kind() != reflect.Slice {
					if inner, m, ok := makeSentinel(f.Type); ok {
						sv.Field(i).Set(inner)
						return sv, m, true
					}
				}
			}
			return reflect.Value{}, nil, false
		}
		want := t.Name() + ":" + dump.Dump(sv.Interface())
		return sv, func(n ast.Node) bool {
			rv := reflect.ValueOf(n)
			if rv.Kind() == reflect.Ptr && !rv.IsNil() {
				rv = rv.Elem()
			}
			return rv.Kind() == reflect.Struct && rv.Type() == t && t.Name()+":"+dump.Dump(rv.Interface()) == want
		}, true
	case reflect.Slice:
		inner, m, ok := makeSentinel(t.Elem())
		if !ok {
			return reflect.Value{}, nil, false
		}
		s := reflect.MakeSlice(t, 1, 1)
		s.Index(0).Set(inner)
		return s, m, true
	}
	return reflect.Value{}, nil, false
}

func c14Structural(a *ChildArgs) {
	for _, zero := range ASTTypes {
		pv := reflect.ValueOf(zero)
		t := pv.Elem().Type()
		if !pv.Type().Implements(nodeIface) {
			a.Rec.Count("types_not_nodes", 1)
			continue
		}
		a.Rec.Count("node_types", 1)
		for i := 0; i < t.NumField(); i++ {
			f := t.Field(i)
			if f.PkgPath != "" || !canHoldNode(f.Type) {
				continue
			}
			key := t.Name() + "." + f.Name
			if key == "SelectStatement.TableName" || key == "JoinClause.Left" {
				continue
			}
			inst := reflect.New(t)
			sv, match, ok := makeSentinel(f.Type)
			if !ok {
				a.Rec.Inconclusive("C14/struct/"+key, "no sentinel can be built for field type "+f.Type.String())
				continue
			}
			inst.Elem().Field(i).Set(sv)
			a.Rec.Count("evaluations", 1)
			a.Rec.Count("fields_checked", 1)
			a.Rec.Distinct("cases", "field:"+key)
			root := inst.Interface().(ast.Node)
			for _, mode := range []string{"Inspect", "Walk"} {
				found := false
				func() {
					defer func() {
						if r := recover(); r != nil {
							a.Rec.Viol("C14/struct-panic/"+key, "traversal returns", fmt.Sprintf("%s panicked on %s with only %s set: %v", mode, t.Name(), f.Name, r), map[string]string{"type": t.Name(), "field": f.Name})
							found = true
						}
					}()
					visit := func(n ast.Node) bool {
						if n != nil && match(n) {
							found = true
						}
						return true
					}
					if mode == "Walk" {
						_ = ast.Walk(ast.Inspector(visit), root)
					} else {
						ast.Inspect(root, visit)
					}
				}()
				if !found {
					a.Rec.Viol("C14/struct/"+key, "every field that can hold a node is traversed",
						fmt.Sprintf("ast.%s on a %s whose field %s (%s) holds a node never reaches that node", mode, t.Name(), f.Name, f.Type.String()),
						map[string]string{"type": t.Name(), "field": f.Name, "field_type": f.Type.String()})
					break
				}
			}
		}
	}
	a.Rec.Sample("structural", 1, map[string]string{"type": "SelectStatement", "field": "Where", "sentinel": "&ast.Identifier{Name: \"" + sentinelName + "\"}"})
}

func c14Child(a *ChildArgs) {
	switch a.Phase {
	case "structural":
		c14Structural(a)
	case "trees":
		avoid := mon.AvoidFeatures()
		base := a.Seed*7919 + int64(a.Shard)*104729
		if a.Shard == 0 {
			for _, f := range CorpusFiles() {
				c14Tree(a, f.SQL)
			}
		}
		if a.Shard == 0 {
			// trees far deeper than any recursion limit of the parser: flat operator chains become left-deep trees, long
			// lists become wide ones; traversal must reach the nodes behind them all the same
			for _, n := range []int{50, 150, 600} {
				for _, op := range []string{"OR", "AND", "+", "||"} {
					term := "id = %d"
					if op == "+" || op == "||" {
						term = "c%d"
					}
					var parts []string
					for k := 0; k < n; k++ {
						parts = append(parts, fmt.Sprintf(term, k))
					}
					chain := strings.Join(parts, " "+op+" ")
					if op == "+" || op == "||" {
						c14Tree(a, "SELECT "+chain+", tail_col FROM t WHERE x IN (SELECT uid FROM inner_tbl WHERE f(y) = 0) ORDER BY last_col")
					} else {
						c14Tree(a, "SELECT a FROM t WHERE x IN (SELECT uid FROM inner_tbl WHERE f(y) = 0) "+op+" "+chain+" ORDER BY last_col")
					}
				}
				var items []string
				for k := 0; k < n; k++ {
					items = append(items, fmt.Sprintf("g(c%d)", k))
				}
				c14Tree(a, "SELECT "+strings.Join(items, ", ")+" FROM t WHERE a IN ("+strings.Join(items, ", ")+") ORDER BY last_col")
			}
		}
		if a.Shard == 0 {
			// shapes the model grammar does not draw: rows of different widths, data-modifying CTE bodies, several
			// CASE arms, value-typed nodes (ALTER ... RENAME TO), the tree passed by value
			for _, sql := range []string{
				"INSERT INTO audit (id) VALUES (1), (2, (SELECT secret FROM vault WHERE f(x) = 0)), (3, 4, g(5))",
				"INSERT INTO t (a, b) VALUES (1, 2, 3), (4), (5, h(6), (SELECT k FROM u))",
				"WITH moved AS (DELETE FROM old_orders WHERE created < cutoff(days) RETURNING id, total) INSERT INTO archive (id, total) SELECT id, total FROM moved",
				"WITH up AS (UPDATE t SET a = f(b) WHERE c IN (SELECT d FROM u) RETURNING a), ins AS (INSERT INTO v (x) VALUES (g(1)) RETURNING x) SELECT * FROM up, ins",
				"SELECT CASE WHEN a = f(1) THEN g(2) WHEN b = (SELECT m FROM w1) THEN h(3) WHEN c THEN (SELECT n FROM w2) ELSE k(4) END FROM t",
				"SELECT CASE x WHEN f(1) THEN 1 WHEN g(2) THEN 2 WHEN h(3) THEN 3 END FROM t",
				"ALTER TABLE users RENAME TO customers", "ALTER TABLE s.users RENAME COLUMN a TO b", "ALTER TABLE users ADD COLUMN c INT",
				"SELECT ARRAY[1, f(2), (SELECT z FROM q)] , ARRAY(SELECT y FROM r) FROM t",
				"SELECT department, MODE() WITHIN GROUP (ORDER BY salary, g(bonus)) FROM emp GROUP BY department",
				"SELECT f() FILTER (WHERE a > (SELECT m FROM w)), NOW(), COUNT(*) FILTER (WHERE h(b)) FROM t",
				"SELECT name FROM users UNION SELECT NULL FROM information_schema.tables UNION ALL SELECT name FROM archived EXCEPT SELECT x FROM y",
				"SELECT RANK() OVER (PARTITION BY f(a) ORDER BY g(b)), ROW_NUMBER() OVER () FROM t",
			} {
				c14Tree(a, sql)
			}
		}
		if a.Shard == 1 {
			for _, cc := range C03Catalogue() {
				g := gen.New(rand.New(rand.NewSource(42)), nil)
				c14Tree(a, gen.Plain(cc.Build(g).Toks))
			}
		}
		for i := 0; i < a.N; i++ {
			seed := base + int64(i)*15485863
			g := gen.New(rand.New(rand.NewSource(seed)), avoid)
			x := g.Statement(3)
			sql := gen.Plain(x.Toks)
			c14Tree(a, sql)
			if i == 0 {
				a.Rec.Sample("tree", 1, map[string]string{"sql": trunc(sql, 300)})
			}
		}
	}
	_ = strings.TrimSpace
}
