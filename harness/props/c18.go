package props

import (
	"encoding/json"
	"fmt"
	"github.com/ajitpratap0/GoSQLX/pkg/lsp"
	"math/rand"
	"sort"
	"strings"

	"github.com/ajitpratap0/GoSQLX/pkg/gosqlx"
	"verifharness/mon"
)

func init() {
	Registry["C18"] = &Prop{Level: "exploration", Parent: c18Parent, Child: c18Child}
}

func c18Parent(c *mon.Ctx) {
	c.Rule = "framed JSON-RPC sessions are fed to a real Server over in-memory streams and everything it writes is parsed back: (1) protocol sessions mix well-formed requests (every method, ids of every JSON type, params valid / null / wrong-typed / with negative and huge positions), notifications, unknown methods and malformed bodies; the server must return from Run at EOF without panicking, every outgoing frame must be exactly length-framed JSON, every request must get exactly one response with its own id and no notification any; (2) mirror sessions apply open / incremental and full change / close notifications with ASCII, BMP and astral characters, CRLF, multi-change notifications and positions beyond line and document ends, and Documents().GetContent must equal a reference implementation of the protocol's position rules (UTF-16 units, clamping), with the first diverging edit found by prefix replay; (3) the last publishDiagnostics per document must carry the last version and the errors of the library's recovery parse of the reference text, on the line of the never-legal token that was planted; (4) bursts above the rate limit must still answer every request once and keep the mirror exact; (5) header faults (negative / huge / non-numeric / missing Content-Length, truncated body) at the end of a session must not kill the server. distinct_nontrivial = distinct sessions (by content hash)"
	c.DistinctSet = "sessions"
	c.Assumptions = []string{"ranges whose start lies after their end have no meaning in the protocol and are only used in the crash/answer phase, not in the mirror oracle", "a message with an id but no method is a response in JSON-RPC terms: whether the server answers it is not asserted",
		"header faults are placed last in a session because framing after them is undefined"}
	per := 400
	if c.Tier == "thorough" {
		per = 12000
	}
	sh := shards("plain", "protocol", 6, "-n", fmt.Sprint(per))
	sh = append(sh, shards("plain", "mirror", 6, "-n", fmt.Sprint(per))...)
	sh = append(sh, shards("plain", "diagnostics", 2, "-n", fmt.Sprint(per/2))...)
	sh = append(sh, shards("plain", "burst", 1, "-n", fmt.Sprint(per/20+3))...)
	sh = append(sh, shards("plain", "headers", 1, "-n", fmt.Sprint(per/4))...)
	sh = append(sh, shards("plain", "inject", 1, "-n", fmt.Sprint(per/4))...)
	res := c.RunShards(sh, 16)
	c.ClassifyDeaths(res, "the server keeps running")
}

// ---- session model -------------------------------------------------------------------------

type c18Step struct {
	Kind  string // request notification malformed response-like header-fault
	Label string // method or fault name (for identities)
	Bytes []byte
	ID    string // raw JSON id expected on the response ("" = none expected)
	Maybe bool   // a response is allowed but not required
}

type c18Doc struct {
	text    string
	version int
}

type c18Session struct {
	steps []c18Step
	docs  map[string]*c18Doc // reference mirror
}

func (s *c18Session) input(upto int) []byte {
	var b []byte
	for i := 0; i < upto && i < len(s.steps); i++ {
		b = append(b, s.steps[i].Bytes...)
	}
	return b
}

var c18URIs = []string{"file:///a.sql", "file:///dir/b.sql", "untitled:Untitled-1"}

var c18IDs = []interface{}{1, 0, -5, 2147483648, "abc", "", "ünï-1", 42, 7, 1000000}

func c18RawID(v interface{}) string { return string(lspJSON(v)) }

var c18Texts = []string{
	"SELECT a FROM t",
	"SELECT a,\n  b\nFROM t\nWHERE a = 1;\n",
	"",
	"select 'héllo wörld', \"naïve\" from t -- ünï\n",
	"SELECT '日本語' AS 名前 FROM t;\r\nSELECT 2;\r\n",
	"SELECT '😀😀' || x, 'a𝒳b' FROM t WHERE y = '𐍈'\n-- tail 😀",
	"INSERT INTO t (a) VALUES (1);\n\n\nUPDATE t SET a = 2 WHERE\n",
	"\n\n",
	"SELECT # FROM t",
}

func c18Pos(r *rand.Rand, text string) (int, int) {
	lines := strings.Split(text, "\n")
	switch r.Intn(10) {
	case 0:
		return len(lines) + r.Intn(3), r.Intn(5) // past the last line
	case 1:
		l := r.Intn(len(lines))
		return l, len(lines[l]) + 1 + r.Intn(50) // past the end of the line
	case 2:
		return r.Intn(len(lines)), 1 << 30
	}
	l := r.Intn(len(lines))
	// a UTF-16 column inside the line
	u := 0
	for _, c := range lines[l] {
		if c >= 0x10000 {
			u += 2
		} else {
			u++
		}
	}
	return l, r.Intn(u + 1)
}

func c18Snippet(r *rand.Rand) string {
	return []string{"", "x", " ", "\n", "SELECT 1", "é", "日本", "😀", "a\nb\nc", "\r\n", "'", ";", "-- c\n", "𝒳y", "FROM t WHERE "}[r.Intn(15)]
}

func (s *c18Session) add(st c18Step) { s.steps = append(s.steps, st) }

// c18Reframe rewrites the header of a well-formed frame in another legal spelling (header names are case-insensitive,
// further header fields may be present, in any order).
func c18Reframe(r *rand.Rand, frame []byte) ([]byte, string) {
	i := strings.Index(string(frame), "\r\n\r\n")
	body := frame[i+4:]
	n := len(body)
	switch r.Intn(8) {
	case 5:
		// other headers whose names merely end in the length header's name, before and after it
		return append([]byte(fmt.Sprintf("X-Original-Content-Length: 3\r\nContent-Length: %d\r\nX-Uncompressed-Content-Length: 7\r\n\r\n", n)), body...), "lookalike-headers"
	case 6:
		return append([]byte(fmt.Sprintf("Content-Length: %d\r\nX-Content-Length: 999999\r\n\r\n", n)), body...), "lookalike-header-after"
	case 0:
		return append([]byte(fmt.Sprintf("content-length: %d\r\n\r\n", n)), body...), "lower-case-header"
	case 1:
		return append([]byte(fmt.Sprintf("CONTENT-LENGTH: %d\r\n\r\n", n)), body...), "upper-case-header"
	case 2:
		return append([]byte(fmt.Sprintf("Content-Type: application/vscode-jsonrpc; charset=utf-8\r\nContent-Length: %d\r\n\r\n", n)), body...), "content-type-first"
	case 3:
		return append([]byte(fmt.Sprintf("Content-Length: %d\r\nContent-Type: application/vscode-jsonrpc; charset=utf-8\r\n\r\n", n)), body...), "content-type-after"
	case 4:
		return append([]byte(fmt.Sprintf("Content-Length:%d\r\n\r\n", n)), body...), "no-space-after-colon"
	}
	return frame, ""
}

func (s *c18Session) open(uri, text string, version int) {
	s.add(c18Step{Kind: "notification", Label: "textDocument/didOpen", Bytes: lspNotif("textDocument/didOpen", map[string]interface{}{"textDocument": map[string]interface{}{"uri": uri, "languageId": "sql", "version": version, "text": text}})})
	s.docs[uri] = &c18Doc{text, version}
}

func (s *c18Session) close(uri string) {
	s.add(c18Step{Kind: "notification", Label: "textDocument/didClose", Bytes: lspNotif("textDocument/didClose", map[string]interface{}{"textDocument": map[string]interface{}{"uri": uri}})})
	delete(s.docs, uri)
}

type c18Change struct {
	full           bool
	sl, sc, el, ec int
	text           string
	rl             int // 0: no rangeLength member, 1: consistent value, 2: inconsistent value
}

func (s *c18Session) change(uri string, version int, chs []c18Change, label string) {
	var arr []interface{}
	for _, ch := range chs {
		if ch.full {
			arr = append(arr, map[string]interface{}{"text": ch.text})
		} else {
			ev := map[string]interface{}{"range": map[string]interface{}{"start": map[string]int{"line": ch.sl, "character": ch.sc}, "end": map[string]int{"line": ch.el, "character": ch.ec}}, "text": ch.text}
			// the deprecated rangeLength member (UTF-16 units of the replaced text), as many editors still send it; the
			// range is what counts
			if cur, ok := s.docs[uri]; ok && ch.rl != 0 {
				so, eo := lspOffset(cur.text, ch.sl, ch.sc), lspOffset(cur.text, ch.el, ch.ec)
				if eo < so {
					so, eo = eo, so
				}
				n := 0
				for _, r := range cur.text[so:eo] {
					if r >= 0x10000 {
						n += 2
					} else {
						n++
					}
				}
				if ch.rl == 2 {
					n += 3 // a value that disagrees with the range
				}
				ev["rangeLength"] = n
			}
			arr = append(arr, ev)
		}
	}
	s.add(c18Step{Kind: "notification", Label: label, Bytes: lspNotif("textDocument/didChange", map[string]interface{}{"textDocument": map[string]interface{}{"uri": uri, "version": version}, "contentChanges": arr})})
	if d, ok := s.docs[uri]; ok {
		for _, ch := range chs {
			d.text = lspApply(d.text, ch.full, ch.sl, ch.sc, ch.el, ch.ec, ch.text)
		}
		d.version = version
	}
}

// randomChange draws an edit against the current reference text; ordered ranges only.
func c18RandomChange(r *rand.Rand, text string) (c18Change, string) {
	if r.Intn(8) == 0 {
		return c18Change{full: true, text: c18Texts[r.Intn(len(c18Texts))]}, "full"
	}
	l1, c1 := c18Pos(r, text)
	l2, c2 := c18Pos(r, text)
	if l2 < l1 || l2 == l1 && c2 < c1 {
		l1, c1, l2, c2 = l2, c2, l1, c1
	}
	label := "range"
	lines := strings.Split(text, "\n")
	switch {
	case l1 >= len(lines) || l2 >= len(lines):
		label = "range-past-last-line"
	case c2 > len([]rune(lines[l2]))*2+2 || c1 > len([]rune(lines[l1]))*2+2:
		label = "range-past-line-end"
	}
	nonASCII := false
	for i := 0; i < len(text); i++ {
		if text[i] >= 0x80 {
			nonASCII = true
		}
	}
	if nonASCII && label == "range" {
		label = "range-non-ascii-doc"
	}
	if r.Intn(4) == 0 {
		l2, c2 = l1, c1 // pure insertion
	}
	return c18Change{sl: l1, sc: c1, el: l2, ec: c2, text: c18Snippet(r), rl: []int{0, 1, 1, 2}[r.Intn(4)]}, label
}

// ---- oracles -------------------------------------------------------------------------

// c18CheckSession runs the session and applies the protocol oracles. It returns the session result.
func c18CheckSession(a *ChildArgs, s *c18Session, phase string, mirror bool) *lspSession {
	in := s.input(len(s.steps))
	a.Rec.Count("evaluations", 1)
	a.Rec.Distinct("sessions", fmt.Sprintf("%x", hash64(in)))
	res := lspRun(in)
	a.Rec.Sample(phase, 2, map[string]interface{}{"steps": len(s.steps), "input_bytes": len(in), "frames_written": len(res.Frames), "returned": res.Returned, "first_steps": func() []string {
		var l []string
		for i, st := range s.steps {
			if i < 6 {
				l = append(l, st.Kind+":"+st.Label)
			}
		}
		return l
	}()})
	labels := func() []string {
		var l []string
		for _, st := range s.steps {
			l = append(l, st.Kind+":"+st.Label)
		}
		return l
	}
	wit := map[string]interface{}{"steps": labels(), "input": trunc(string(in), 6000)}
	if res.Panic != "" {
		// find the step that kills it
		culprit := "?"
		for k := 1; k <= len(s.steps); k++ {
			if r2 := lspRun(s.input(k)); r2.Panic != "" {
				culprit = s.steps[k-1].Kind + ":" + s.steps[k-1].Label
				wit["killing_prefix_len"] = k
				break
			}
		}
		a.Rec.Viol("C18/"+phase+"/server-died/"+culprit+"/"+panicClass(res.Panic), "for any sequence of framed messages the server keeps running", "Server.Run panicked: "+trunc(res.Panic, 200), wit)
		return res
	}
	if res.Deadlock != "" {
		culprit := "?"
		for k := 1; k <= len(s.steps); k++ {
			if r2 := lspRun(s.input(k)); r2.Deadlock != "" {
				culprit = s.steps[k-1].Kind + ":" + s.steps[k-1].Label
				wit["blocking_prefix_len"] = k
				break
			}
		}
		a.Rec.Viol("C18/"+phase+"/deadlock/"+culprit, "the server keeps running and answers each request", "the server's goroutine is parked on a lock nobody can release:\n"+trunc(res.Deadlock, 900), wit)
		return res
	}
	if res.Stalled {
		a.Rec.Inconclusive("C18/"+phase+"/stalled", "a session did not return within the watchdog and is not parked on a lock")
		return res
	}
	if !res.Returned {
		a.Rec.Viol("C18/"+phase+"/run-did-not-return", "the server keeps running", "Run did not return at EOF", wit)
		return res
	}
	if res.FrameErr != "" {
		a.Rec.Viol("C18/"+phase+"/framing", "frames every outgoing message with its exact byte length", res.FrameErr, wit)
		return res
	}
	// responses: exactly one per request id
	got := map[string]int{}
	for _, f := range res.Frames {
		if f.HasID && f.Method == "" {
			got[f.ID]++
		}
		if f.HasID && f.Method != "" {
			a.Rec.Viol("C18/"+phase+"/server-request", "sends exactly one response per request and none for notifications", "server sent a request of its own: "+f.Method, wit)
		}
	}
	want := map[string]int{}
	maybe := map[string]bool{}
	lab := map[string]string{}
	for _, st := range s.steps {
		if st.ID != "" {
			if st.Maybe {
				maybe[st.ID] = true
			} else {
				want[st.ID]++
			}
			lab[st.ID] = st.Label
		}
	}
	for id, n := range want {
		if got[id] != n && !(maybe[id] && got[id] >= n) {
			cls := "missing"
			if got[id] > n {
				cls = "duplicated"
			}
			a.Rec.Viol("C18/"+phase+"/response-"+cls+"/"+lab[id], "exactly one response carrying the request's id for each request", fmt.Sprintf("id %s (%s): %d responses for %d requests", id, lab[id], got[id], n), wit)
		}
	}
	for id, n := range got {
		// a message whose standing as a request is doubtful (an id without a method, a broken params member) may be
		// answered or not, but nothing is ever answered twice
		if maybe[id] && want[id] == 0 && n > 1 {
			a.Rec.Viol("C18/"+phase+"/response-duplicated/"+lab[id], "exactly one response carrying the request's id for each request", fmt.Sprintf("id %s (%s): %d responses for one message", id, lab[id], n), wit)
		}
		if want[id] == 0 && !maybe[id] {
			a.Rec.Viol("C18/"+phase+"/response-unsolicited", "no response for notifications", fmt.Sprintf("%d responses with id %s that no request carried", n, id), wit)
		}
	}
	if mirror {
		c18CheckMirror(a, s, res, phase, wit)
	}
	return res
}

func c18CheckMirror(a *ChildArgs, s *c18Session, res *lspSession, phase string, wit map[string]interface{}) {
	dm := res.Server.Documents()
	bad := ""
	for _, uri := range c18URIs {
		got, ok := dm.GetContent(uri)
		d, open := s.docs[uri]
		if ok != open {
			bad = fmt.Sprintf("%s: server has document=%v, reference=%v", uri, ok, open)
			break
		}
		if open && got != d.text {
			bad = fmt.Sprintf("%s: %s", uri, firstDiff(d.text, got))
			break
		}
	}
	if bad == "" {
		return
	}
	// prefix replay: first notification after which the mirror differs
	culprit := "?"
	ref := &c18Session{docs: map[string]*c18Doc{}}
	_ = ref
	for k := 1; k <= len(s.steps); k++ {
		r2 := lspRun(s.input(k))
		if r2.Panic != "" {
			break
		}
		// rebuild the reference up to k by re-parsing our own notifications
		docs := c18Replay(s.steps[:k])
		diff := false
		for _, uri := range c18URIs {
			got, ok := r2.Server.Documents().GetContent(uri)
			d, open := docs[uri]
			if ok != open || (open && got != d) {
				diff = true
			}
		}
		if diff {
			culprit = s.steps[k-1].Label
			wit["first_diverging_step"] = k
			wit["step"] = trunc(string(s.steps[k-1].Bytes), 600)
			break
		}
	}
	a.Rec.Viol("C18/"+phase+"/mirror/"+culprit, "its copy of each document equals the text obtained by applying those edits under the protocol's position rules", bad, wit)
}

// c18Replay recomputes the reference mirror from the bytes of our own well-formed sync notifications.
func c18Replay(steps []c18Step) map[string]string {
	docs := map[string]string{}
	for _, st := range steps {
		if st.Kind != "notification" {
			continue
		}
		i := strings.Index(string(st.Bytes), "\r\n\r\n")
		var m struct {
			Method string
			Params struct {
				TextDocument struct {
					URI  string
					Text *string
				}
				ContentChanges []struct {
					Range *struct{ Start, End struct{ Line, Character int } }
					Text  string
				}
			}
		}
		if json.Unmarshal(st.Bytes[i+4:], &m) != nil {
			continue
		}
		switch m.Method {
		case "textDocument/didOpen":
			if m.Params.TextDocument.Text != nil {
				docs[m.Params.TextDocument.URI] = *m.Params.TextDocument.Text
			}
		case "textDocument/didClose":
			delete(docs, m.Params.TextDocument.URI)
		case "textDocument/didChange":
			t, ok := docs[m.Params.TextDocument.URI]
			if !ok {
				continue
			}
			for _, ch := range m.Params.ContentChanges {
				if ch.Range == nil {
					t = ch.Text
				} else {
					t = lspApply(t, false, ch.Range.Start.Line, ch.Range.Start.Character, ch.Range.End.Line, ch.Range.End.Character, ch.Text)
				}
			}
			docs[m.Params.TextDocument.URI] = t
		}
	}
	return docs
}

func panicClass(p string) string {
	p = quotedRe.ReplaceAllString(p, "_")
	p = strings.NewReplacer("[", "", "]", "", ":", "").Replace(p)
	if len(p) > 50 {
		p = p[:50]
	}
	return strings.TrimSpace(p)
}

func hash64(b []byte) uint64 {
	var h uint64 = 1469598103934665603
	for _, c := range b {
		h ^= uint64(c)
		h *= 1099511628211
	}
	return h
}

// ---- request catalogue -------------------------------------------------------------------------

func c18Request(r *rand.Rand, idn *int, docs map[string]*c18Doc) c18Step {
	methods := []string{"textDocument/hover", "textDocument/completion", "textDocument/formatting", "textDocument/documentSymbol", "textDocument/signatureHelp", "textDocument/codeAction", "initialize", "workspace/unknownMethod", "textDocument/definition", "$/cancelRequest"}
	m := methods[r.Intn(len(methods))]
	uri := c18URIs[r.Intn(len(c18URIs))]
	text := ""
	if d, ok := docs[uri]; ok {
		text = d.text
	}
	l, c := c18Pos(r, text)
	switch r.Intn(12) {
	case 0:
		l = -1 - r.Intn(5)
	case 1:
		c = -1 - r.Intn(5)
	case 2:
		l, c = 1<<31-1, 1<<31-1
	}
	var params interface{}
	td := map[string]interface{}{"uri": uri}
	switch m {
	case "textDocument/hover", "textDocument/completion", "textDocument/signatureHelp", "textDocument/definition":
		params = map[string]interface{}{"textDocument": td, "position": map[string]int{"line": l, "character": c}}
	case "textDocument/formatting":
		params = map[string]interface{}{"textDocument": td, "options": map[string]interface{}{"tabSize": []int{r.Intn(9) - 1, 4, 1 << 31, 1 << 40, 1<<62 + 1, 100000}[r.Intn(6)], "insertSpaces": r.Intn(3) != 0, "insertFinalNewline": r.Intn(2) == 0}}
	case "textDocument/documentSymbol":
		params = map[string]interface{}{"textDocument": td}
	case "textDocument/codeAction":
		l2, c2 := c18Pos(r, text)
		rng := map[string]interface{}{"start": map[string]int{"line": l, "character": c}, "end": map[string]int{"line": l2, "character": c2}}
		params = map[string]interface{}{"textDocument": td, "range": rng, "context": map[string]interface{}{"diagnostics": []interface{}{map[string]interface{}{"range": rng, "message": []string{"expected semicolon", "unexpected token", "unknown column x", "expected FROM", "", "keyword should be uppercase", "unexpected keyword select", "expected ; got keyword"}[r.Intn(8)], "severity": 1}}}}
	case "initialize":
		params = map[string]interface{}{"processId": 1, "rootUri": "file:///", "capabilities": map[string]interface{}{}}
	default:
		params = map[string]interface{}{"x": 1}
	}
	// parameter corruption
	label := m
	switch r.Intn(14) {
	case 0:
		params = nil
		label += "#no-params"
	case 1:
		params = []interface{}{1, 2}
		label += "#array-params"
	case 2:
		params = "str"
		label += "#string-params"
	case 3:
		params = map[string]interface{}{"textDocument": "notanobject", "position": 5}
		label += "#wrong-types"
	case 4:
		params = map[string]interface{}{"textDocument": map[string]interface{}{"uri": 5}, "position": map[string]interface{}{"line": "x"}}
		label += "#wrong-leaf-types"
	case 5:
		params = map[string]interface{}{}
		label += "#empty-params"
	}
	*idn++
	var id interface{} = *idn
	if r.Intn(6) == 0 {
		id = fmt.Sprintf("s-%d", *idn)
	}
	return c18Step{Kind: "request", Label: label, ID: c18RawID(id), Bytes: lspReq(id, m, params)}
}

func c18Malformed(r *rand.Rand, idn *int) c18Step {
	*idn++
	id := *idn
	bodies := []struct {
		name, body string
		resp       int // 0 none, 1 required, 2 maybe
	}{
		{"not-json", "{this is not json", 0},
		{"json-array", "[1,2,3]", 0},
		{"json-number", "42", 0},
		{"json-string", "\"hello\"", 0},
		{"json-null", "null", 0},
		{"empty-object", "{}", 0},
		{"batch", fmt.Sprintf("[{\"jsonrpc\":\"2.0\",\"id\":%d,\"method\":\"shutdown\"}]", id), 2},
		{"id-without-method", fmt.Sprintf("{\"jsonrpc\":\"2.0\",\"id\":%d}", id), 2},
		{"id-and-result", fmt.Sprintf("{\"jsonrpc\":\"2.0\",\"id\":%d,\"result\":null}", id), 2},
		{"method-not-string", fmt.Sprintf("{\"jsonrpc\":\"2.0\",\"id\":%d,\"method\":5}", id), 2},
		{"params-broken-json", fmt.Sprintf("{\"jsonrpc\":\"2.0\",\"id\":%d,\"method\":\"textDocument/hover\",\"params\":{\"a\":}}", id), 2},
		{"no-jsonrpc-field", fmt.Sprintf("{\"id\":%d,\"method\":\"textDocument/documentSymbol\",\"params\":{\"textDocument\":{\"uri\":\"file:///a.sql\"}}}", id), 1},
		{"notification-unknown", "{\"jsonrpc\":\"2.0\",\"method\":\"$/unknown\",\"params\":[1]}", 0},
		{"notification-bad-params", "{\"jsonrpc\":\"2.0\",\"method\":\"textDocument/didChange\",\"params\":{\"textDocument\":5}}", 0},
		{"notification-no-params", "{\"jsonrpc\":\"2.0\",\"method\":\"textDocument/didOpen\"}", 0},
		{"didchange-unopened", "{\"jsonrpc\":\"2.0\",\"method\":\"textDocument/didChange\",\"params\":{\"textDocument\":{\"uri\":\"file:///never.sql\",\"version\":3},\"contentChanges\":[{\"text\":\"x\"}]}}", 0},
		{"id-null", "{\"jsonrpc\":\"2.0\",\"id\":null,\"method\":\"textDocument/documentSymbol\",\"params\":{\"textDocument\":{\"uri\":\"file:///a.sql\"}}}", 0},
		{"single-byte", "{", 0},
		{"utf8-bom", "\xef\xbb\xbf{}", 0},
		{"deep-nesting", strings.Repeat("[", 3000) + strings.Repeat("]", 3000), 0},
	}
	b := bodies[r.Intn(len(bodies))]
	st := c18Step{Kind: "malformed", Label: b.name, Bytes: lspFrameMsg([]byte(b.body))}
	switch b.resp {
	case 1:
		st.ID = fmt.Sprint(id)
	case 2:
		st.ID, st.Maybe = fmt.Sprint(id), true
	}
	return st
}

// ---- phases -------------------------------------------------------------------------

func c18Child(a *ChildArgs) {
	base := a.Seed*7919 + int64(a.Shard)*104729
	switch a.Phase {
	case "protocol":
		// fixed: every id type on a plain request
		if a.Shard == 0 {
			for _, id := range append(c18IDs, 9007199254740993, 1.5) {
				s := &c18Session{docs: map[string]*c18Doc{}}
				s.add(c18Step{Kind: "request", Label: "id:" + c18RawID(id), ID: c18RawID(id), Bytes: lspReq(id, "initialize", map[string]interface{}{})})
				s.add(c18Step{Kind: "request", Label: "id:" + c18RawID(id), ID: c18RawID(id), Bytes: lspReq(id, "no/such/method", nil)})
				s.steps[1].ID = ""
				s.steps[0].ID = ""
				// both carry the same id: two responses expected
				s.steps[0].ID, s.steps[1].ID = c18RawID(id), c18RawID(id)
				c18CheckSession(a, s, "protocol-ids", false)
			}
		}
		for i := 0; i < a.N; i++ {
			r := rand.New(rand.NewSource(base + int64(i)*15485863))
			s := &c18Session{docs: map[string]*c18Doc{}}
			idn := 100
			n := 3 + r.Intn(40)
			ver := 1
			for k := 0; k < n; k++ {
				switch c := r.Intn(20); {
				case c < 8:
					st := c18Request(r, &idn, s.docs)
					if r.Intn(4) == 0 {
						var how string
						st.Bytes, how = c18Reframe(r, st.Bytes)
						if how != "" {
							st.Label += "@" + how
						}
					}
					s.add(st)
				case c < 11:
					uri := c18URIs[r.Intn(len(c18URIs))]
					ver++
					s.open(uri, c18Texts[r.Intn(len(c18Texts))], ver)
				case c < 15:
					uri := c18URIs[r.Intn(len(c18URIs))]
					text := ""
					if d, ok := s.docs[uri]; ok {
						text = d.text
					}
					ch, label := c18RandomChange(r, text)
					if r.Intn(6) == 0 {
						// hostile: inverted or negative range (not part of the mirror oracle)
						ch.sl, ch.el = ch.el+1+r.Intn(3), ch.sl
						if r.Intn(2) == 0 {
							ch.sc = -1 - r.Intn(3)
						}
						label = "range-inverted-or-negative"
					}
					ver++
					s.change(uri, ver, []c18Change{ch}, "textDocument/didChange:"+label)
				case c < 16:
					s.close(c18URIs[r.Intn(len(c18URIs))])
				case c < 17:
					s.add(c18Step{Kind: "notification", Label: "textDocument/didSave", Bytes: lspNotif("textDocument/didSave", map[string]interface{}{"textDocument": map[string]interface{}{"uri": c18URIs[r.Intn(3)]}})})
				default:
					s.add(c18Malformed(r, &idn))
				}
			}
			if r.Intn(3) == 0 {
				idn++
				s.add(c18Step{Kind: "request", Label: "shutdown", ID: fmt.Sprint(idn), Bytes: lspReq(idn, "shutdown", nil)})
				s.add(c18Step{Kind: "notification", Label: "exit", Bytes: lspNotif("exit", nil)})
			}
			c18CheckSession(a, s, "protocol", false)
		}
	case "mirror":
		for i := 0; i < a.N; i++ {
			r := rand.New(rand.NewSource(base + int64(i)*15485863))
			s := &c18Session{docs: map[string]*c18Doc{}}
			ver := 0
			n := 2 + r.Intn(25)
			uri0 := c18URIs[r.Intn(3)]
			ver++
			s.open(uri0, c18Texts[r.Intn(len(c18Texts))], ver)
			for k := 0; k < n; k++ {
				uri := c18URIs[r.Intn(len(c18URIs))]
				if r.Intn(3) != 0 {
					uri = uri0
				}
				switch c := r.Intn(20); {
				case c < 2:
					ver++
					s.open(uri, c18Texts[r.Intn(len(c18Texts))], ver)
				case c < 3:
					s.close(uri)
				default:
					text := ""
					if d, ok := s.docs[uri]; ok {
						text = d.text
					}
					nch := 1
					if r.Intn(5) == 0 {
						nch = 2 + r.Intn(3)
					}
					var chs []c18Change
					label := ""
					cur := text
					for j := 0; j < nch; j++ {
						ch, l := c18RandomChange(r, cur)
						cur = lspApply(cur, ch.full, ch.sl, ch.sc, ch.el, ch.ec, ch.text)
						chs = append(chs, ch)
						if label == "" || l != "range" {
							label = l
						}
					}
					if nch > 1 {
						label = "multi-" + label
					}
					ver++
					s.change(uri, ver, chs, "didChange:"+label)
				}
			}
			c18CheckSession(a, s, "mirror", true)
		}
	case "diagnostics":
		for i := 0; i < a.N; i++ {
			r := rand.New(rand.NewSource(base + int64(i)*15485863))
			c18Diagnostics(a, r)
			c18LexDiagnostics(a, r)
			if i%8 == 0 {
				c18SaveOnlyThenClose(a, r)
			}
		}
	case "burst":
		for i := 0; i < a.N; i++ {
			r := rand.New(rand.NewSource(base + int64(i)*15485863))
			s := &c18Session{docs: map[string]*c18Doc{}}
			idn := 0
			ver := 1
			s.open(c18URIs[0], "SELECT 1", ver)
			n := 150 + r.Intn(200)
			for k := 0; k < n; k++ {
				if r.Intn(2) == 0 {
					idn++
					s.add(c18Step{Kind: "request", Label: "burst-request", ID: fmt.Sprint(idn), Bytes: lspReq(idn, "textDocument/documentSymbol", map[string]interface{}{"textDocument": map[string]interface{}{"uri": c18URIs[0]}})})
				} else {
					ver++
					ch, _ := c18RandomChange(r, s.docs[c18URIs[0]].text)
					s.change(c18URIs[0], ver, []c18Change{ch}, "didChange:burst")
				}
			}
			c18CheckSession(a, s, "burst", true)
		}
	case "inject":
		// fault injection through the verif hook: a handler that panics must cost exactly its own request
		lsp.VerifHandlerHook = func(method string) {
			if strings.HasPrefix(method, "verif/panic") {
				panic("injected fault in handler of " + method)
			}
		}
		for i := 0; i < a.N; i++ {
			r := rand.New(rand.NewSource(base + int64(i)*15485863))
			s := &c18Session{docs: map[string]*c18Doc{}}
			idn := 0
			s.open(c18URIs[0], c18Texts[r.Intn(len(c18Texts))], 1)
			n := 2 + r.Intn(10)
			for k := 0; k < n; k++ {
				switch r.Intn(4) {
				case 0:
					idn++
					s.add(c18Step{Kind: "request", Label: "verif/panicRequest", ID: fmt.Sprint(idn), Bytes: lspReq(idn, "verif/panicRequest", map[string]int{"k": k})})
				case 1:
					s.add(c18Step{Kind: "notification", Label: "verif/panicNotification", Bytes: lspNotif("verif/panicNotification", nil)})
				case 2:
					s.add(c18Request(r, &idn, s.docs))
				default:
					ch, label := c18RandomChange(r, s.docs[c18URIs[0]].text)
					s.change(c18URIs[0], 2+k, []c18Change{ch}, "didChange:"+label)
				}
			}
			idn++
			s.add(c18Step{Kind: "request", Label: "after-faults", ID: fmt.Sprint(idn), Bytes: lspReq(idn, "textDocument/documentSymbol", map[string]interface{}{"textDocument": map[string]interface{}{"uri": c18URIs[0]}})})
			c18CheckSession(a, s, "inject", true)
		}
		lsp.VerifHandlerHook = nil
	case "headers":
		faults := []struct{ name, raw string }{
			{"negative-length", "Content-Length: -1\r\n\r\n{}"},
			{"negative-length-big", "Content-Length: -9223372036854775808\r\n\r\n"},
			{"huge-length", "Content-Length: 99999999999\r\n\r\n{}"},
			{"over-limit-length", "Content-Length: 10485761\r\n\r\n{}"},
			{"non-numeric-length", "Content-Length: abc\r\n\r\n{}"},
			{"missing-length", "Content-Type: application/json\r\n\r\n{}"},
			{"zero-length", "Content-Length: 0\r\n\r\n"},
			{"truncated-body", "Content-Length: 50\r\n\r\n{\"jsonrpc\":\"2.0\""},
			{"truncated-header", "Content-Len"},
			{"header-only-eof", "Content-Length: 10\r\n"},
			{"lf-only-headers", "Content-Length: 2\n\n{}"},
			{"two-length-headers", "Content-Length: 2\r\nContent-Length: 2\r\n\r\n{}"},
			{"length-with-spaces", "Content-Length:    2   \r\n\r\n{}"},
			{"plus-sign-length", "Content-Length: +2\r\n\r\n{}"},
			{"binary-garbage", "\x00\x01\x02\xff\xfe\r\n\r\n"},
			{"long-header-line", "X-Pad: " + strings.Repeat("a", 70000) + "\r\nContent-Length: 2\r\n\r\n{}"},
			// the body left in the stream mentions the header's name itself (document text, a comment, a string)
			{"non-numeric-length-body-names-header", "Content-Length: abc\r\n\r\n{\"note\":\"Content-Length: 12\"}"},
			{"negative-length-body-names-header", "Content-Length: -1\r\n\r\n{\"text\":\"SELECT 1 -- Content-Length: x\"}"},
			{"missing-length-body-names-header", "Content-Type: application/json\r\n\r\n{\"a\":\"content-length: 3\",\"b\":\"Content-Length:\"}"},
			{"over-limit-length-body-names-header", "Content-Length: 10485761\r\n\r\nContent-Length: 7 Content-Length: 9 "},
		}
		for i := 0; i < a.N; i++ {
			r := rand.New(rand.NewSource(base + int64(i)*15485863))
			s := &c18Session{docs: map[string]*c18Doc{}}
			idn := 0
			s.open(c18URIs[0], c18Texts[r.Intn(len(c18Texts))], 1)
			for k := 0; k < r.Intn(4); k++ {
				s.add(c18Request(r, &idn, s.docs))
			}
			f := faults[i%len(faults)]
			s.add(c18Step{Kind: "header-fault", Label: f.name, Bytes: []byte(f.raw)})
			// a message whose header cannot be used but whose extent is evident (complete header block, short body in
			// place) must not cost the rest of the session: the requests after it are answered like any other
			switch f.name {
			case "negative-length", "huge-length", "over-limit-length", "non-numeric-length", "missing-length", "two-length-headers", "length-with-spaces", "plus-sign-length", "long-header-line",
				"non-numeric-length-body-names-header", "negative-length-body-names-header", "missing-length-body-names-header", "over-limit-length-body-names-header":
				for k := 0; k < 2+r.Intn(2); k++ {
					st := c18Request(r, &idn, s.docs)
					st.Label += "@after-" + f.name
					s.add(st)
				}
			}
			c18CheckSession(a, s, "headers", true)
		}
		// many unusable headers spread over one session: each costs the message it belongs to and nothing else
		if a.Shard == 0 {
			r := rand.New(rand.NewSource(base + 4242))
			rec := []int{0, 2, 3, 4, 5}
			for _, rounds := range []int{6, 12, 25} {
				s := &c18Session{docs: map[string]*c18Doc{}}
				idn := 0
				s.open(c18URIs[0], c18Texts[r.Intn(len(c18Texts))], 1)
				for k := 0; k < rounds; k++ {
					f := faults[rec[k%len(rec)]]
					s.add(c18Step{Kind: "header-fault", Label: f.name, Bytes: []byte(f.raw)})
					for j := 0; j < 2; j++ {
						st := c18Request(r, &idn, s.docs)
						st.Label += fmt.Sprintf("@after-%d-faults", k+1)
						s.add(st)
					}
				}
				c18CheckSession(a, s, "headers-many", true)
			}
		}
	}
}

// c18Diagnostics: documents with a never-legal token planted on a known line.
func c18Diagnostics(a *ChildArgs, r *rand.Rand) {
	stmts := []string{"SELECT a FROM t", "UPDATE t SET a = 1 WHERE b = 2", "DELETE FROM t WHERE x > 1", "INSERT INTO t (a, b) VALUES (1, 2)", "SELECT a, b FROM t JOIN u ON t.id = u.id WHERE a IN (1, 2)"}
	nst := 1 + r.Intn(5)
	bad := map[int]bool{}
	var sb strings.Builder
	line := 0
	var badLines []int
	for k := 0; k < nst; k++ {
		words := strings.Fields(stmts[r.Intn(len(stmts))])
		isBad := r.Intn(2) == 0
		at := 1 + r.Intn(len(words)-1)
		for w, word := range words {
			if isBad && w == at {
				badLines = append(badLines, line)
				sb.WriteString("# ")
				bad[k] = true
			}
			sb.WriteString(word)
			if w < len(words)-1 {
				if r.Intn(3) == 0 {
					sb.WriteString("\n  ")
					line++
				} else {
					sb.WriteString(" ")
				}
			}
		}
		sb.WriteString(";\n")
		line++
		if r.Intn(3) == 0 {
			sb.WriteString("-- comment ünï\n\n")
			line += 2
		}
	}
	text := sb.String()
	s := &c18Session{docs: map[string]*c18Doc{}}
	uri := c18URIs[0]
	// open with something else, then replace by full change at a later version so that "last version" matters
	s.open(uri, "SELECT 1", 1)
	ver := 2 + r.Intn(5)
	s.change(uri, ver, []c18Change{{full: true, text: text}}, "didChange:full")
	// a save after the change (without text, or carrying the same text) re-validates: what is published last must
	// still be the diagnostics of the mirrored text at the document's version
	saveKind := r.Intn(3)
	// a change notification that only moves the version on (no content changes), as editors send it
	if r.Intn(3) == 0 {
		ver += 1 + r.Intn(3)
		s.add(c18Step{Kind: "notification", Label: "textDocument/didChange:version-only", Bytes: lspNotif("textDocument/didChange", map[string]interface{}{"textDocument": map[string]interface{}{"uri": uri, "version": ver}, "contentChanges": []interface{}{}})})
		if d, ok := s.docs[uri]; ok {
			d.version = ver
		}
		if saveKind == 0 {
			saveKind = 1
		}
	}
	switch saveKind {
	case 1:
		s.add(c18Step{Kind: "notification", Label: "textDocument/didSave", Bytes: lspNotif("textDocument/didSave", map[string]interface{}{"textDocument": map[string]interface{}{"uri": uri}})})
	case 2:
		s.add(c18Step{Kind: "notification", Label: "textDocument/didSave+text", Bytes: lspNotif("textDocument/didSave", map[string]interface{}{"textDocument": map[string]interface{}{"uri": uri}, "text": text})})
	}
	res := c18CheckSession(a, s, "diagnostics", true)
	if res.Panic != "" || res.FrameErr != "" {
		return
	}
	wit := map[string]interface{}{"text": text, "bad_lines_0based": badLines, "save": []string{"none", "didSave", "didSave with text"}[saveKind]}
	var last *lspFrame
	for i := range res.Frames {
		f := &res.Frames[i]
		if f.Method == "textDocument/publishDiagnostics" {
			var p struct{ URI string }
			json.Unmarshal(f.Params, &p)
			if p.URI == uri {
				last = f
			}
		}
	}
	if last == nil {
		a.Rec.Viol("C18/diagnostics/none-published", "the diagnostics it last published are those of that text and version", "no publishDiagnostics for the document", wit)
		return
	}
	var p struct {
		Version     int
		Diagnostics []struct {
			Range   struct{ Start, End struct{ Line, Character int } }
			Message string
		}
	}
	json.Unmarshal(last.Params, &p)
	if p.Version != ver {
		a.Rec.Viol("C18/diagnostics/version/"+[]string{"after-change", "after-save", "after-save-with-text"}[saveKind], "the diagnostics it last published are those of that text and version", fmt.Sprintf("last published version %d, document version %d", p.Version, ver), wit)
	}
	_, errs := gosqlx.ParseWithRecovery(text)
	if len(errs) != len(p.Diagnostics) {
		a.Rec.Viol("C18/diagnostics/count", "the diagnostics it last published are those of that text", fmt.Sprintf("%d diagnostics published, the library's recovery parse of the text reports %d errors", len(p.Diagnostics), len(errs)), wit)
	}
	nl := strings.Count(text, "\n") + 1
	var gotLines []int
	for _, d := range p.Diagnostics {
		gotLines = append(gotLines, d.Range.Start.Line)
		if d.Range.Start.Line < 0 || d.Range.Start.Line >= nl || d.Range.End.Line < d.Range.Start.Line {
			a.Rec.Viol("C18/diagnostics/range-outside", "each anchored on the line of the token that caused it", fmt.Sprintf("diagnostic range starts on line %d of a %d-line document", d.Range.Start.Line, nl), wit)
		}
	}
	// the same text and version again after a close (and once more without one): what was last published must
	// still be the diagnostics of the text that is open now
	for _, withClose := range []bool{true, false} {
		s2 := &c18Session{docs: map[string]*c18Doc{}}
		s2.open(uri, text, ver)
		if withClose {
			s2.close(uri)
		}
		s2.open(uri, text, ver)
		res2 := c18CheckSession(a, s2, "diagnostics-reopen", true)
		if res2.Panic != "" || res2.FrameErr != "" {
			continue
		}
		n := -1
		for i := range res2.Frames {
			f := &res2.Frames[i]
			if f.Method == "textDocument/publishDiagnostics" {
				var pp struct {
					URI         string
					Diagnostics []json.RawMessage
				}
				json.Unmarshal(f.Params, &pp)
				if pp.URI == uri {
					n = len(pp.Diagnostics)
				}
			}
		}
		if n != len(errs) {
			a.Rec.Viol(fmt.Sprintf("C18/diagnostics/reopen-close=%v/count", withClose), "the diagnostics it last published are those of that text and version",
				fmt.Sprintf("after open%s open of the same text and version the last publication carries %d diagnostics, the text has %d errors", map[bool]string{true: ", close,", false: ","}[withClose], n, len(errs)), wit)
		}
	}
	sort.Ints(gotLines)
	sort.Ints(badLines)
	if len(errs) == len(badLines) && len(gotLines) == len(badLines) {
		for i := range badLines {
			if gotLines[i] != badLines[i] {
				a.Rec.Viol("C18/diagnostics/line", "each anchored on the line of the token that caused it", fmt.Sprintf("never-legal tokens are on lines %v (0-based), diagnostics on lines %v", badLines, gotLines), wit)
				break
			}
		}
	} else {
		a.Rec.Count("diag_count_mismatch_with_plant", 1)
	}
}

// c18LexDiagnostics: a document the tokenizer rejects (one diagnostic) whose other lines hold text that looks like a
// position (array slices, bracketed pairs, "line N, column M" in comments and strings): the diagnostic is anchored on
// the line of the ill-formed lexeme.
func c18LexDiagnostics(a *ChildArgs, r *rand.Rand) {
	good := []string{"SELECT tags[1:2] FROM posts;", "SELECT a[2:3], b[1:1] FROM t;", "SELECT a FROM t; -- see [4:7]", "SELECT 'line 9, column 4' FROM t;", "-- at line 1, column 1", "SELECT a FROM t WHERE b = '[1:1]';",
		"/* position 3 */ SELECT 1;", "SELECT a FROM t;", "", "SELECT x[7:9] FROM t WHERE y = 'position 0';", "UPDATE t SET a = b[1:5];"}
	bads := []string{"SELECT 'draft FROM posts", "SELECT \"name FROM t", "SELECT `name FROM t", "SELECT a \x01 FROM t", "SELECT a /* never closed", "SELECT $tag$ open"}
	var lines []string
	n := 1 + r.Intn(5)
	for k := 0; k < n; k++ {
		lines = append(lines, good[r.Intn(len(good))])
	}
	badLine := len(lines)
	lines = append(lines, bads[r.Intn(len(bads))])
	text := strings.Join(lines, "\n")
	if _, err := gosqlx.Parse(text); err == nil {
		return
	}
	if tk := mustTokenizer(); true {
		if _, err := tk.Tokenize([]byte(text)); err == nil {
			return // not a lexical failure after all
		}
	}
	s := &c18Session{docs: map[string]*c18Doc{}}
	uri := c18URIs[0]
	how := r.Intn(3)
	switch how {
	case 0:
		s.open(uri, text, 1)
	case 1:
		s.open(uri, "SELECT 1", 1)
		s.change(uri, 2, []c18Change{{full: true, text: text}}, "didChange:full")
	default:
		// everything but the last byte, then the last byte as an incremental edit at the end
		s.open(uri, text[:len(text)-1], 1)
		ll := lines[len(lines)-1]
		u := 0
		for _, c := range ll[:len(ll)-1] {
			if c >= 0x10000 {
				u += 2
			} else {
				u++
			}
		}
		s.change(uri, 2, []c18Change{{sl: badLine, sc: u, el: badLine, ec: u, text: text[len(text)-1:]}}, "didChange:append")
	}
	res := c18CheckSession(a, s, "diagnostics-lexical", true)
	if res.Panic != "" || res.FrameErr != "" {
		return
	}
	wit := map[string]interface{}{"text": text, "bad_line_0based": badLine, "how": []string{"didOpen", "full change", "incremental change"}[how]}
	var last *lspFrame
	for i := range res.Frames {
		f := &res.Frames[i]
		if f.Method == "textDocument/publishDiagnostics" {
			last = f
		}
	}
	if last == nil {
		return
	}
	var p struct {
		Diagnostics []struct {
			Range   struct{ Start, End struct{ Line, Character int } }
			Message string
		}
	}
	json.Unmarshal(last.Params, &p)
	if len(p.Diagnostics) != 1 {
		a.Rec.Count("lex_diag_count_not_one", 1)
		return
	}
	a.Rec.Count("evaluations", 1)
	a.Rec.Distinct("cases", "lex-diagnostic/"+text)
	// the unterminated lexeme starts on the last line (a never-closed comment or string may be reported where it opens: same line here)
	if got := p.Diagnostics[0].Range.Start.Line; got != badLine {
		a.Rec.Viol("C18/diagnostics/lexical-line", "each anchored on the line of the token that caused it", fmt.Sprintf("the ill-formed lexeme is on line %d (0-based), the diagnostic on line %d: %s", badLine, got, p.Diagnostics[0].Message), wit)
	}
}

// c18SaveOnlyThenClose: text that reaches the server only through didSave (the document was never opened, or was
// closed before) gets diagnostics; once the client closes that URI, nothing stale may remain published for it.
func c18SaveOnlyThenClose(a *ChildArgs, r *rand.Rand) {
	uri := c18URIs[1+r.Intn(2)]
	bad := []string{"SELECT FROM", "SELECT a FROM t WHERE", "UPDATE SET", "SELECT 'open"}[r.Intn(4)]
	s := &c18Session{docs: map[string]*c18Doc{}}
	if r.Intn(2) == 0 {
		// opened and closed earlier
		s.open(uri, "SELECT 1", 1)
		s.close(uri)
	}
	s.add(c18Step{Kind: "notification", Label: "textDocument/didSave+text@unopened", Bytes: lspNotif("textDocument/didSave", map[string]interface{}{"textDocument": map[string]interface{}{"uri": uri}, "text": bad})})
	s.add(c18Step{Kind: "notification", Label: "textDocument/didClose@unopened", Bytes: lspNotif("textDocument/didClose", map[string]interface{}{"textDocument": map[string]interface{}{"uri": uri}})})
	res := c18CheckSession(a, s, "save-only-close", true)
	if res.Panic != "" || res.FrameErr != "" {
		return
	}
	a.Rec.Count("evaluations", 1)
	published, last := 0, -1
	for i := range res.Frames {
		f := &res.Frames[i]
		if f.Method == "textDocument/publishDiagnostics" {
			var p struct {
				URI         string
				Diagnostics []json.RawMessage
			}
			json.Unmarshal(f.Params, &p)
			if p.URI == uri {
				published++
				last = len(p.Diagnostics)
			}
		}
	}
	if published > 0 && last > 0 {
		a.Rec.Viol("C18/diagnostics/stale-after-close", "the diagnostics it last published are those of that text and version",
			fmt.Sprintf("after didClose the last publication for the URI still carries %d diagnostics (of text the server saw in a didSave only)", last), map[string]interface{}{"uri": uri, "saved_text": bad})
	}
}
