package props

import (
	"context"
	"fmt"
	"math/rand"
	"reflect"
	"runtime"
	"runtime/debug"
	"sort"
	"strings"
	"time"

	"github.com/ajitpratap0/GoSQLX/pkg/gosqlx"
	"github.com/ajitpratap0/GoSQLX/pkg/models"
	textsec "github.com/ajitpratap0/GoSQLX/pkg/security"
	"github.com/ajitpratap0/GoSQLX/pkg/sql/ast"
	"github.com/ajitpratap0/GoSQLX/pkg/sql/parser"
	"github.com/ajitpratap0/GoSQLX/pkg/sql/security"
	"github.com/ajitpratap0/GoSQLX/pkg/sql/tokenizer"
	"github.com/ajitpratap0/GoSQLX/pkg/transform"
	"verifharness/dump"
	"verifharness/gen"
	"verifharness/mon"
)

func init() {
	Registry["C09"] = &Prop{Level: "exploration", Parent: c09Parent, Child: c09Child}
}

func c09Parent(c *mon.Ctx) {
	c.Rule = "cleanliness: for every Get*/Put* pair of package ast (found in the source at check time) every exported field of the pooled struct is filled with non-zero content by reflection, the object is Put and Get is called until the same pointer comes back (single P, GC off): it must equal a freshly constructed value (nil = empty slice, capacity ignored); the same after ReleaseAST of parsed trees (each pool is drained and every object checked). ownership: random histories of parse->hold, tokenize->hold (tokens and Tokenizer.Comments), format, extract, scan, release of other trees, pool get/put; every held value is snapshotted when obtained and compared after every later step; a multi-goroutine version runs under the race detector. distinct_nontrivial = distinct (pooled type, field) pairs plus distinct histories"
	c.DistinctSet = "cases"
	c.Assumptions = []string{"values the caller has released are not watched", "slice capacity and pool hit rate are not semantic"}
	per := 250
	if c.Tier == "thorough" {
		per = 8000
	}
	sh := shards("plain", "cleanliness", 1)
	sh = append(sh, shards("plain", "ownership", 12, "-n", fmt.Sprint(per))...)
	race := shards("race", "ownership-race", 2, "-n", fmt.Sprint(per/4+20))
	for i := range race {
		race[i].Env = []string{"GORACE=halt_on_error=0 log_path=" + c.RunDir + "/race-" + fmt.Sprint(i)}
	}
	sh = append(sh, race...)
	res := c.RunShards(sh, 16)
	c.ClassifyDeaths(res, "histories complete")
	total, dedup := mon.CountRaceReports(c.RunDir + "/race-")
	c.AddStat("race_report_blocks", int64(total))
	var keys []string
	for k := range dedup {
		keys = append(keys, k)
	}
	sort.Strings(keys)
	for _, k := range keys {
		c.AddViol(mon.Viol{ID: "C09/race/" + k, Clause: "held results are not touched by later library activity on any goroutine", Detail: dedup[k], Phase: "ownership-race"})
	}
	if c.Stats["pool_same_pointer"] == 0 {
		c.AddInc("no pool handed back the object that was put: cleanliness clause not observed")
	}
}

// populate fills every exported field of the struct v points to with non-zero content.
func populate(v reflect.Value, depth int) {
	if depth > 3 {
		return
	}
	t := v.Type()
	for i := 0; i < t.NumField(); i++ {
		f := t.Field(i)
		if f.PkgPath != "" {
			continue
		}
		fv := v.Field(i)
		setNonZero(fv, depth)
	}
}

var exprIface = reflect.TypeOf((*ast.Expression)(nil)).Elem()
var stmtIface = reflect.TypeOf((*ast.Statement)(nil)).Elem()

func setNonZero(fv reflect.Value, depth int) {
	if !fv.CanSet() {
		return
	}
	switch fv.Kind() {
	case reflect.String:
		fv.SetString("dirty")
	case reflect.Bool:
		fv.SetBool(true)
	case reflect.Int, reflect.Int8, reflect.Int16, reflect.Int32, reflect.Int64:
		fv.SetInt(7)
	case reflect.Uint, reflect.Uint8, reflect.Uint16, reflect.Uint32, reflect.Uint64:
		fv.SetUint(7)
	case reflect.Float32, reflect.Float64:
		fv.SetFloat(7)
	case reflect.Interface:
		var cand interface{}
		switch {
		case fv.Type() == exprIface || (fv.Type().NumMethod() > 0 && reflect.TypeOf(&ast.Identifier{}).Implements(fv.Type())):
			cand = &ast.Identifier{Name: "dirty_ident"}
		case fv.Type() == stmtIface || reflect.TypeOf(&ast.SelectStatement{}).Implements(fv.Type()):
			cand = &ast.SelectStatement{TableName: "dirty_stmt"}
		case fv.Type().NumMethod() == 0:
			cand = "dirty_any"
		}
		if cand != nil && reflect.TypeOf(cand).AssignableTo(fv.Type()) {
			fv.Set(reflect.ValueOf(cand))
		}
	case reflect.Ptr:
		nv := reflect.New(fv.Type().Elem())
		if nv.Elem().Kind() == reflect.Struct {
			populate(nv.Elem(), depth+1)
		} else {
			setNonZero(nv.Elem(), depth+1)
		}
		fv.Set(nv)
	case reflect.Slice:
		s := reflect.MakeSlice(fv.Type(), 2, 4)
		for i := 0; i < 2; i++ {
			setNonZero(s.Index(i), depth+1)
		}
		fv.Set(s)
	case reflect.Struct:
		populate(fv, depth+1)
	case reflect.Map:
		// leave maps alone
	}
}

// firstDirtyField returns the names of the exported fields of *T that differ from the zero value (nil == empty).
func dirtyFields(v reflect.Value) []string {
	var out []string
	t := v.Type()
	for i := 0; i < t.NumField(); i++ {
		f := t.Field(i)
		if f.PkgPath != "" {
			continue
		}
		if !isZeroish(v.Field(i)) {
			out = append(out, f.Name)
		}
	}
	return out
}

func isZeroish(v reflect.Value) bool {
	switch v.Kind() {
	case reflect.Slice:
		if v.Len() != 0 {
			return false
		}
		// what the array behind an emptied slice still holds is one reslice away from the next holder
		if v.Cap() > 0 {
			full := v.Slice(0, v.Cap())
			for i := 0; i < full.Len(); i++ {
				if !isZeroish(full.Index(i)) {
					return false
				}
			}
		}
		return true
	case reflect.Map:
		return v.Len() == 0
	case reflect.Ptr, reflect.Interface:
		return v.IsNil()
	case reflect.Struct:
		for i := 0; i < v.NumField(); i++ {
			if v.Type().Field(i).PkgPath == "" && !isZeroish(v.Field(i)) {
				return false
			}
		}
		return true
	}
	return v.IsZero()
}

type poolPair struct {
	Name     string
	Get, Put reflect.Value
	Elem     reflect.Type // the pooled struct type (or slice type for *[]T)
}

func poolPairs(a *ChildArgs) []poolPair {
	var out []poolPair
	var names []string
	for n := range ASTPoolFuncs {
		names = append(names, n)
	}
	sort.Strings(names)
	for _, n := range names {
		if !strings.HasPrefix(n, "Get") {
			continue
		}
		g := reflect.ValueOf(ASTPoolFuncs[n])
		if g.Kind() != reflect.Func || g.Type().NumIn() != 0 || g.Type().NumOut() != 1 || g.Type().Out(0).Kind() != reflect.Ptr {
			continue // not a pool accessor (e.g. GetSpan, GetStructFields)
		}
		pn := "Put" + strings.TrimPrefix(n, "Get")
		pf, ok := ASTPoolFuncs[pn]
		if !ok {
			a.Rec.Inconclusive("C09/pool/"+n, "no matching "+pn+" found")
			continue
		}
		p := reflect.ValueOf(pf)
		if p.Type().NumIn() != 1 || !g.Type().Out(0).AssignableTo(p.Type().In(0)) {
			a.Rec.Inconclusive("C09/pool/"+n, "unexpected signature of "+pn)
			continue
		}
		out = append(out, poolPair{Name: strings.TrimPrefix(n, "Get"), Get: g, Put: p, Elem: g.Type().Out(0).Elem()})
	}
	// the tree container itself: its accessors are not named Get/Put
	out = append(out, poolPair{Name: "AST", Get: reflect.ValueOf(ast.NewAST), Put: reflect.ValueOf(ast.ReleaseAST), Elem: reflect.TypeOf(ast.AST{})})
	return out
}

// getSame calls Get until ptr comes back (bounded); returns the value or an invalid Value.
func getSame(pp poolPair, ptr uintptr) reflect.Value {
	var taken []reflect.Value
	defer func() {
		for _, v := range taken {
			pp.Put.Call([]reflect.Value{v})
		}
	}()
	for i := 0; i < 64; i++ {
		v := pp.Get.Call(nil)[0]
		if v.Pointer() == ptr {
			return v
		}
		taken = append(taken, v)
	}
	return reflect.Value{}
}

// c09Distinct: after parsing and releasing trees of every shape, objects taken from a pool at the same time must be
// different objects (a node put back twice would be handed to two holders).
func c09Distinct(a *ChildArgs) {
	runtime.GOMAXPROCS(1)
	debug.SetGCPercent(-1)
	pairs := poolPairs(a)
	avoid := mon.AvoidFeatures()
	fixed := []string{
		"SELECT * FROM (SELECT a FROM t) d JOIN u ON d.a = u.a", "SELECT * FROM t JOIN (SELECT a FROM u) d ON d.a = t.a", "SELECT * FROM (SELECT a FROM t) d",
		"SELECT * FROM (SELECT a FROM t) d LEFT JOIN (SELECT b FROM u) e ON d.a = e.b JOIN v ON v.c = d.a", "SELECT a FROM t WHERE a IN (SELECT b FROM u) AND EXISTS (SELECT 1 FROM v)",
		"WITH c AS (SELECT 1) SELECT * FROM c UNION SELECT 2", "INSERT INTO t (a) SELECT b FROM (SELECT b FROM u) x", "SELECT CASE WHEN a THEN (SELECT 1) END, f(a) OVER (PARTITION BY b) FROM t",
		"UPDATE t SET a = (SELECT MAX(b) FROM u) WHERE c IS NOT NULL", "DELETE FROM t WHERE NOT EXISTS (SELECT 1 FROM u WHERE u.a = t.a)", "SELECT a FROM t WHERE b BETWEEN 1 AND 2 OR c LIKE 'x%'",
		// subscripts, slices, tuples and array constructors (the node kinds the parser itself draws from the pools) inside each other
		"SELECT a[b[1]:c[2]] FROM t", "SELECT m[1][2], n[x[1]:y[2]][3] FROM t", "SELECT a[ARRAY[1, 2][1]:(3)] FROM t", "SELECT ARRAY[a[1:2], b[3]], (c[1], d[2:3]) FROM t WHERE (e, f) IN ((1, 2), (g[1], h[2:]))",
		"SELECT a[:b[1]], c[d[1]:] FROM t"}
	g := gen.New(rand.New(rand.NewSource(a.Seed*7919+11)), avoid)
	n := 150
	if !a.Quick() {
		n = 3000
	}
	for i := 0; i < n+len(fixed); i++ {
		var sql string
		if i < len(fixed) {
			sql = fixed[i]
		} else {
			sql = gen.Plain(g.Statement(2).Toks)
		}
		t, err := gosqlx.Parse(sql)
		if err != nil {
			continue
		}
		ast.ReleaseAST(t)
		a.Rec.Count("evaluations", 1)
		type takenObj struct {
			v    reflect.Value
			pool string
		}
		var everything []takenObj
		giveBack := []func(){}
		for _, pp := range pairs {
			pp := pp
			seen := map[uintptr]int{}
			var taken []reflect.Value
			for k := 0; k < 12; k++ {
				v := pp.Get.Call(nil)[0]
				taken = append(taken, v)
				if j, dup := seen[v.Pointer()]; dup {
					a.Rec.Viol("C09/pool-aliased/"+pp.Name, "every container obtained from the pools is indistinguishable from a fresh one (two holders never share one object)",
						fmt.Sprintf("after parsing and releasing a tree, Get%s returned the same object as get #%d and get #%d", pp.Name, j, k), map[string]interface{}{"sql": sql, "pool": pp.Name})
					break
				}
				seen[v.Pointer()] = k
			}
			for _, v := range taken {
				everything = append(everything, takenObj{v, pp.Name})
			}
			// give back each distinct object once (after the cross-pool comparison below)
			giveBack = append(giveBack, func() {
				done := map[uintptr]bool{}
				for _, v := range taken {
					if !done[v.Pointer()] {
						done[v.Pointer()] = true
						if v.Elem().Kind() == reflect.Struct {
							v.Elem().Set(reflect.Zero(v.Elem().Type()))
						}
						pp.Put.Call([]reflect.Value{v})
					}
				}
			})
		}
		// across pools: an object handed out by one pool must not live inside an array that an object of another
		// pool still carries (two holders would write into the same memory)
		type span struct {
			lo, hi uintptr
			owner  string
		}
		var arrays []span
		for _, t := range everything {
			if t.v.Elem().Kind() != reflect.Struct {
				continue
			}
			e := t.v.Elem()
			for i := 0; i < e.NumField(); i++ {
				f := e.Field(i)
				if f.Kind() == reflect.Slice && f.Cap() > 0 {
					lo := f.Pointer()
					arrays = append(arrays, span{lo, lo + uintptr(f.Cap())*f.Type().Elem().Size(), t.pool + "." + e.Type().Field(i).Name})
				}
			}
		}
	cross:
		for _, t := range everything {
			if t.v.Elem().Kind() != reflect.Struct {
				continue
			}
			lo := t.v.Pointer()
			hi := lo + t.v.Elem().Type().Size()
			for _, ar := range arrays {
				if lo < ar.hi && ar.lo < hi {
					a.Rec.Viol("C09/pool-aliased/"+t.pool+"-inside-"+ar.owner, "every container obtained from the pools is indistinguishable from a fresh one (two holders never share memory)",
						fmt.Sprintf("after parsing and releasing a tree, an object from pool %s lies inside the array still attached to %s of another pooled object", t.pool, ar.owner), map[string]interface{}{"sql": sql})
					break cross
				}
			}
		}
		for _, f := range giveBack {
			f()
		}
	}
}

func c09Cleanliness(a *ChildArgs) {
	runtime.GOMAXPROCS(1)
	debug.SetGCPercent(-1)
	pairs := poolPairs(a)
	a.Rec.Info("pool_pairs", fmt.Sprint(len(pairs)))
	for _, pp := range pairs {
		if pp.Elem.Kind() != reflect.Struct {
			// *[]Expression: fill, put, get
			v := pp.Get.Call(nil)[0]
			s := reflect.MakeSlice(pp.Elem, 3, 8)
			for i := 0; i < 3; i++ {
				setNonZero(s.Index(i), 0)
			}
			v.Elem().Set(s)
			ptr := v.Pointer()
			pp.Put.Call([]reflect.Value{v})
			a.Rec.Count("evaluations", 1)
			if got := getSame(pp, ptr); got.IsValid() {
				a.Rec.Count("pool_same_pointer", 1)
				if got.Elem().Len() != 0 {
					a.Rec.Viol("C09/clean/"+pp.Name+"/len", "every container obtained from the pools is indistinguishable from a fresh one", fmt.Sprintf("slice comes back with %d elements", got.Elem().Len()), map[string]string{"pool": pp.Name})
				}
			}
			continue
		}
		t := pp.Elem
		// one field at a time (identifies the field) and all fields at once
		fieldSets := [][]int{}
		all := []int{}
		for i := 0; i < t.NumField(); i++ {
			if t.Field(i).PkgPath == "" {
				fieldSets = append(fieldSets, []int{i})
				all = append(all, i)
			}
		}
		fieldSets = append(fieldSets, all)
		for _, fs := range fieldSets {
			v := pp.Get.Call(nil)[0]
			// start from a clean object so that only this round's content matters
			v.Elem().Set(reflect.Zero(t))
			for _, i := range fs {
				setNonZero(v.Elem().Field(i), 0)
			}
			ptr := v.Pointer()
			// what the library records about a node outside the node (the span registry) belongs to the node's
			// current holder too
			ast.SetSpan(v.Interface(), models.Span{Start: models.Location{Line: 3, Column: 4}, End: models.Location{Line: 5, Column: 6}})
			pp.Put.Call([]reflect.Value{v})
			a.Rec.Count("evaluations", 1)
			label := "all-fields"
			if len(fs) == 1 {
				label = t.Field(fs[0]).Name
			}
			a.Rec.Distinct("cases", pp.Name+"."+label)
			got := getSame(pp, ptr)
			if !got.IsValid() {
				a.Rec.Count("pool_not_reused", 1)
				continue
			}
			a.Rec.Count("pool_same_pointer", 1)
			if sp := ast.GetSpan(got.Interface()); sp != models.EmptySpan() {
				a.Rec.Viol("C09/clean/"+pp.Name+"/span", "every node obtained from the node pools is indistinguishable from a freshly constructed one",
					fmt.Sprintf("Get%s returned an object for which GetSpan still reports %v, the span its previous holder set", pp.Name, sp), map[string]string{"pool": pp.Name})
			}
			for _, df := range dirtyFields(got.Elem()) {
				a.Rec.Viol("C09/clean/"+pp.Name+"."+df, "every node obtained from the node pools is indistinguishable from a freshly constructed one",
					fmt.Sprintf("Get%s returned an object whose field %s still holds %s (released with %s populated)", pp.Name, df, trunc(dump.Dump(got.Elem().FieldByName(df).Interface()), 120), label),
					map[string]string{"pool": pp.Name, "field": df, "populated": label})
			}
			got.Elem().Set(reflect.Zero(t))
			pp.Put.Call([]reflect.Value{got})
		}
	}
	// after releasing parsed trees: drain every pool and check each object
	avoid := mon.AvoidFeatures()
	for i := 0; i < 300; i++ {
		g := gen.New(rand.New(rand.NewSource(a.Seed*977+int64(i))), avoid)
		sql := gen.Plain(g.Statement(3).Toks)
		tree, err := gosqlx.Parse(sql)
		if err != nil {
			continue
		}
		// attach comments the way formatter.Format does, in sizes from none to many
		ncom := []int{0, 1, 3, 40, 70, 300, 2000}[i%7]
		if ncom > 0 {
			tree.Comments = make([]models.Comment, ncom)
			for k := range tree.Comments {
				tree.Comments[k] = models.Comment{Text: fmt.Sprintf("-- comment %d", k), Start: models.Location{Line: k + 1, Column: 1}}
			}
		}
		ast.ReleaseAST(tree)
		a.Rec.Count("evaluations", 1)
		for _, pp := range pairs {
			if pp.Elem.Kind() != reflect.Struct {
				continue
			}
			var taken []reflect.Value
			for k := 0; k < 40; k++ {
				v := pp.Get.Call(nil)[0]
				taken = append(taken, v)
				for _, df := range dirtyFields(v.Elem()) {
					a.Rec.Viol("C09/clean-after-release/"+pp.Name+"."+df, "every node obtained from the node pools is indistinguishable from a freshly constructed one, whatever was released into the pools before",
						fmt.Sprintf("after ReleaseAST of a parsed tree, Get%s returned an object whose field %s holds %s", pp.Name, df, trunc(dump.Dump(v.Elem().FieldByName(df).Interface()), 120)),
						map[string]string{"pool": pp.Name, "field": df, "released_sql": trunc(sql, 300)})
				}
			}
			for _, v := range taken {
				v.Elem().Set(reflect.Zero(pp.Elem))
				pp.Put.Call([]reflect.Value{v})
			}
		}
		// the AST container itself
		c := ast.NewAST()
		if len(c.Statements) != 0 || len(c.Comments) != 0 {
			a.Rec.Viol("C09/clean-after-release/AST", "every container obtained from the pools is indistinguishable from a fresh one", fmt.Sprintf("NewAST returned %d statements / %d comments", len(c.Statements), len(c.Comments)), map[string]string{"released_sql": trunc(sql, 300)})
		}
		ast.ReleaseAST(c)
	}
	a.Rec.Sample("cleanliness", 1, map[string]string{"pool": "SelectStatement", "method": "populate each exported field, Put, Get until the same pointer returns, compare with zero value"})
}

// ---------- ownership ----------

type held struct {
	Ptr  interface{} // identity of the held object (for trees), so that equal-looking trees are told apart
	What string
	Snap string
	Get  func() string
}

// c09Rare: statements with constructs the model grammar produces seldom or not at all.
var c09Rare = []string{
	"SELECT a FROM t WHERE MATCH (a, b) AGAINST ('x' IN BOOLEAN MODE)", "SELECT MATCH (a) AGAINST ('y' IN NATURAL LANGUAGE MODE) FROM t ORDER BY MATCH (a) AGAINST ('y' WITH QUERY EXPANSION)",
	"SELECT a FROM t WHERE MATCH (a) AGAINST ('z' IN NATURAL LANGUAGE MODE WITH QUERY EXPANSION)", "SELECT a FROM t WHERE MATCH (a) AGAINST ('q')",
	"SELECT INTERVAL '1 day', CURRENT_DATE, CURRENT_TIMESTAMP, NULL, TRUE, FALSE FROM t", "SELECT COUNT(*), COUNT(DISTINCT a), SUM(b) FILTER (WHERE c) FROM t",
	"SELECT ROW_NUMBER() OVER (PARTITION BY a ORDER BY b ROWS BETWEEN UNBOUNDED PRECEDING AND CURRENT ROW) FROM t", "SELECT RANK() OVER (ORDER BY a RANGE BETWEEN 1 PRECEDING AND UNBOUNDED FOLLOWING) FROM t",
	"SELECT * FROM t", "SELECT t.* FROM t", "SELECT a FROM t ORDER BY a NULLS FIRST, b DESC NULLS LAST", "SELECT a FROM t LIMIT 10 OFFSET 5", "SELECT a FROM t FETCH FIRST 3 ROWS ONLY", "SELECT a FROM t FOR UPDATE SKIP LOCKED",
	"SELECT EXTRACT(YEAR FROM d), CAST(a AS INT), a::text, SUBSTRING(s FROM 1 FOR 2), POSITION('a' IN s) FROM t", "SELECT CASE WHEN a THEN 1 ELSE 0 END, CASE a WHEN 1 THEN 2 END FROM t",
	"SELECT ARRAY[1, 2], a[1], a[1:2], (1, 2), a -> 'k', a ->> 'k' FROM t", "SELECT a FROM t GROUP BY ROLLUP (a, b), CUBE (c), GROUPING SETS ((a), ())", "SELECT a FROM t WHERE a IS NULL OR b IS NOT NULL OR c BETWEEN 1 AND 2 OR d LIKE 'x' OR e IN (1, 2)",
	"SELECT a FROM t WHERE EXISTS (SELECT 1 FROM u) AND a = ANY (SELECT b FROM u) AND c > ALL (SELECT d FROM u)", "SELECT a FROM t NATURAL JOIN u CROSS JOIN v LEFT JOIN w USING (a)", "SELECT a FROM t JOIN LATERAL (SELECT 1) l ON TRUE",
	"WITH RECURSIVE r (n) AS (SELECT 1 UNION ALL SELECT n + 1 FROM r) SELECT n FROM r", "WITH d AS (DELETE FROM t RETURNING a) SELECT * FROM d", "SELECT 1 UNION ALL SELECT 2 EXCEPT SELECT 3",
	"INSERT INTO t (a) VALUES (DEFAULT), (NULL) ON CONFLICT (a) DO NOTHING", "INSERT INTO t (a) VALUES (1) ON DUPLICATE KEY UPDATE a = 2", "INSERT INTO t (a) VALUES (1) ON CONFLICT (a) DO UPDATE SET a = 1 RETURNING *",
	"UPDATE t SET a = DEFAULT, b = NULL WHERE c RETURNING *", "DELETE FROM t USING u WHERE t.a = u.a RETURNING *", "MERGE INTO t USING s ON t.id = s.id WHEN MATCHED THEN DELETE WHEN NOT MATCHED THEN INSERT (a) VALUES (1)",
	"CREATE TABLE t (a INT PRIMARY KEY, b TEXT NOT NULL DEFAULT 'x' UNIQUE, c INT REFERENCES u (a) ON DELETE CASCADE, CHECK (a > 0))", "CREATE TABLE IF NOT EXISTS t (a INT) PARTITION BY RANGE (a)", "ALTER TABLE t ADD COLUMN c INT, DROP COLUMN d",
	"CREATE INDEX IF NOT EXISTS i ON t (a)", "CREATE UNIQUE INDEX i ON t USING btree (a) WHERE a > 0", "CREATE VIEW v AS SELECT 1", "CREATE MATERIALIZED VIEW v AS SELECT 1", "REFRESH MATERIALIZED VIEW v", "DROP TABLE IF EXISTS t CASCADE", "TRUNCATE TABLE t",
	"SHOW TABLES", "DESCRIBE t", "EXPLAIN SELECT 1", "REPLACE INTO t (a) VALUES (1)", "SELECT a FROM t TABLESAMPLE SYSTEM (10)", "SELECT TOP 5 a FROM t", "SELECT DISTINCT ON (a) a, b FROM t",
}

// c09Disjoint: no node (pointer to a non-empty struct) is reachable from two live trees.
func c09Disjoint(a *ChildArgs, trees []*ast.AST, hist []string, sql string) {
	if len(trees) < 2 {
		return
	}
	owner := map[uintptr]int{}
	a.Rec.Count("disjointness_checks", 1)
	for ti, t := range trees {
		seen := map[uintptr]bool{}
		var walk func(v reflect.Value, d int)
		walk = func(v reflect.Value, d int) {
			if d > 400 || !v.IsValid() {
				return
			}
			switch v.Kind() {
			case reflect.Ptr:
				if v.IsNil() {
					return
				}
				e := v.Elem()
				if e.Kind() == reflect.Struct && e.Type().Size() > 0 {
					p := v.Pointer()
					if seen[p] {
						return
					}
					seen[p] = true
					if o, ok := owner[p]; ok && o != ti {
						a.Rec.Viol("C09/own/tree/node-shared/"+e.Type().Name(), "returned values belong to the caller: two trees never share a node",
							fmt.Sprintf("a %s is reachable from two live trees (held trees %d and %d) after parsing %s", e.Type().Name(), o, ti, trunc(sql, 160)),
							map[string]interface{}{"history": hist, "sql": sql})
						return
					}
					owner[p] = ti
				}
				walk(e, d+1)
			case reflect.Interface:
				if !v.IsNil() {
					walk(v.Elem(), d+1)
				}
			case reflect.Struct:
				for i := 0; i < v.NumField(); i++ {
					walk(v.Field(i), d+1)
				}
			case reflect.Slice, reflect.Array:
				for i := 0; i < v.Len(); i++ {
					walk(v.Index(i), d+1)
				}
			case reflect.Map:
				it := v.MapRange()
				for it.Next() {
					walk(it.Value(), d+1)
				}
			}
		}
		walk(reflect.ValueOf(t), 0)
	}
}

func c09Ownership(a *ChildArgs, workers int) {
	avoid := mon.AvoidFeatures()
	base := a.Seed*7919 + int64(a.Shard)*104729
	run := func(w int, n int) {
		tk := tokenizer.GetTokenizer()
		defer tokenizer.PutTokenizer(tk)
		for i := 0; i < n; i++ {
			seed := base + int64(w)*1000003 + int64(i)*15485863
			r := rand.New(rand.NewSource(seed))
			g := gen.New(r, avoid)
			var holds []held
			var hist []string
			var trees []*ast.AST
			steps := 3 + r.Intn(8)
			check := func(after string) bool {
				for _, h := range holds {
					if now := h.Get(); now != h.Snap {
						a.Rec.Viol("C09/own/"+h.What+"/changed-after/"+after, "values handed to the caller are never modified by later library activity",
							fmt.Sprintf("held %s changed after %s; history %v; before %s now %s", h.What, after, hist, trunc(h.Snap, 200), trunc(now, 200)),
							map[string]interface{}{"history": hist, "held": h.What, "seed": seed})
						return false
					}
				}
				return true
			}
			for s := 0; s < steps; s++ {
				op := []string{"parse-hold", "parse-hold", "tokenize-hold", "comments-hold", "parse-release", "format", "extract-hold", "scan-hold", "release-held-tree", "pool-churn", "parse-with-comments-format",
					"batch-hold", "rejected-calls", "release-held-tree", "parser-tokens-hold", "transform-two", "transform-where-held", "text-scan-custom-rule"}[r.Intn(18)]
				sql := gen.Plain(g.Statement(2).Toks)
				if r.Intn(4) == 0 {
					// rarer constructs, and the same text more than once in a history: two live trees that hold the same
					// construct are what exposes a node the parser builds once and hands to both
					sql = c09Rare[r.Intn(len(c09Rare))]
				}
				switch op {
				case "parse-hold":
					if t, err := gosqlx.Parse(sql); err == nil {
						trees = append(trees, t)
						tt := t
						holds = append(holds, held{Ptr: tt, What: "tree", Snap: dump.Dump(tt), Get: func() string { return dump.Dump(tt) }})
						c09Disjoint(a, trees, hist, sql)
					}
				case "batch-hold":
					// a batch with a repeated member: every result is the caller's own tree
					other := gen.Plain(g.Statement(1).Toks)
					if as, err := gosqlx.ParseMultiple([]string{sql, other, sql}); err == nil {
						for i := range as {
							for j := i + 1; j < len(as); j++ {
								if as[i] == as[j] {
									a.Rec.Viol("C09/own/batch/aliased-results", "returned values belong to the caller", fmt.Sprintf("ParseMultiple returned the same *AST for members %d and %d", i, j), map[string]interface{}{"history": hist, "sql": sql})
								}
							}
						}
						for _, t := range as {
							tt := t
							trees = append(trees, tt)
							holds = append(holds, held{Ptr: tt, What: "tree", Snap: dump.Dump(tt), Get: func() string { return dump.Dump(tt) }})
						}
						c09Disjoint(a, trees, hist, sql)
					}
				case "rejected-calls":
					// calls that return no tree must not leave anything shared behind: statement-less and malformed inputs
					// through every kind of entry point (plain, context, timeout, recovery)
					for _, bad := range []string{";", " ; ; ", "", "-- only a comment", "SELECT FROM", "SELECT a FROM t WHERE ]"} {
						_, _ = gosqlx.Parse(bad)
						_, _ = gosqlx.ParseWithContext(context.Background(), bad)
						_, _ = gosqlx.ParseWithTimeout(bad, time.Second)
						_, _ = gosqlx.ParseWithRecovery(bad)
						_ = gosqlx.Validate(bad)
					}
				case "transform-two":
					// one set of rewriting rules applied to two trees (a tenant filter over a batch): the trees stay two
					// trees; releasing or rewriting one of them leaves the other as it was
					rules := []transform.Rule{transform.AddWhereFromSQL("tenant_id = 42 AND deleted = false"), transform.AddSelectStar(), transform.SetLimit(7), transform.SetOffset(3), transform.AddOrderBy("id", true)}
					t1, e1 := gosqlx.Parse("SELECT id FROM a")
					t2, e2 := gosqlx.Parse("SELECT id, n FROM b WHERE x = 1")
					if e1 == nil && e2 == nil {
						ok := true
						for _, t := range []*ast.AST{t1, t2} {
							if err := transform.Apply(t.Statements[0], rules...); err != nil {
								ok = false
							}
						}
						if ok {
							tt := t2
							trees = append(trees, tt)
							holds = append(holds, held{Ptr: tt, What: "tree", Snap: dump.Dump(tt), Get: func() string { return dump.Dump(tt) }})
							if r.Intn(2) == 0 {
								_ = transform.Apply(t1.Statements[0], transform.QualifyColumns("a"), transform.SetLimit(99))
							}
							ast.ReleaseAST(t1)
						}
					}
				case "transform-where-held":
					// the caller takes the WHERE condition off a statement (to wrap it into a new one, or to reuse it on
					// another statement): the detached condition is still the caller's
					if t, err := gosqlx.Parse("SELECT id FROM a WHERE x = 1 AND y IN (2, 3)"); err == nil {
						if sel, ok := t.Statements[0].(*ast.SelectStatement); ok && sel.Where != nil {
							old := sel.Where
							before := dump.Dump(old)
							var rule transform.Rule
							wrapped := r.Intn(2) == 0
							if wrapped {
								rule = transform.ReplaceWhere(&ast.BinaryExpression{Left: &ast.BinaryExpression{Left: &ast.Identifier{Name: "tenant_id"}, Operator: "=", Right: &ast.LiteralValue{Value: "7", Type: "int"}}, Operator: "AND", Right: old})
							} else {
								rule = transform.RemoveWhere()
							}
							if err := transform.Apply(sel, rule); err == nil {
								// other parses draw from the pools in between
								for k := 0; k < 3; k++ {
									if t2, err := gosqlx.Parse("SELECT p FROM q WHERE r = 5 AND s = 6 OR u = 7"); err == nil {
										trees = append(trees, t2)
										tt := t2
										holds = append(holds, held{Ptr: tt, What: "tree", Snap: dump.Dump(tt), Get: func() string { return dump.Dump(tt) }})
									}
								}
								if after := dump.Dump(old); after != before {
									a.Rec.Viol(fmt.Sprintf("C09/own/detached-where-changed/wrapped=%v", wrapped), "values handed to the caller are never modified by later library activity",
										"the WHERE condition the caller took off the statement before replacing / removing it was changed by the rule or by later parses", map[string]interface{}{"history": hist, "before": trunc(before, 300), "after": trunc(after, 300)})
								}
							}
						}
						// the tree is dropped, not released: its nodes are partly the caller's
					}
				case "text-scan-custom-rule":
					// the text scanner with a caller-supplied rule that keeps the slice it returns (the Rule interface does
					// not ask for a fresh one): a result already handed out is the caller's, whatever the rule reuses
					rule := &c09RetainingRule{}
					sc := textsec.NewScannerWithRules(rule)
					first := sc.Scan("SELECT a FROM t WHERE b = 1; EXEC xp_cmdshell 'dir'")
					snap := dump.Dump(first)
					second := sc.Scan("SELECT 1;\n\nSELECT c FROM u WHERE d = 2; EXEC xp_dirtree 'c:'")
					_ = second
					if after := dump.Dump(first); after != snap {
						a.Rec.Viol("C09/own/text-scan-result-changed", "scan results handed to the caller are never modified by later library activity",
							"the findings returned by one Scan changed when the same scanner scanned another text", map[string]interface{}{"history": hist, "before": trunc(snap, 300), "after": trunc(after, 300)})
					}
					if got := dump.Dump(rule.buf[:rule.n]); got != rule.snap {
						a.Rec.Viol("C09/own/text-scan-rule-storage-written", "values the caller lends to the library are not written into",
							"Scan wrote into the slice the caller's rule returned (and keeps)", map[string]interface{}{"history": hist, "rule_returned": trunc(rule.snap, 300), "rule_holds_now": trunc(got, 300)})
					}
				case "parser-tokens-hold":
					// the caller's parser-token stream (here of a two-statement script), handed to the token-level entry
					// points whole and as per-statement sub-slices that have spare capacity behind them
					script := sql + " ; " + gen.Plain(g.Statement(1).Toks)
					if _, toks, err := parser.ParseBytesWithTokens([]byte(script)); err == nil && len(toks) > 3 {
						tt := toks
						holds = append(holds, held{What: "parser-tokens", Snap: dump.Dump(tt), Get: func() string { return dump.Dump(tt) }})
						cut := 0
						for k, t := range tt {
							if t.Type == models.TokenTypeSemicolon {
								cut = k
								break
							}
						}
						if cut > 0 {
							sub := tt[:cut]
							for _, f := range []func(){
								func() { p := parser.NewParser(); _, _ = p.Parse(sub); p.Release() },
								func() { p := parser.NewParser(); _, _ = p.ParseContext(context.Background(), sub); p.Release() },
								func() { p := parser.NewParser(); _, _ = p.ParseWithRecovery(sub); p.Release() },
								func() { res := parser.ParseMultiWithRecovery(sub); res.Release() },
							} {
								f()
							}
						}
					}
				case "tokenize-hold":
					tk.Reset()
					if toks, err := tk.Tokenize([]byte(sql)); err == nil {
						tt := toks
						holds = append(holds, held{What: "tokens", Snap: dump.Dump(tt), Get: func() string { return dump.Dump(tt) }})
					}
				case "comments-hold":
					tk.Reset()
					if _, err := tk.Tokenize([]byte("-- lead " + fmt.Sprint(seed, s) + "\n" + sql + " /* tail " + fmt.Sprint(s) + " */ -- end")); err == nil {
						cs := tk.Comments
						holds = append(holds, held{What: "comments", Snap: dump.Dump(cs), Get: func() string { return dump.Dump(cs) }})
					}
				case "parse-release":
					if t, err := gosqlx.Parse(sql); err == nil {
						ast.ReleaseAST(t)
					}
				case "format":
					_, _ = gosqlx.Format(sql, gosqlx.DefaultFormatOptions())
				case "parse-with-comments-format":
					t2, _ := tokenizer.New()
					if toks, err := t2.Tokenize([]byte("SELECT 1, -- inline first\n-- own line second\n 2 /* tail */;\n-- c\n" + sql + " -- d\n/* e */")); err == nil {
						_ = toks
						cs := append([]models.Comment(nil), t2.Comments...)
						if t, err := gosqlx.Parse(sql); err == nil {
							t.Comments = cs
							before := dump.Dump(cs)
							_ = t.Format(ast.ReadableStyle())
							_ = t.Format(ast.CompactStyle())
							_ = t.SQL()
							if after := dump.Dump(t.Comments); after != before {
								a.Rec.Viol("C09/own/comments/changed-by-format", "values handed to the caller are never modified by later library activity",
									"formatting a tree reordered or rewrote the comments attached to it", map[string]interface{}{"history": hist, "before": trunc(before, 300), "after": trunc(after, 300)})
							}
							ast.ReleaseAST(t)
						}
					}
				case "extract-hold":
					if t, err := gosqlx.Parse(sql); err == nil {
						tabs, cols := gosqlx.ExtractTables(t), gosqlx.ExtractColumnsQualified(t)
						md := gosqlx.ExtractMetadata(t)
						// a tree in a recycled container is that statement's tree and nothing else: the combined extraction
						// agrees with the single ones made from the same tree a moment ago
						if md != nil {
							x, y := append([]string(nil), tabs...), append([]string(nil), md.Tables...)
							sort.Strings(x)
							sort.Strings(y)
							if strings.Join(x, ",") != strings.Join(y, ",") {
								a.Rec.Viol("C09/own/extracted/metadata-of-another-tree", "every container obtained from the pools is indistinguishable from a freshly constructed one, whatever was released into the pools before",
									fmt.Sprintf("ExtractTables gives %v, ExtractMetadata on the same tree gives %v", x, y), map[string]interface{}{"history": hist, "sql": sql})
							}
						}
						holds = append(holds, held{What: "extracted", Snap: dump.Dump([]interface{}{tabs, cols, md}), Get: func() string { return dump.Dump([]interface{}{tabs, cols, md}) }})
						ast.ReleaseAST(t)
					}
				case "scan-hold":
					if t, err := gosqlx.Parse("SELECT a FROM t WHERE 1=1 OR " + "x = SLEEP(5)"); err == nil {
						res := security.NewScanner().Scan(t)
						holds = append(holds, held{What: "scan-result", Snap: dump.Dump(res), Get: func() string { return dump.Dump(res) }})
						ast.ReleaseAST(t)
					}
				case "release-held-tree":
					// release one held tree: it stops being watched; the others must be unaffected
					if len(trees) > 0 {
						k := r.Intn(len(trees))
						victim := trees[k]
						trees = append(trees[:k], trees[k+1:]...)
						var keep []held
						dropped := false
						for _, h := range holds {
							if !dropped && h.What == "tree" && h.Ptr == interface{}(victim) {
								dropped = true
								continue
							}
							keep = append(keep, h)
						}
						holds = keep
						ast.ReleaseAST(victim)
					}
				case "pool-churn":
					for k := 0; k < 5; k++ {
						id := ast.GetIdentifier()
						id.Name, id.Table = "churn", "churn_t"
						be := ast.GetBinaryExpression()
						be.Left, be.Right, be.Operator = id, ast.GetLiteralValue(), "+"
						ss := ast.GetSelectStatement()
						ss.Columns = append(ss.Columns, be)
						ss.TableName = "churn"
						ast.PutSelectStatement(ss)
					}
				}
				hist = append(hist, op)
				a.Rec.Count("evaluations", 1)
				if !check(op) {
					break
				}
			}
			a.Rec.Distinct("cases", strings.Join(hist, ">"))
			if w == 0 && i < 2 {
				a.Rec.Sample("ownership", 2, map[string]interface{}{"history": hist})
			}
		}
	}
	if workers <= 1 {
		run(0, a.N)
		return
	}
	done := make(chan bool)
	for w := 0; w < workers; w++ {
		go func(w int) { run(w, a.N); done <- true }(w)
	}
	for w := 0; w < workers; w++ {
		<-done
	}
}

func c09Child(a *ChildArgs) {
	switch a.Phase {
	case "cleanliness":
		c09Cleanliness(a)
		c09Distinct(a)
		c09CancelDistinct(a)
		c09Lent(a)
	case "ownership":
		runtime.GOMAXPROCS(1)
		c09Ownership(a, 1)
	case "ownership-race":
		c09Ownership(a, 8)
	}
}


// c09Lent: values the caller lends to the library or receives from it stay the caller's: an array assigned to a
// tree is not kept (and written into) by the pooled container after the tree is released, and a slice returned
// for inspection is not the library's own.
func c09Lent(a *ChildArgs) {
	runtime.GOMAXPROCS(1)
	debug.SetGCPercent(-1)
	defer debug.SetGCPercent(100)
	for round := 0; round < 50; round++ {
		a.Rec.Count("evaluations", 1)
		tree, err := gosqlx.Parse("SELECT a FROM t")
		if err != nil {
			return
		}
		mine := make([]models.Comment, 1, 8)
		mine[0] = models.Comment{Text: "-- mine"}
		spare := mine[:cap(mine)]
		for i := 1; i < len(spare); i++ {
			spare[i] = models.Comment{Text: fmt.Sprintf("-- spare %d", i)}
		}
		tree.Comments = mine
		ast.ReleaseAST(tree)
		// whoever gets the container next (here: every container the pool hands out now) appends comments to it
		var held []*ast.AST
		for k := 0; k < 4; k++ {
			n := ast.NewAST()
			n.Comments = append(n.Comments, models.Comment{Text: "-- theirs"})
			held = append(held, n)
		}
		for i := range spare {
			want := "-- mine"
			if i > 0 {
				want = fmt.Sprintf("-- spare %d", i)
			}
			if spare[i].Text != want {
				a.Rec.Viol("C09/lent/comments-array-written-after-release", "values handed to the caller are never modified by later library activity",
					fmt.Sprintf("element %d of the caller's comment array reads %q after another holder of the pooled container appended a comment", i, spare[i].Text), map[string]interface{}{"round": round})
				round = 1 << 30
				break
			}
		}
		for _, n := range held {
			ast.ReleaseAST(n)
		}
	}
	// the same for the statement array
	for round := 0; round < 50; round++ {
		a.Rec.Count("evaluations", 1)
		mine := make([]ast.Statement, 1, 8)
		mine[0] = &ast.SelectStatement{TableName: "mine"}
		spare := mine[:cap(mine)]
		for i := 1; i < len(spare); i++ {
			spare[i] = &ast.DropStatement{ObjectType: fmt.Sprintf("spare %d", i)}
		}
		tree := ast.NewAST()
		tree.Statements = mine
		ast.ReleaseAST(tree)
		after := append([]ast.Statement(nil), spare...) // what the release itself left in the array
		var held []*ast.AST
		for k := 0; k < 4; k++ {
			n := ast.NewAST()
			for j := 0; j < 3; j++ {
				n.Statements = append(n.Statements, &ast.DropStatement{ObjectType: "theirs"})
			}
			held = append(held, n)
		}
		for i := range spare {
			if spare[i] != after[i] {
				a.Rec.Viol("C09/lent/statements-array-written-after-release", "values handed to the caller are never modified by later library activity",
					fmt.Sprintf("element %d of the array the caller assigned to tree.Statements changed after another holder of the pooled container appended statements", i), map[string]interface{}{"round": round})
				round = 1 << 30
				break
			}
		}
		for _, n := range held {
			n.Statements = nil
			ast.ReleaseAST(n)
		}
	}
	sc := textsec.NewScanner()
	a.Rec.Count("evaluations", 1)
	if rs := sc.Rules(); len(rs) > 0 {
		n := len(rs)
		for i := range rs {
			rs[i] = nil
		}
		again := sc.Rules()
		for i := range again {
			if len(again) != n || again[i] == nil {
				a.Rec.Viol("C09/lent/scanner-rules-shared", "returned values belong to the caller", "writing into the slice returned by Scanner.Rules changed the scanner's own rule list", nil)
				break
			}
		}
	}
}

// c09CancelDistinct: a parse that is cancelled at any of its polls (statement start, expression, every 256th token)
// gives its containers back at most once: afterwards no pool hands the same object to two holders.
func c09CancelDistinct(a *ChildArgs) {
	runtime.GOMAXPROCS(1)
	debug.SetGCPercent(-1)
	defer debug.SetGCPercent(100)
	pairs := poolPairs(a)
	cols := make([]string, 400)
	for i := range cols {
		cols[i] = fmt.Sprintf("c%d", i)
	}
	list := strings.Join(cols, ", ")
	texts := []struct{ name, sql string }{
		{"select-400-columns", "SELECT " + list + " FROM t"},
		{"insert-400-columns", "INSERT INTO t (" + list + ") VALUES (1)"},
		{"from-400-tables", "SELECT * FROM " + list + " WHERE a = 1"},
		{"two-statements", "SELECT " + strings.Join(cols[:150], ", ") + " FROM t; SELECT " + strings.Join(cols[:150], " + ") + " FROM u"},
		{"nested-query", "SELECT a FROM t WHERE b IN (SELECT " + list + " FROM u) AND c = 1"},
	}
	for _, tx := range texts {
		toks, err := mustTokenizer().Tokenize([]byte(tx.sql))
		if err != nil {
			continue
		}
		probe := newCountingCtx(-1, context.Canceled)
		if t, err := parser.NewParser().ParseContextFromModelTokens(probe, toks); err == nil && t != nil {
			ast.ReleaseAST(t)
		}
		total := probe.Polls
		a.Rec.Sample("cancel-distinct", 5, map[string]interface{}{"text": tx.name, "polls_of_a_complete_call": total, "tokens": len(toks)})
		for k := 0; k <= total+1; k++ {
			ctx := newCountingCtx(k, context.Canceled)
			t, err := parser.NewParser().ParseContextFromModelTokens(ctx, toks)
			if err == nil && t != nil {
				ast.ReleaseAST(t)
			}
			a.Rec.Count("evaluations", 1)
			a.Rec.Distinct("cases", fmt.Sprintf("cancel-distinct/%s/%d", tx.name, k))
			for _, pp := range pairs {
				seen := map[uintptr]int{}
				var taken []reflect.Value
				dup := false
				for j := 0; j < 4; j++ {
					v := pp.Get.Call(nil)[0]
					if i, d := seen[v.Pointer()]; d {
						a.Rec.Viol("C09/pool-aliased-after-cancel/"+pp.Name, "every container obtained from the pools is indistinguishable from a fresh one (two holders never share one object)",
							fmt.Sprintf("after a parse of %s cancelled at its poll %d of %d, Get%s returned the same object as get #%d and get #%d", tx.name, k, total, pp.Name, i, j),
							map[string]interface{}{"text": tx.name, "cancelled_at_poll": k, "polls_of_a_complete_call": total, "pool": pp.Name})
						dup = true
						break
					}
					seen[v.Pointer()] = j
					taken = append(taken, v)
				}
				if dup {
					// the pool is corrupt from here on: drop what was taken instead of giving it back
					continue
				}
				for _, v := range taken {
					if v.Elem().Kind() == reflect.Struct {
						v.Elem().Set(reflect.Zero(v.Elem().Type()))
					}
					pp.Put.Call([]reflect.Value{v})
				}
			}
		}
	}
}

// c09RetainingRule is a caller-written rule for the text scanner that refills one buffer on every call.
type c09RetainingRule struct {
	buf  [4]textsec.Finding
	n    int
	snap string
}

func (r *c09RetainingRule) ID() string          { return "CUSTOM001" }
func (r *c09RetainingRule) Description() string { return "reports xp_ procedures, reusing its result buffer" }
func (r *c09RetainingRule) Check(sql string) []textsec.Finding {
	r.n = 0
	for off := 0; ; {
		i := strings.Index(sql[off:], "xp_")
		if i < 0 || r.n == len(r.buf) {
			break
		}
		end := off + i
		for end < len(sql) && sql[end] != ' ' {
			end++
		}
		r.buf[r.n] = textsec.Finding{RuleID: r.ID(), Severity: textsec.SeverityCritical, Message: "extended procedure", Match: sql[off+i : end], Position: off + i}
		r.n++
		off = end
	}
	r.snap = dump.Dump(r.buf[:r.n])
	return r.buf[:r.n]
}
