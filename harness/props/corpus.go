package props

import (
	"os"
	"path/filepath"
	"sort"
	"strings"
)

type CorpusFile struct {
	Name string
	SQL  string
}

var corpusCache []CorpusFile

// CorpusFiles returns the repository's own *.sql files (testdata, examples), sorted by path.
func CorpusFiles() []CorpusFile {
	if corpusCache != nil {
		return corpusCache
	}
	var out []CorpusFile
	for _, root := range []string{"/repo/testdata", "/repo/pkg/sql/parser/testdata", "/repo/examples"} {
		filepath.Walk(root, func(p string, info os.FileInfo, err error) error {
			if err != nil || info.IsDir() || !strings.HasSuffix(p, ".sql") {
				return nil
			}
			b, err := os.ReadFile(p)
			if err == nil && len(b) < 1<<20 {
				out = append(out, CorpusFile{Name: strings.TrimPrefix(p, "/repo/"), SQL: string(b)})
			}
			return nil
		})
	}
	sort.Slice(out, func(i, j int) bool { return out[i].Name < out[j].Name })
	corpusCache = out
	return out
}
