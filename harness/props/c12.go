package props

import (
	"fmt"
	"math/rand"
	"strings"

	"github.com/ajitpratap0/GoSQLX/pkg/gosqlx"
	"github.com/ajitpratap0/GoSQLX/pkg/models"
	"github.com/ajitpratap0/GoSQLX/pkg/sql/ast"
	"github.com/ajitpratap0/GoSQLX/pkg/sql/parser"
	"github.com/ajitpratap0/GoSQLX/pkg/sql/token"
	"github.com/ajitpratap0/GoSQLX/pkg/sql/tokenizer"
	"verifharness/dump"
	"verifharness/gen"
	"verifharness/mon"
)

func init() {
	Registry["C12"] = &Prop{Level: "exploration", Parent: c12Parent, Child: c12Child}
}

func c12Parent(c *mon.Ctx) {
	c.Rule = "scripts S1;...;Sn (n<=6) of model statements, some corrupted at token level (delete / duplicate / replace / swap / truncate / insert; no statement-starting keyword after the first token; confirmed malformed by strict parsing of the segment alone) are given to gosqlx.ParseWithRecovery: the statements returned must be exactly the strict trees of the well-formed segments in order, the error count the number of malformed segments, each error's token index and its (line, column) inside its own segment (terminator included); for scripts without a malformed segment the token-level entry points (Parser.ParseWithRecovery, ParseMultiWithRecovery) on the script's token stream with and without its final EOF token agree with strict parsing of that stream; token soup and all scripts check termination (parser advances <= 4*tokens+64 through the verif hook) and the errors-iff-strict-fails clause. distinct_nontrivial = distinct scripts with at least one malformed and one well-formed segment"
	c.DistinctSet = "mixed_scripts"
	c.Assumptions = []string{"token index of an error is compared in the parser's converted token stream (compound keywords expanded)"}
	per := 700
	if c.Tier == "thorough" {
		per = 25000
	}
	sh := shards("plain", "scripts", 16, "-n", fmt.Sprint(per))
	sh = append(sh, shards("plain", "soup", 4, "-n", fmt.Sprint(per*2))...)
	sh = append(sh, shards("plain", "long", 1)...)
	res := c.RunShards(sh, 16)
	c.ClassifyDeaths(res, "recovery parsing terminates")
}

var stmtStartKw = map[string]bool{"SELECT": true, "INSERT": true, "UPDATE": true, "DELETE": true, "CREATE": true, "ALTER": true, "DROP": true,
	"WITH": true, "MERGE": true, "REFRESH": true, "TRUNCATE": true, "GRANT": true, "REVOKE": true, "SET": true, "BEGIN": true, "COMMIT": true, "ROLLBACK": true,
	"SHOW": true, "DESCRIBE": true, "EXPLAIN": true, "REPLACE": true}

func hasStartKwAfterFirst(toks []gen.Tok) bool {
	for i, t := range toks {
		if i == 0 {
			continue
		}
		if stmtStartKw[strings.ToUpper(t.S)] {
			return true
		}
	}
	return false
}

// convertedLen returns the number of parser tokens the text yields (compound keywords expanded, EOF excluded), or -1.
func ConvertedLen(sql string) int { return convertedLen(sql) }

func convertedLen(sql string) int {
	tk := tokenizer.GetTokenizer()
	defer tokenizer.PutTokenizer(tk)
	toks, err := tk.Tokenize([]byte(sql))
	if err != nil {
		return -1
	}
	n := 0
	for _, t := range toks {
		if t.Token.Type == 0 && t.Token.Value == "" {
			continue
		}
		if strings.EqualFold(t.Token.Type.String(), "EOF") {
			continue
		}
		if w := len(strings.Fields(t.Token.Value)); w > 1 && t.Token.Quote == 0 && expandedCompounds[strings.ToUpper(t.Token.Value)] {
			n += w
		} else {
			n++
		}
	}
	return n
}

// compound keyword tokens that the parser's token conversion expands into one token per word
var expandedCompounds = map[string]bool{"INNER JOIN": true, "LEFT JOIN": true, "RIGHT JOIN": true, "FULL JOIN": true, "CROSS JOIN": true, "OUTER JOIN": true,
	"LEFT OUTER JOIN": true, "RIGHT OUTER JOIN": true, "FULL OUTER JOIN": true, "ORDER BY": true, "GROUP BY": true}

func isWordy(s string) bool {
	for _, r := range s {
		if !(r == ' ' || r >= 'a' && r <= 'z' || r >= 'A' && r <= 'Z') {
			return false
		}
	}
	return true
}

var advanceCount int64

func c12Child(a *ChildArgs) {
	parser.VerifAdvanceHook = func(pos, ntokens, depth int) { advanceCount++ }
	avoid := mon.AvoidFeatures()
	base := a.Seed*7919 + int64(a.Shard)*104729
	switch a.Phase {
	case "scripts":
		for i := 0; i < a.N; i++ {
			seed := base + int64(i)*15485863
			r := rand.New(rand.NewSource(seed))
			g := gen.New(r, avoid)
			c12Script(a, r, g, i)
		}
	case "long":
		// long scripts: one parser serves hundreds of statements, so whatever a malformed statement leaves behind adds up
		bads := []string{"INSERT INTO t VALUES (1, -)", "SELECT - FROM t", "SELECT a FROM t WHERE (a = ", "SELECT f(", "SELECT CASE WHEN a THEN", "SELECT a FROM t WHERE a IN (1,", "SELECT NOT",
			"UPDATE t SET a = -", "SELECT +(1", "SELECT a FROM t WHERE - - - ", "DELETE FROM t WHERE a BETWEEN 1 AND", "SELECT CAST(a AS", "SELECT a[", "SELECT (((((", "SELECT a FROM t LIMIT 1, 2",
			// statements cut short right before their terminator: the terminator is not theirs to consume
			"SELECT MATCH(a) AGAINST ('x' IN BOOLEAN MODE FROM t", "SHOW TABLES FROM", "SHOW", "SELECT a FROM t LIMIT 1.5",
			"SHOW CREATE", "SHOW CREATE TABLE", "SHOW CREATE VIEW", "SHOW COLUMNS FROM", "SHOW INDEX FROM", "DESCRIBE", "EXPLAIN",
			// ... after a word that announces a clause, and after the dot of a qualified name
			"INSERT INTO t (a) VALUES (1) ON", "INSERT INTO t (a) VALUES (1) ON CONFLICT", "DROP TABLE s .", "INSERT INTO s .", "SELECT a FROM s .", "DELETE FROM s .", "TRUNCATE TABLE s .", "UPDATE s .",
			"SELECT a FROM t JOIN s .", "CREATE TABLE s .", "SELECT a FROM t ORDER", "SELECT a FROM t GROUP", "SELECT a FROM t LEFT", "MERGE INTO t USING",
			"SELECT a FROM t WHERE b < INTERVAL 30", "SELECT INTERVAL 1", "SELECT (a + INTERVAL 2"}
		// (SHOW without a target is malformed by the documented SHOW forms, whatever a lenient parse of it alone says)
		forcedBad := map[string]bool{"SHOW TABLES FROM": true, "SHOW": true, "SHOW CREATE": true, "SHOW CREATE TABLE": true, "SHOW CREATE VIEW": true, "SHOW COLUMNS FROM": true, "SHOW INDEX FROM": true, "DESCRIBE": true,
			"SELECT a FROM t WHERE b < INTERVAL 30": true, "SELECT INTERVAL 1": true} // (an interval needs a unit; the end of the input is not one)
		goods := []string{"SELECT COUNT(a) FROM t WHERE (a = 1)", "SELECT a FROM t WHERE b IN (SELECT c FROM u WHERE (d = 1))", "SELECT CASE WHEN (a = 1) THEN f(g(b)) ELSE -c END FROM t", "SELECT a FROM t"}
		for bi, bad := range bads {
			if _, err := gosqlx.Parse(bad); err == nil && !forcedBad[bad] {
				continue
			}
			for _, n := range []int{30, 130} {
				var segs []segment
				for k := 0; k < n; k++ {
					segs = append(segs, segment{sql: bad, bad: true, kind: fmt.Sprintf("long-%d", bi)})
					if k%40 == 39 {
						gs := goods[(k/40)%len(goods)]
						t, _ := gosqlx.Parse(gs)
						segs = append(segs, segment{sql: gs, tree: dump.Tree(&ast.AST{Statements: t.Statements}).String()})
					}
				}
				for _, gs := range goods {
					t, _ := gosqlx.Parse(gs)
					segs = append(segs, segment{sql: gs, tree: dump.Tree(&ast.AST{Statements: t.Statements}).String()})
				}
				c12Judge(a, bi%2 == 0, segs, false)
			}
		}
		// a statement refused for its depth is one malformed statement like any other: what follows it is still parsed
		deepBad := "SELECT " + strings.Repeat("(", 150) + "1" + strings.Repeat(")", 150)
		for _, order := range [][]int{{0, 1, 0, 2, 0}, {1, 0, 0}, {0, 0, 1}, {1, 1, 0, 2}} {
			var segs []segment
			for _, k := range order {
				switch k {
				case 0:
					t, _ := gosqlx.Parse(goods[len(segs)%len(goods)])
					segs = append(segs, segment{sql: goods[len(segs)%len(goods)], tree: dump.Tree(&ast.AST{Statements: t.Statements}).String()})
				case 1:
					segs = append(segs, segment{sql: deepBad, bad: true, kind: "over-deep"})
				default:
					segs = append(segs, segment{sql: "SELECT a FROM t WHERE (a = ", bad: true, kind: "truncated"})
				}
			}
			c12Judge(a, false, segs, false)
		}
		// the MySQL LIMIT form inside scripts, for the dialect differential
		c12Dialect(a, "SELECT a FROM t LIMIT 1, 2 ; SELECT b FROM u ; SELECT c FROM v LIMIT 3, 4")
		c12Dialect(a, "SELECT a FROM t LIMIT 1, 2 ; SELECT FROM ; SELECT c FROM v LIMIT 3, 4 ;")
	case "soup":
		words := []string{"SELECT", "FROM", "WHERE", "a", "b", "t", "(", ")", ",", ";", "1", "'x'", "=", "+", "AND", "OR", "NOT", "JOIN", "ON", "GROUP", "BY", "ORDER", "INSERT", "INTO", "VALUES",
			"UPDATE", "SET", "DELETE", "CASE", "WHEN", "THEN", "END", "*", ".", "::", "[", "]", "WITH", "AS", "UNION", "IN", "BETWEEN", "LIKE", "IS", "NULL", "CREATE", "TABLE", "DROP", "-", "||", "OVER", "PARTITION", "LIMIT", "EXISTS", "ARRAY", "INTERVAL", "CAST", "MERGE", "USING", "MATCHED"}
		for i := 0; i < a.N; i++ {
			seed := base + int64(i)*15485863 + 5
			r := rand.New(rand.NewSource(seed))
			n := 10 + r.Intn(190)
			var sb strings.Builder
			for k := 0; k < n; k++ {
				sb.WriteString(words[r.Intn(len(words))])
				sb.WriteByte(' ')
			}
			c12Iff(a, sb.String(), "soup")
		}
	}
}

// c12Iff checks termination and the errors-iff-strict-fails clause on any input.
func c12Iff(a *ChildArgs, sql string, class string) ([]ast.Statement, []error, bool) {
	if !hasNonSemicolonToken(sql) {
		return nil, nil, false
	}
	a.Rec.Count("evaluations", 1)
	ntok := convertedLen(sql)
	advanceCount = 0
	stmts, errs := gosqlx.ParseWithRecovery(sql)
	adv := advanceCount
	if ntok >= 0 {
		a.Rec.Max("advances_per_token_x100", adv*100/int64(ntok+1))
		if adv > int64(4*ntok+64) {
			a.Rec.Viol("C12/"+class+"/step-budget", "recovery-mode parsing terminates (bounded progress per token)", fmt.Sprintf("%d cursor advances for %d tokens", adv, ntok), map[string]interface{}{"sql": sql})
		}
	}
	_, serr := gosqlx.Parse(sql)
	if (len(errs) > 0) != (serr != nil) {
		sub := "recovery-silent"
		if serr == nil {
			sub = "recovery-errors-on-valid"
		}
		a.Rec.Viol("C12/"+class+"/iff/"+sub, "recovery reports an error exactly when strict parsing fails",
			fmt.Sprintf("strict err=%v; recovery errors=%d", serr, len(errs)), map[string]interface{}{"sql": sql})
	}
	return stmts, errs, true
}

type segment struct {
	sql  string
	bad  bool
	tree string
	kind string
}

func c12Script(a *ChildArgs, r *rand.Rand, g *gen.G, i int) {
	n := 1 + r.Intn(6)
	var segs []segment
	for k := 0; k < n; k++ {
		x := g.Statement(2)
		if r.Intn(3) == 0 {
			// try to build a malformed segment obeying the side condition
			for try := 0; try < 6; try++ {
				m, _, kind := gen.MutateToks(r, x.Toks)
				if len(m) == 0 || hasStartKwAfterFirst(m) {
					x = g.Statement(1)
					continue
				}
				s := gen.Plain(m)
				if !hasNonSemicolonToken(s) {
					continue
				}
				if _, err := gosqlx.Parse(s); err != nil {
					segs = append(segs, segment{sql: s, bad: true, kind: kind})
					break
				}
			}
			if len(segs) == k+1 {
				continue
			}
		}
		s := gen.Plain(x.Toks)
		t, err := gosqlx.Parse(s)
		if err != nil {
			a.Rec.Count("good_segment_rejected_skipped", 1)
			return
		}
		segs = append(segs, segment{sql: s, tree: dump.Tree(&ast.AST{Statements: t.Statements}).String()})
	}
	c12Judge(a, r.Intn(2) == 0, segs, i < 2)
}

// c12Judge applies the script oracle to a list of segments.
func c12Judge(a *ChildArgs, trailingSemi bool, segs []segment, sample bool) {
	var parts []string
	nbad, ngood := 0, 0
	for _, s := range segs {
		parts = append(parts, s.sql)
		if s.bad {
			nbad++
		} else {
			ngood++
		}
	}
	script := strings.Join(parts, " ; ")
	if trailingSemi {
		script += " ;"
	}
	// blank lines, indentation or a comment in front of the first statement belong to the text: positions count from
	// the first byte of the input, not from the first statement
	prefix := []string{"", "", "\n\n", "   \n\t  ", "\r\n\r\n", "-- lead\n", "\n/* c */ "}[hash64([]byte(script))%7]
	script = prefix + script
	if nbad > 0 && ngood > 0 {
		a.Rec.Distinct("mixed_scripts", script)
	}
	a.Rec.Count("segments_bad", int64(nbad))
	a.Rec.Count("segments_good", int64(ngood))
	stmts, errs, ok := c12Iff(a, script, "script")
	if !ok {
		return
	}
	wit := map[string]interface{}{"script": script, "segments": segDesc(segs)}
	// expected statements: strict trees of the good segments, in order
	var want []string
	for _, s := range segs {
		if !s.bad {
			want = append(want, s.tree)
		}
	}
	var got []string
	for _, st := range stmts {
		got = append(got, dump.Tree(&ast.AST{Statements: []ast.Statement{st}}).String())
	}
	a.Rec.Count("evaluations", 1)
	if len(errs) != nbad {
		a.Rec.Viol(fmt.Sprintf("C12/script/error-count/%s", cmpWord(len(errs), nbad)), "one error per malformed statement",
			fmt.Sprintf("%d errors for %d malformed segments (first: %v)", len(errs), nbad, firstErr(errs)), wit)
	}
	if strings.Join(got, "\n") != strings.Join(want, "\n") {
		cls := "different"
		switch {
		case len(got) < len(want):
			cls = "statement-lost"
		case len(got) > len(want):
			cls = "extra-statement"
		}
		a.Rec.Viol("C12/script/statements/"+cls, "returns precisely the trees strict parsing gives for the well-formed statements, in order",
			fmt.Sprintf("got %d statements, want %d", len(got), len(want)), wit)
	}
	// each error names a token inside its own segment
	if len(errs) == nbad && nbad > 0 {
		// token ranges of the segments in the converted stream
		pos := 0
		var ranges [][2]int
		okRanges := true
		for _, s := range segs {
			l := convertedLen(s.sql)
			if l < 0 {
				okRanges = false
				break
			}
			ranges = append(ranges, [2]int{pos, pos + l}) // the separator ';' at pos+l belongs to the segment too
			pos += l + 1
		}
		if okRanges {
			bi := 0
			for si, s := range segs {
				if !s.bad {
					continue
				}
				pe, isPE := errs[bi].(*parser.ParseError)
				bi++
				if !isPE {
					continue
				}
				if pe.TokenIdx < ranges[si][0] || pe.TokenIdx > ranges[si][1] {
					a.Rec.Viol("C12/script/error-token-outside-segment", "each error names a token inside its own statement",
						fmt.Sprintf("error %d has token index %d, segment %d spans [%d,%d]", bi-1, pe.TokenIdx, si, ranges[si][0], ranges[si][1]), wit)
				}
			}
		}
	}
	// ... and its position (line, column) lies inside that statement's text, its terminator included
	if len(errs) == nbad && nbad > 0 {
		off := len(prefix)
		var spans [][2]int
		for _, s := range segs {
			spans = append(spans, [2]int{off, off + len(s.sql)})
			off += len(s.sql) + len(" ; ")
		}
		bi := 0
		for si, s := range segs {
			if !s.bad {
				continue
			}
			pe, isPE := errs[bi].(*parser.ParseError)
			bi++
			if !isPE || pe.Line <= 0 {
				continue
			}
			o := locOffset(script, pe.Line, pe.Column)
			// the terminator " ; " (or the end of the script) still belongs to the statement it ends
			if o < spans[si][0] || o > spans[si][1]+2 {
				a.Rec.Viol("C12/script/error-position-outside-segment", "each error names a token inside its own statement",
					fmt.Sprintf("error %d is located at %d:%d (offset %d), its statement spans offsets [%d,%d]", bi-1, pe.Line, pe.Column, o, spans[si][0], spans[si][1]), wit)
				break
			}
			a.Rec.Count("error_positions_inside_segment", 1)
		}
	}
	if sample {
		a.Rec.Sample("script", 2, wit)
	}
	c12Dialect(a, script)
	if nbad == 0 {
		c12TokenLevel(a, script, len(want))
	}
}

// locOffset converts a tokenizer location (1-based line, column with a tab counting four) to a byte offset; -1 if
// the location does not exist in the text.
func locOffset(text string, line, col int) int {
	ln, i := 1, 0
	for ln < line {
		j := strings.IndexByte(text[i:], '\n')
		if j < 0 {
			return -1
		}
		i += j + 1
		ln++
	}
	c := 1
	for ; i < len(text) && text[i] != '\n' && c < col; i++ {
		if text[i] == '\t' {
			c += 4
		} else {
			c++
		}
	}
	if c < col {
		if c+1 == col {
			return i // one past the end of the line (end of input)
		}
		return -1
	}
	return i
}

// c12TokenLevel: the token-level recovery entry points on the script's own token stream, with and without its final
// EOF token, report an error exactly when strict parsing of the same stream fails, and lose no statement.
func c12TokenLevel(a *ChildArgs, script string, nstmts int) {
	_, toks, err := parser.ParseBytesWithTokens([]byte(script))
	if err != nil || len(toks) == 0 {
		return
	}
	for _, dropEOF := range []bool{false, true} {
		ts := append([]token.Token(nil), toks...)
		if dropEOF {
			if ts[len(ts)-1].Type != models.TokenTypeEOF {
				continue
			}
			ts = ts[:len(ts)-1]
		}
		ps := parser.NewParser()
		strict, serr := ps.Parse(ts)
		ps.Release()
		pr := parser.NewParser()
		stmts, errs := pr.ParseWithRecovery(ts)
		pr.Release()
		multi := parser.ParseMultiWithRecovery(ts)
		nm, em := len(multi.Statements), len(multi.Errors)
		multi.Release()
		a.Rec.Count("evaluations", 1)
		wit := map[string]interface{}{"script": script, "final_eof_token": !dropEOF, "tokens": len(ts)}
		if (len(errs) > 0) != (serr != nil) || (em > 0) != (serr != nil) {
			a.Rec.Viol(fmt.Sprintf("C12/tokens/iff/eof=%v", !dropEOF), "recovery reports an error exactly when strict parsing of the same input fails",
				fmt.Sprintf("strict err=%v; ParseWithRecovery errors=%d; ParseMultiWithRecovery errors=%d", serr, len(errs), em), wit)
			continue
		}
		if serr == nil && strict != nil && (len(stmts) != len(strict.Statements) || nm != len(strict.Statements)) {
			a.Rec.Viol(fmt.Sprintf("C12/tokens/statements/eof=%v", !dropEOF), "returns precisely the trees strict parsing gives for the well-formed statements",
				fmt.Sprintf("strict %d statements; ParseWithRecovery %d; ParseMultiWithRecovery %d", len(strict.Statements), len(stmts), nm), wit)
		}
	}
}

// c12Dialect: a parser configured for a dialect must honour it in recovery mode exactly as in strict mode.
func c12Dialect(a *ChildArgs, script string) {
	for _, dialect := range []string{"mysql", "postgresql"} {
		tk := mustTokenizer()
		toks, err := tk.Tokenize([]byte(script))
		if err != nil {
			return
		}
		ps := parser.NewParser(parser.WithDialect(dialect))
		strict, serr := ps.ParseFromModelTokens(toks)
		ps.Release()
		pr := parser.NewParser(parser.WithDialect(dialect))
		stmts, errs := pr.ParseWithRecoveryFromModelTokens(toks)
		pr.Release()
		a.Rec.Count("evaluations", 1)
		wit := map[string]interface{}{"script": script, "dialect": dialect}
		if (serr != nil) != (len(errs) > 0) {
			a.Rec.Viol("C12/dialect/"+dialect+"/iff", "recovery reports an error exactly when strict parsing fails", fmt.Sprintf("dialect %s: strict err=%v; recovery errors=%d (%s)", dialect, serr, len(errs), firstErr(errs)), wit)
			continue
		}
		if serr == nil && strict != nil {
			if got, want := dump.Tree(&ast.AST{Statements: stmts}).String(), dump.Tree(&ast.AST{Statements: strict.Statements}).String(); got != want {
				a.Rec.Viol("C12/dialect/"+dialect+"/statements", "returns precisely the trees strict parsing gives", "recovery and strict trees differ under dialect "+dialect, wit)
			}
		}
	}
}

func segDesc(segs []segment) []string {
	var out []string
	for _, s := range segs {
		if s.bad {
			out = append(out, "BAD("+s.kind+"): "+s.sql)
		} else {
			out = append(out, "good: "+s.sql)
		}
	}
	return out
}

func cmpWord(a, b int) string {
	if a < b {
		return "too-few"
	}
	return "too-many"
}

func firstErr(errs []error) string {
	if len(errs) == 0 {
		return ""
	}
	return firstLine(errs[0].Error())
}
