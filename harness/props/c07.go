package props

import (
	"context"
	"errors"
	"fmt"
	"math/rand"
	"strings"
	"time"

	goerrors "github.com/ajitpratap0/GoSQLX/pkg/errors"
	"github.com/ajitpratap0/GoSQLX/pkg/gosqlx"
	"github.com/ajitpratap0/GoSQLX/pkg/sql/ast"
	"github.com/ajitpratap0/GoSQLX/pkg/sql/keywords"
	"github.com/ajitpratap0/GoSQLX/pkg/sql/parser"
	"github.com/ajitpratap0/GoSQLX/pkg/sql/tokenizer"
	"verifharness/dump"
	"verifharness/gen"
	"verifharness/mon"
)

func init() {
	Registry["C07"] = &Prop{Level: "exploration", Parent: c07Parent, Child: c07Child}
}

func c07Parent(c *mon.Ctx) {
	c.Rule = "each input (model statements, token-level corruptions of them, multi-statement scripts, stray-semicolon layouts, corpus files) is pushed through 15 entry points (+3 strict-mode Parser methods); the outcome vector (accept bit, neutral tree, error code) must be constant; batch calls over random lists must equal the individual calls and name the first failing index. distinct_nontrivial = distinct inputs with at least one non-semicolon token"
	c.DistinctSet = "inputs"
	c.Assumptions = []string{"messages and locations may differ between entry points (not part of the statement)", "inputs consisting only of blanks, comments or semicolons are excluded as the property says"}
	per := 700
	if c.Tier == "thorough" {
		per = 20000
	}
	sh := shards("plain", "vectors", 16, "-n", fmt.Sprint(per))
	sh = append(sh, shards("plain", "batches", 2, "-n", fmt.Sprint(per/2))...)
	res := c.RunShards(sh, 16)
	c.ClassifyDeaths(res, "entry points never crash")
}

// Outcome of one entry point on one input.
type Outcome struct {
	Accept bool
	Tree   string // "" when the entry point returns no tree
	Code   string
	Msg    string
}

func codeOf(err error) string {
	if err == nil {
		return ""
	}
	var ge *goerrors.Error
	if errors.As(err, &ge) {
		return string(ge.Code)
	}
	return "unstructured"
}

func outcomeTree(a *ast.AST, err error) Outcome {
	if err != nil {
		return Outcome{Code: codeOf(err), Msg: firstLine(err.Error())}
	}
	if a == nil {
		return Outcome{Accept: true, Tree: "<nil tree without error>"}
	}
	return Outcome{Accept: true, Tree: dump.Tree(a).String()}
}

func outcomeErr(err error) Outcome {
	if err != nil {
		return Outcome{Code: codeOf(err), Msg: firstLine(err.Error())}
	}
	return Outcome{Accept: true}
}

type EntryPoint struct {
	Name string
	F    func(sql string) Outcome
}

func lowLevel(sql string, opts []parser.ParserOption, f func(p *parser.Parser, tk *tokenizer.Tokenizer, sql string) (*ast.AST, error)) Outcome {
	tk := tokenizer.GetTokenizer()
	defer tokenizer.PutTokenizer(tk)
	p := parser.NewParser(opts...)
	defer p.Release()
	return outcomeTree(f(p, tk, sql))
}

// EntryPoints lists the entry points of the property. strict=false.
func EntryPoints() []EntryPoint {
	return []EntryPoint{
		{"gosqlx.Parse", func(s string) Outcome { return outcomeTree(gosqlx.Parse(s)) }},
		{"gosqlx.ParseBytes", func(s string) Outcome { return outcomeTree(gosqlx.ParseBytes([]byte(s))) }},
		{"gosqlx.ParseWithContext", func(s string) Outcome { return outcomeTree(gosqlx.ParseWithContext(context.Background(), s)) }},
		{"gosqlx.ParseWithTimeout", func(s string) Outcome { return outcomeTree(gosqlx.ParseWithTimeout(s, time.Hour)) }},
		{"gosqlx.ParseMultiple", func(s string) Outcome {
			as, err := gosqlx.ParseMultiple([]string{s})
			if err != nil {
				return outcomeTree(nil, err)
			}
			if len(as) != 1 {
				return Outcome{Accept: true, Tree: fmt.Sprintf("<%d trees for 1 query>", len(as))}
			}
			return outcomeTree(as[0], nil)
		}},
		{"gosqlx.Validate", func(s string) Outcome { return outcomeErr(gosqlx.Validate(s)) }},
		{"gosqlx.ValidateMultiple", func(s string) Outcome { return outcomeErr(gosqlx.ValidateMultiple([]string{s})) }},
		{"gosqlx.ParseWithRecovery", func(s string) Outcome {
			stmts, errs := gosqlx.ParseWithRecovery(s)
			if len(errs) > 0 {
				return Outcome{Code: codeOf(errs[0]), Msg: firstLine(errs[0].Error())}
			}
			return Outcome{Accept: true, Tree: dump.Tree(&ast.AST{Statements: stmts}).String()}
		}},
		{"parser.ParseBytes", func(s string) Outcome { return outcomeTree(parser.ParseBytes([]byte(s))) }},
		{"parser.Validate", func(s string) Outcome { return outcomeErr(parser.Validate(s)) }},
		{"parser.ParseBytesWithTokens", func(s string) Outcome {
			a, _, err := parser.ParseBytesWithTokens([]byte(s))
			return outcomeTree(a, err)
		}},
		{"parser.ParseWithDialect(postgresql)", func(s string) Outcome { return outcomeTree(parser.ParseWithDialect(s, keywords.DialectPostgreSQL)) }},
		{"Parser.Parse", func(s string) Outcome {
			return lowLevel(s, nil, func(p *parser.Parser, tk *tokenizer.Tokenizer, s string) (*ast.AST, error) {
				toks, err := tk.Tokenize([]byte(s))
				if err != nil {
					return nil, err
				}
				return p.ParseFromModelTokens(toks)
			})
		}},
		{"Parser.ParseContext", func(s string) Outcome {
			return lowLevel(s, nil, func(p *parser.Parser, tk *tokenizer.Tokenizer, s string) (*ast.AST, error) {
				toks, err := tk.TokenizeContext(context.Background(), []byte(s))
				if err != nil {
					return nil, err
				}
				return p.ParseContextFromModelTokens(context.Background(), toks)
			})
		}},
		{"Parser.ParseWithPositions", func(s string) Outcome {
			return lowLevel(s, nil, func(p *parser.Parser, tk *tokenizer.Tokenizer, s string) (*ast.AST, error) {
				toks, err := tk.Tokenize([]byte(s))
				if err != nil {
					return nil, err
				}
				return p.ParseFromModelTokensWithPositions(toks)
			})
		}},
	}
}

func strictEntryPoints() []EntryPoint {
	strict := []parser.ParserOption{parser.WithStrictMode()}
	return []EntryPoint{
		{"strict:Parser.Parse", func(s string) Outcome {
			return lowLevel(s, strict, func(p *parser.Parser, tk *tokenizer.Tokenizer, s string) (*ast.AST, error) {
				toks, err := tk.Tokenize([]byte(s))
				if err != nil {
					return nil, err
				}
				return p.ParseFromModelTokens(toks)
			})
		}},
		{"strict:pooled GetParser+ApplyOptions", func(s string) Outcome {
			// the documented pooled usage: the instance goes back to the pool afterwards and must not keep the option
			tk := tokenizer.GetTokenizer()
			defer tokenizer.PutTokenizer(tk)
			p := parser.GetParser()
			defer parser.PutParser(p)
			p.ApplyOptions(parser.WithStrictMode())
			toks, err := tk.Tokenize([]byte(s))
			if err != nil {
				return outcomeTree(nil, err)
			}
			return outcomeTree(p.ParseFromModelTokens(toks))
		}},
		{"strict:Parser.ParseContext", func(s string) Outcome {
			return lowLevel(s, strict, func(p *parser.Parser, tk *tokenizer.Tokenizer, s string) (*ast.AST, error) {
				toks, err := tk.Tokenize([]byte(s))
				if err != nil {
					return nil, err
				}
				return p.ParseContextFromModelTokens(context.Background(), toks)
			})
		}},
		{"strict:Parser.ParseWithPositions", func(s string) Outcome {
			return lowLevel(s, strict, func(p *parser.Parser, tk *tokenizer.Tokenizer, s string) (*ast.AST, error) {
				toks, err := tk.Tokenize([]byte(s))
				if err != nil {
					return nil, err
				}
				return p.ParseFromModelTokensWithPositions(toks)
			})
		}},
	}
}

func safeOutcome(ep EntryPoint, s string) (o Outcome) {
	defer func() {
		if r := recover(); r != nil {
			o = Outcome{Code: "PANIC", Msg: fmt.Sprint(r)}
		}
	}()
	return ep.F(s)
}

func hasNonSemicolonToken(sql string) bool {
	tk := tokenizer.GetTokenizer()
	defer tokenizer.PutTokenizer(tk)
	toks, err := tk.Tokenize([]byte(sql))
	if err != nil {
		return strings.TrimSpace(sql) != ""
	}
	for _, t := range toks {
		if t.Token.Type != 0 && t.Token.Value != ";" && t.Token.Value != "" {
			return true
		}
	}
	return false
}

// compareVector checks one group of entry points on one input; the first is the reference.
func compareVector(a *ChildArgs, eps []EntryPoint, sql, group string) {
	ref := safeOutcome(eps[0], sql)
	for _, ep := range eps[1:] {
		a.Rec.Count("evaluations", 1)
		o := safeOutcome(ep, sql)
		pair := eps[0].Name + "~" + ep.Name
		wit := map[string]interface{}{"sql": sql, "reference": eps[0].Name, "other": ep.Name, "ref_outcome": ref, "other_outcome": o}
		switch {
		case o.Code == "PANIC" || ref.Code == "PANIC":
			a.Rec.Viol("C07/"+pair+"/panic", "entry points return", "panic: "+o.Msg+ref.Msg, wit)
		case o.Accept != ref.Accept:
			rej := o
			if !ref.Accept {
				rej = ref
			}
			a.Rec.Viol(fmt.Sprintf("C07/%s/accept-mismatch/ref=%v/%s", pair, ref.Accept, rej.Code), "all accept or all reject",
				fmt.Sprintf("%s accept=%v (%s %s) but %s accept=%v (%s %s)", eps[0].Name, ref.Accept, ref.Code, ref.Msg, ep.Name, o.Accept, o.Code, o.Msg), wit)
		case !o.Accept && o.Code != ref.Code:
			a.Rec.Viol(fmt.Sprintf("C07/%s/code-mismatch/%s-vs-%s", pair, ref.Code, o.Code), "those that fail report the same error code",
				fmt.Sprintf("%s: %s (%s)  %s: %s (%s)", eps[0].Name, ref.Code, ref.Msg, ep.Name, o.Code, o.Msg), wit)
		case o.Accept && o.Tree != "" && ref.Tree != "" && o.Tree != ref.Tree:
			a.Rec.Viol("C07/"+pair+"/tree-mismatch", "those that return a tree return equal trees", trunc(ref.Tree, 300)+" vs "+trunc(o.Tree, 300), wit)
		}
	}
}

func c07Inputs(a *ChildArgs, i int, r *rand.Rand, g *gen.G) (string, string) {
	x := g.Statement(2)
	switch i % 6 {
	case 0:
		return gen.Plain(x.Toks), "valid"
	case 1, 2:
		m, _, kind := gen.MutateToks(r, x.Toks)
		return gen.Plain(m), "mutated-" + kind
	case 3:
		y := g.Statement(2)
		sep := []string{" ; ", ";\n", " ;; ", ";"}[r.Intn(4)]
		s := gen.Plain(x.Toks) + sep + gen.Plain(y.Toks)
		if r.Intn(2) == 0 {
			s += ";"
		}
		return s, "multi"
	case 4:
		lead := []string{";", ";;", " ; ", ""}[r.Intn(4)]
		trail := []string{";", ";;", " ; ;", ""}[r.Intn(4)]
		return lead + gen.Plain(x.Toks) + trail, "stray-semicolons"
	default:
		y := g.Statement(2)
		m, _, kind := gen.MutateToks(r, y.Toks)
		return gen.Plain(x.Toks) + " ; " + gen.Plain(m), "multi-mutated-" + kind
	}
}

func c07Child(a *ChildArgs) {
	avoid := mon.AvoidFeatures()
	base := a.Seed*7919 + int64(a.Shard)*104729
	eps := EntryPoints()
	seps := strictEntryPoints()
	switch a.Phase {
	case "vectors":
		if a.Shard == 0 {
			for _, f := range CorpusFiles() {
				if hasNonSemicolonToken(f.SQL) {
					a.Rec.Distinct("inputs", f.SQL)
					compareVector(a, eps, f.SQL, "default")
					compareVector(a, seps, f.SQL, "strict")
				}
			}
			for _, s := range []string{"SELECT 1;;", ";;SELECT 1", "SELECT 1;;SELECT 2", "; ; SELECT a FROM t ; ;", "SELECT 1; -- c", "/* c */ SELECT 1",
				// bytes a file may start or end with
				"\xef\xbb\xbfSELECT 1", "\xef\xbb\xbfSELECT FROM", "\xef\xbb\xbf", "SELECT 1\x00", "SELECT 1\r\n", "\r\nSELECT 1\r\n;\r\n", "SELECT 1\x1a", "\ufeffSELECT a FROM t", "SELECT 1 \u00a0", "SELECT\u00a01"} {
				compareVector(a, eps, s, "default")
				compareVector(a, seps, s, "strict")
			}
		}
		if a.Shard == 1 {
			// exactly at the limits: every entry point draws the line at the same place
			mt := tokenizer.MaxTokens
			atLimit := "SELECT 1" + strings.Repeat(",1", mt/2-1) // exactly mt tokens
			limitInputs := []string{atLimit + "\n", atLimit + ",1"}
			if !a.Quick() {
				limitInputs = append(limitInputs, atLimit, atLimit+" -- c\n", atLimit[:len(atLimit)-2])
			}
			for _, s := range limitInputs {
				a.Rec.Distinct("inputs", fmt.Sprintf("tokens-at-limit/%d", len(s)))
				compareVector(a, eps, s, "at-token-limit")
			}
			ms := tokenizer.MaxInputSize
			sizeInputs := []string{"SELECT 1" + strings.Repeat(" ", ms-8), "SELECT 1" + strings.Repeat(" ", ms-7)}
			if !a.Quick() {
				sizeInputs = append(sizeInputs, strings.Repeat(" ", ms-8)+"SELECT 1", strings.Repeat(" ", ms-7)+"SELECT 1")
			}
			for _, s := range sizeInputs {
				a.Rec.Distinct("inputs", fmt.Sprintf("bytes-at-limit/%d", len(s)))
				compareVector(a, eps, s, "at-size-limit")
			}
		}
		for i := 0; i < a.N; i++ {
			seed := base + int64(i)*15485863
			r := rand.New(rand.NewSource(seed))
			g := gen.New(r, avoid)
			sql, class := c07Inputs(a, i, r, g)
			if !hasNonSemicolonToken(sql) {
				continue
			}
			a.Rec.Distinct("inputs", sql)
			a.Rec.Count("class:"+strings.SplitN(class, "-", 2)[0], 1)
			compareVector(a, eps, sql, "default")
			compareVector(a, seps, sql, "strict")
			if i < 6 {
				a.Rec.Sample(class, 1, map[string]string{"class": class, "sql": trunc(sql, 300)})
			}
		}
	case "batches":
		if a.Shard == 0 {
			// long batches: one parser serves the whole list, so any state a statement leaves behind (a depth level, a flag,
			// a buffer) accumulates over hundreds of members
			tmpls := []string{"SELECT -%d", "SELECT +%d, -a FROM t", "SELECT (((%d)))", "SELECT CASE WHEN a = %d THEN 1 ELSE 2 END FROM t", "SELECT a FROM t WHERE b IN (SELECT c FROM u WHERE d = %d)",
				"SELECT CAST(%d AS INT), x::text FROM t", "SELECT f(g(h(%d))) FROM t", "SELECT ARRAY[%d, 2][1] FROM t", "INSERT INTO t (a) VALUES (-%d), (NOT TRUE)", "UPDATE t SET a = -%d WHERE NOT (b = 1)",
				"WITH c AS (SELECT %d) SELECT * FROM c", "SELECT a FROM t WHERE NOT NOT (a = %d)", "SELECT a FROM t WHERE a BETWEEN -%d AND +9", "DELETE FROM t WHERE EXISTS (SELECT 1 FROM u WHERE u.a = -%d)",
				"SELECT a FROM t UNION SELECT -%d", "SELECT INTERVAL '1 day' * -%d",
				// eighth round: statement bodies inside a CTE that are not a SELECT, and rarer statement kinds, each of which
				// passes through its own depth / flag bookkeeping
				"WITH d AS (DELETE FROM t WHERE a = %d RETURNING a) SELECT * FROM d", "WITH i AS (INSERT INTO t (a) VALUES (%d) RETURNING a) SELECT * FROM i",
				"WITH u AS (UPDATE t SET a = %d RETURNING a) SELECT * FROM u", "WITH o AS (WITH n AS (SELECT %d AS a) SELECT a FROM n) SELECT a FROM o",
				"WITH RECURSIVE r (n) AS (SELECT %d UNION ALL SELECT n + 1 FROM r WHERE n < 5) SELECT n FROM r", "WITH a AS (SELECT %d), b AS (SELECT 2), c AS (SELECT 3) SELECT * FROM a, b, c",
				"MERGE INTO t USING s ON t.id = s.id WHEN MATCHED THEN UPDATE SET a = %d WHEN NOT MATCHED THEN INSERT (a) VALUES (1)",
				"SELECT SUM(a) OVER (PARTITION BY b ORDER BY c ROWS BETWEEN %d PRECEDING AND CURRENT ROW) FROM t", "SELECT a FROM t GROUP BY ROLLUP (a, b), CUBE (c) HAVING COUNT(*) > %d",
				"SELECT a FROM t WHERE a = ANY (SELECT b FROM u WHERE c = %d)", "SELECT a FROM (SELECT b AS a FROM u WHERE c = %d) s JOIN LATERAL (SELECT 1) l ON TRUE",
				"CREATE TABLE t%d (a INT PRIMARY KEY, b TEXT NOT NULL DEFAULT 'x', CHECK (a > 0))", "ALTER TABLE t ADD COLUMN c%d INT", "CREATE INDEX i%d ON t (a, b)", "DROP TABLE IF EXISTS t%d",
				"CREATE VIEW v%d AS SELECT a FROM t WHERE b = 1", "TRUNCATE TABLE t%d", "INSERT INTO t (a) SELECT b FROM u WHERE c = %d ON CONFLICT (a) DO UPDATE SET a = 1",
				"SELECT a FROM t ORDER BY a DESC NULLS LAST LIMIT %d OFFSET 2", "SELECT EXTRACT(YEAR FROM d), SUBSTRING(s FROM %d FOR 2), POSITION('a' IN s) FROM t",
				"SELECT a FROM t WHERE MATCH (a, b) AGAINST ('x%d' IN BOOLEAN MODE)", "SELECT a -> 'k' ->> %d, b #> '{a}' FROM t", "SELECT x FROM t WHERE a IS NOT DISTINCT FROM %d OR (b, c) IN ((1, 2))",
				"SHOW TABLES", "DESCRIBE t%d", "EXPLAIN SELECT %d", "SELECT a FROM t FETCH FIRST %d ROWS ONLY", "SELECT a FROM t FOR UPDATE OF t SKIP LOCKED -- %d"}
			for _, tm := range tmpls {
				var list []string
				for k := 0; k < 400; k++ {
					list = append(list, fmt.Sprintf(tm, k))
				}
				if outcomeTree(gosqlx.Parse(list[0])).Accept {
					c07Batch(a, list)
				}
			}
			// homogeneous batches from the model grammar: 24 generated statements, each 160 times in a row and then one
			// other statement (whatever a statement kind leaves behind in the shared parser is multiplied by 160)
			gh := gen.New(rand.New(rand.NewSource(base+11)), avoid)
			for k := 0; k < 24; k++ {
				s := gen.Plain(gh.Statement(3).Toks)
				if !outcomeTree(gosqlx.Parse(s)).Accept {
					continue
				}
				list := make([]string, 0, 161)
				for j := 0; j < 160; j++ {
					list = append(list, s)
				}
				list = append(list, "SELECT ((((((((1))))))))")
				a.Rec.Count("homogeneous_batches", 1)
				c07Batch(a, list)
			}
			g := gen.New(rand.New(rand.NewSource(base+7)), avoid)
			var list []string
			for len(list) < 500 {
				s := gen.Plain(g.Statement(2).Toks)
				if outcomeTree(gosqlx.Parse(s)).Accept {
					list = append(list, s)
				}
			}
			c07Batch(a, list)
		}
		// both kinds of bad member in one list, in either order
		for _, list := range [][]string{
			{"SELECT 1", "SELECT a FROM", "SELECT 2", "SELECT 'unterminated"},
			{"SELECT 1", "SELECT 'unterminated", "SELECT 2", "SELECT a FROM"},
			{"SELECT a FROM t WHERE", "SELECT \"open", "SELECT 3"},
			{"SELECT /* never closed", "SELECT FROM", "SELECT 3"},
		} {
			c07Batch(a, list)
		}
		for i := 0; i < a.N; i++ {
			seed := base + int64(i)*15485863 + 99
			r := rand.New(rand.NewSource(seed))
			g := gen.New(r, avoid)
			n := 1 + r.Intn(8)
			var list []string
			for k := 0; k < n; k++ {
				x := g.Statement(2)
				if r.Intn(5) == 0 {
					m, _, _ := gen.MutateToks(r, x.Toks)
					list = append(list, gen.Plain(m))
				} else if r.Intn(8) == 0 {
					// a member the tokenizer rejects (the batch must still stop at the first bad member, whatever kind it is)
					list = append(list, gen.Plain(x.Toks)+[]string{" 'unterminated", " \"open", " /* never closed", " 'bad \\q escape'"}[r.Intn(4)])
				} else {
					list = append(list, gen.Plain(x.Toks))
				}
			}
			c07Batch(a, list)
		}
	}
}

func c07Batch(a *ChildArgs, list []string) {
	a.Rec.Count("evaluations", 1)
	a.Rec.Count("batches", 1)
	firstBad := -1
	var indiv []Outcome
	for i, s := range list {
		o := outcomeTree(gosqlx.Parse(s))
		indiv = append(indiv, o)
		if !o.Accept && firstBad < 0 {
			firstBad = i
		}
	}
	wit := map[string]interface{}{"list": list, "first_bad": firstBad}
	as, err := gosqlx.ParseMultiple(list)
	verr := gosqlx.ValidateMultiple(list)
	if firstBad < 0 {
		if err != nil || verr != nil {
			a.Rec.Viol("C07/batch/good-list-rejected", "a batch call returns exactly what the individual calls return", fmt.Sprintf("ParseMultiple err=%v ValidateMultiple err=%v", err, verr), wit)
			return
		}
		if len(as) != len(list) {
			a.Rec.Viol("C07/batch/length", "a batch call returns exactly what the individual calls return", fmt.Sprintf("%d trees for %d queries", len(as), len(list)), wit)
			return
		}
		for i := range as {
			if t := dump.Tree(as[i]).String(); t != indiv[i].Tree {
				a.Rec.Viol("C07/batch/tree-mismatch", "a batch call returns exactly what the individual calls return", fmt.Sprintf("index %d: %s vs %s", i, trunc(t, 200), trunc(indiv[i].Tree, 200)), wit)
				return
			}
		}
		a.Rec.Count("batches_all_good", 1)
		return
	}
	a.Rec.Count("batches_with_bad_member", 1)
	want := fmt.Sprintf("query %d:", firstBad)
	for name, e := range map[string]error{"ParseMultiple": err, "ValidateMultiple": verr} {
		if e == nil {
			a.Rec.Viol("C07/batch/"+name+"/bad-list-accepted", "fails at the first failing index", "list with a bad member accepted", wit)
			continue
		}
		if !strings.Contains(e.Error(), want) {
			a.Rec.Viol("C07/batch/"+name+"/wrong-index", "fails at the first failing index", fmt.Sprintf("want %q in error %q", want, firstLine(e.Error())), wit)
			continue
		}
		if c := codeOf(e); c != indiv[firstBad].Code {
			a.Rec.Viol("C07/batch/"+name+"/code-mismatch", "fails with the individual call's code", fmt.Sprintf("batch %s vs individual %s", c, indiv[firstBad].Code), wit)
		}
	}
	if err != nil && as != nil {
		a.Rec.Viol("C07/batch/ParseMultiple/trees-with-error", "batch returns no trees on error", "non-nil result next to an error", wit)
	}
}
