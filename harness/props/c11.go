package props

import (
	"context"
	"errors"
	"fmt"
	"math/rand"
	"strings"
	"time"

	"github.com/ajitpratap0/GoSQLX/pkg/gosqlx"
	"github.com/ajitpratap0/GoSQLX/pkg/sql/ast"
	"github.com/ajitpratap0/GoSQLX/pkg/sql/parser"
	"github.com/ajitpratap0/GoSQLX/pkg/sql/tokenizer"
	"verifharness/dump"
	"verifharness/gen"
	"verifharness/mon"
)

func init() {
	Registry["C11"] = &Prop{Level: "fault_enumeration", Parent: c11Parent, Child: c11Child}
}

func c11Parent(c *mon.Ctx) {
	c.Rule = "fault = the context turning done. A counting context (Err() counts polls and starts failing at poll k+1) makes that moment a schedule parameter: for each input and entry point (gosqlx.ParseWithContext, Tokenizer.TokenizeContext, Parser.ParseContextFromModelTokens) the uncancelled run gives the number of polls P and must equal the context-free call; then EVERY k in [0,P) is run with Canceled and DeadlineExceeded: no tree, errors.Is(err, ctx.Err()), bounded further work (polls, parser advances and tokenizer dispatches after done, through the verif hooks), and the same instances must then behave like fresh ones on a probe. A second enumeration cancels a real context.WithCancel synchronously from the hooks at every cursor position j (disjunctive oracle). distinct_nontrivial = distinct (input, entry point, k, kind) fault points where the library noticed the cancellation"
	c.DistinctSet = "fault_points"
	c.Assumptions = []string{"the library observes contexts through Err() (checked: a context whose Done() channel closes between polls is covered by the hook-driven enumeration with a disjunctive oracle)"}
	per := 14
	if c.Tier == "thorough" {
		per = 500
	}
	sh := shards("plain", "polls", 16, "-n", fmt.Sprint(per))
	sh = append(sh, shards("plain", "hookcancel", 4, "-n", fmt.Sprint(per))...)
	for i := range sh {
		sh[i].Timeout = 30 * time.Minute
	}
	res := c.RunShards(sh, 16)
	c.ClassifyDeaths(res, "cancelled calls return")
	if c.Stats["noticed"] == 0 {
		c.AddInc("no run observed the library noticing a cancellation")
	}
	if c.Tier == "quick" {
		c.Exhaustive = true
		c.Extra["exhaustive_scope"] = "every poll index k of every (input, entry point) pair of this run, both error kinds; every cursor position j in the hook-driven phase"
	}
}

// countingCtx is a context whose Err() counts polls and starts returning Kind at poll K+1 (K = -1: never).
type countingCtx struct {
	K         int
	Kind      error
	Polls     int
	PollsDone int // polls answered with an error
	done      chan struct{}
	closed    bool
}

func newCountingCtx(k int, kind error) *countingCtx {
	return &countingCtx{K: k, Kind: kind, done: make(chan struct{})}
}
func (c *countingCtx) Deadline() (time.Time, bool)       { return time.Time{}, false }
func (c *countingCtx) Done() <-chan struct{}             { return c.done }
func (c *countingCtx) Value(key interface{}) interface{} { return nil }
func (c *countingCtx) Err() error {
	c.Polls++
	if c.K >= 0 && c.Polls > c.K {
		if !c.closed {
			close(c.done)
			c.closed = true
		}
		c.PollsDone++
		return c.Kind
	}
	return nil
}

type ctxEP struct {
	Name string
	// Run executes the entry point with ctx on the given instances; returns tree-ish result digest and error.
	Run func(ctx context.Context, tk *tokenizer.Tokenizer, p *parser.Parser, sql string) (string, bool, error)
	// Plain is the context-free counterpart.
	Plain func(tk *tokenizer.Tokenizer, p *parser.Parser, sql string) (string, bool, error)
}

func treeDigest(a *ast.AST) string {
	if a == nil {
		return ""
	}
	return dump.Tree(a).String()
}

func tokDigest(toks interface{}) string { return dump.Dump(toks) }

func ctxEPs() []ctxEP {
	return []ctxEP{
		{"gosqlx.ParseWithContext",
			func(ctx context.Context, tk *tokenizer.Tokenizer, p *parser.Parser, sql string) (string, bool, error) {
				a, err := gosqlx.ParseWithContext(ctx, sql)
				return treeDigest(a), a != nil, err
			},
			func(tk *tokenizer.Tokenizer, p *parser.Parser, sql string) (string, bool, error) {
				a, err := gosqlx.Parse(sql)
				return treeDigest(a), a != nil, err
			}},
		{"Tokenizer.TokenizeContext",
			func(ctx context.Context, tk *tokenizer.Tokenizer, p *parser.Parser, sql string) (string, bool, error) {
				toks, err := tk.TokenizeContext(ctx, []byte(sql))
				return tokDigest(toks) + dump.Dump(tk.Comments), toks != nil, err
			},
			func(tk *tokenizer.Tokenizer, p *parser.Parser, sql string) (string, bool, error) {
				toks, err := tk.Tokenize([]byte(sql))
				return tokDigest(toks) + dump.Dump(tk.Comments), toks != nil, err
			}},
		{"Parser.ParseContextFromModelTokens",
			func(ctx context.Context, tk *tokenizer.Tokenizer, p *parser.Parser, sql string) (string, bool, error) {
				toks, err := tk.Tokenize([]byte(sql))
				if err != nil {
					return "", false, err
				}
				a, err := p.ParseContextFromModelTokens(ctx, toks)
				return treeDigest(a), a != nil, err
			},
			func(tk *tokenizer.Tokenizer, p *parser.Parser, sql string) (string, bool, error) {
				toks, err := tk.Tokenize([]byte(sql))
				if err != nil {
					return "", false, err
				}
				a, err := p.ParseFromModelTokens(toks)
				return treeDigest(a), a != nil, err
			}},
		// the same pair on a parser the holder configured: the options hold for both entry points alike
		{"strict:Parser.ParseContextFromModelTokens",
			func(ctx context.Context, tk *tokenizer.Tokenizer, p *parser.Parser, sql string) (string, bool, error) {
				toks, err := tk.Tokenize([]byte(sql))
				if err != nil {
					return "", false, err
				}
				p.ApplyOptions(parser.WithStrictMode())
				a, err := p.ParseContextFromModelTokens(ctx, toks)
				return treeDigest(a), a != nil, err
			},
			func(tk *tokenizer.Tokenizer, p *parser.Parser, sql string) (string, bool, error) {
				toks, err := tk.Tokenize([]byte(sql))
				if err != nil {
					return "", false, err
				}
				p.ApplyOptions(parser.WithStrictMode())
				a, err := p.ParseFromModelTokens(toks)
				return treeDigest(a), a != nil, err
			}},
		{"mysql:Parser.ParseContextFromModelTokens",
			func(ctx context.Context, tk *tokenizer.Tokenizer, p *parser.Parser, sql string) (string, bool, error) {
				toks, err := tk.Tokenize([]byte(sql))
				if err != nil {
					return "", false, err
				}
				p.ApplyOptions(parser.WithDialect("mysql"))
				a, err := p.ParseContextFromModelTokens(ctx, toks)
				return treeDigest(a), a != nil, err
			},
			func(tk *tokenizer.Tokenizer, p *parser.Parser, sql string) (string, bool, error) {
				toks, err := tk.Tokenize([]byte(sql))
				if err != nil {
					return "", false, err
				}
				p.ApplyOptions(parser.WithDialect("mysql"))
				a, err := p.ParseFromModelTokens(toks)
				return treeDigest(a), a != nil, err
			}},
	}
}

var (
	c11Advances   int64
	c11Dispatches int64
	c11Watch      *countingCtx
	c11AdvAfter   int64
	c11DispAfter  int64
)

func errSig(err error) string {
	if err == nil {
		return "nil"
	}
	m := quotedRe.ReplaceAllString(firstLine(err.Error()), "_")
	// keep the outermost two wrapper phrases: they name the construct that re-described the error
	parts := strings.Split(m, ": ")
	if len(parts) > 3 {
		parts = parts[:3]
	}
	s := strings.Join(parts, ": ")
	if len(s) > 90 {
		s = s[:90]
	}
	return s
}

var (
	hookFired                             bool
	c11AdvSinceCancel, c11DispSinceCancel int64
)

const c11Probe = "SELECT a, COUNT(*) FROM t WHERE a = 1 AND b IN (1, 2) GROUP BY a"

func c11ProbeOutcome(tk *tokenizer.Tokenizer, p *parser.Parser) string {
	tk.Reset()
	toks, err := tk.Tokenize([]byte(c11Probe))
	if err != nil {
		return "tokerr:" + err.Error()
	}
	a, err := p.ParseFromModelTokens(toks)
	if err != nil {
		return "parseerr:" + err.Error()
	}
	out := dump.Tree(a).String()
	// second probe: the deepest nesting a fresh parser accepts; a single recursion level left behind by the cancelled
	// call makes the used parser reject it
	tk.Reset()
	toks, err = tk.Tokenize([]byte(c11DeepProbe()))
	if err != nil {
		return out + "|tokerr:" + err.Error()
	}
	if _, err := p.ParseFromModelTokens(toks); err != nil {
		return out + "|deep-rejected:" + firstLine(err.Error())
	}
	return out + "|deep-accepted"
}

var c11DeepSQL string

// c11DeepProbe returns the most deeply parenthesised SELECT that a fresh parser accepts.
func c11DeepProbe() string {
	if c11DeepSQL != "" {
		return c11DeepSQL
	}
	best := "SELECT (1)"
	for d := 2; d <= 200; d++ {
		s := "SELECT " + strings.Repeat("(", d) + "1" + strings.Repeat(")", d)
		if _, err := gosqlx.Parse(s); err != nil {
			break
		}
		best = s
	}
	c11DeepSQL = best
	return best
}

func c11Inputs(r *rand.Rand, g *gen.G, i int) string {
	fixed := []string{
		"WITH c AS (SELECT a FROM t WHERE a IN (SELECT b FROM u WHERE b > 1)) SELECT CASE WHEN x = 1 THEN (SELECT MAX(y) FROM v) ELSE 0 END FROM c JOIN w ON c.a = w.a AND EXISTS (SELECT 1 FROM z) UNION SELECT a FROM q WHERE a BETWEEN 1 AND f(2)",
		"SELECT a[1], ARRAY[b, c + 1], x::INT FROM t WHERE a NOT IN (1, 2, g(3)) AND b LIKE 'x' || c ORDER BY SUM(d) OVER (PARTITION BY e ORDER BY f ROWS BETWEEN 1 PRECEDING AND CURRENT ROW)",
		"MERGE INTO t USING s ON t.a = s.a AND s.b > (SELECT MIN(c) FROM u) WHEN MATCHED AND t.x < 1 THEN UPDATE SET x = s.x + 1 WHEN NOT MATCHED THEN INSERT (a, b) VALUES (s.a, f(s.b))",
		"INSERT INTO t (a, b) SELECT a, CASE a WHEN 1 THEN 'x' ELSE 'y' END FROM u WHERE a > ANY (SELECT b FROM v); UPDATE t SET a = (SELECT 1) WHERE b = 2; DELETE FROM t WHERE a IN (SELECT a FROM u)",
		"CREATE VIEW v AS SELECT a FROM t WHERE a = (SELECT MAX(b) FROM u GROUP BY c HAVING COUNT(*) > 1)",
		"INSERT INTO t (a, b) VALUES (1, f(2)) ON CONFLICT (a) DO UPDATE SET b = g(t.b + (SELECT MAX(c) FROM u)), a = CASE WHEN x THEN 1 ELSE 2 END WHERE t.b > h(3) AND t.a IN (SELECT d FROM v) RETURNING a, k(b)",
		"INSERT INTO t (a) VALUES (f(1)), (g(2)) ON DUPLICATE KEY UPDATE a = h(a) + (SELECT 1)",
		"SELECT " + strings.Repeat("a + ", 60) + "1 FROM t WHERE " + strings.Repeat("b = 1 AND ", 40) + "c = 2",
		// wide statements that never reach an expression, and long comment runs
		"CREATE TABLE wide (" + strings.Repeat("c INT, ", 900) + "z INT)",
		"SELECT * FROM " + strings.Repeat("t, ", 1200) + "u",
		"INSERT INTO t (" + strings.Repeat("c, ", 900) + "z) VALUES (1)",
		"DROP TABLE " + strings.Repeat("t, ", 1200) + "u",
		"SELECT a " + strings.Repeat("/* c */ ", 1500) + "FROM t",
		"SELECT a, b, c, d, e, f, g FROM t " + strings.Repeat("-- c\n", 1500) + "WHERE a = 1",
		strings.Repeat("/* lead */\n", 1500) + "SELECT 1",
		// blank lines, a leading line break, comments on their own lines and non-ASCII names: the context-aware
		// tokenizer reads positions, comments and words exactly as the plain one does
		"\nSELECT a,\n\n  caf\u00e9, \u540d\u524d -- inline\n\n-- own line\nFROM t\n\n\n/* block */ WHERE b = 'x\n\ny'\n",
		"SELECT a\r\n\r\nFROM t\r\n-- c\r\n\r\nWHERE \u00fcber = 1 AND na\u00efve = 2",
		"SELECT a\n\nFROM t WHERE b = 'never closed",
	}
	// scripts whose statement terminators fall on every residue of the parser's polling interval: a poll that lands on
	// the advance over a ';' must not end the call early with the statements collected so far
	for pad := 116; pad <= 133; pad++ {
		fixed = append(fixed, "SELECT "+strings.Repeat("a, ", pad)+"b FROM t1; SELECT c FROM u; SELECT d FROM v; SELECT e FROM w WHERE e = 1")
	}
	if i < len(fixed) {
		return fixed[i]
	}
	x := g.Statement(3)
	s := gen.Plain(x.Toks)
	if i%4 == 0 {
		y := g.Statement(2)
		s += " ; " + gen.Plain(y.Toks)
	}
	return s
}

func c11Child(a *ChildArgs) {
	parser.VerifAdvanceHook = func(pos, ntokens, depth int) {
		c11Advances++
		if c11Watch != nil && c11Watch.closed {
			c11AdvAfter++
		}
		if hookFired {
			c11AdvSinceCancel++
		}
		if hookCancelAt >= 0 && int(c11Advances) == hookCancelAt && hookCancel != nil {
			hookCancel()
			hookFired = true
		}
	}
	tokenizer.VerifNextTokenHook = func(offset, inputLen int) {
		c11Dispatches++
		if c11Watch != nil && c11Watch.closed {
			c11DispAfter++
		}
		if hookFired {
			c11DispSinceCancel++
		}
		if hookCancelAtDispatch >= 0 && int(c11Dispatches) == hookCancelAtDispatch && hookCancel != nil {
			hookCancel()
			hookFired = true
		}
	}
	avoid := mon.AvoidFeatures()
	base := a.Seed*7919 + int64(a.Shard)*104729
	for i := 0; i < a.N; i++ {
		seed := base + int64(i)*15485863
		r := rand.New(rand.NewSource(seed))
		g := gen.New(r, avoid)
		idx := i*a.NShards + a.Shard
		sql := c11Inputs(r, g, idx)
		if _, err := gosqlx.Parse(sql); err != nil {
			continue
		}
		switch a.Phase {
		case "polls":
			c11Polls(a, sql, i)
		case "hookcancel":
			c11HookCancel(a, sql)
		}
	}
}

// c11Expired: entry points that take a time budget instead of a context: an exhausted budget is a context that is
// already done.
func c11Expired(a *ChildArgs, sql string) {
	for _, d := range []time.Duration{0, -time.Second, -1, time.Nanosecond} {
		a.Rec.Count("evaluations", 1)
		tree, err := gosqlx.ParseWithTimeout(sql, d)
		if d == time.Nanosecond && err == nil {
			continue // a nanosecond may, in principle, suffice to see the context live at the first poll
		}
		wit := map[string]interface{}{"sql": trunc(sql, 200), "timeout": d.String(), "error": fmt.Sprint(err)}
		if tree != nil || err == nil {
			a.Rec.Viol("C11/gosqlx.ParseWithTimeout/expired-budget-ignored", "a call whose context is already done returns no tree and an error matching the context's error", fmt.Sprintf("timeout %v: tree=%v err=%v", d, tree != nil, err), wit)
		} else if !errors.Is(err, context.DeadlineExceeded) {
			a.Rec.Viol("C11/gosqlx.ParseWithTimeout/expired-budget-error/"+errSig(err), "the error matches the context's error under errors.Is", fmt.Sprintf("timeout %v: %v", d, err), wit)
		}
	}
	// an already cancelled / expired context through every context entry point
	for _, mk := range []func() (context.Context, error){
		func() (context.Context, error) {
			c, cancel := context.WithCancel(context.Background())
			cancel()
			return c, context.Canceled
		},
		func() (context.Context, error) {
			c, cancel := context.WithDeadline(context.Background(), time.Unix(1, 0))
			_ = cancel
			return c, context.DeadlineExceeded
		},
		func() (context.Context, error) {
			c, cancel := context.WithCancelCause(context.Background())
			cancel(errors.New("request aborted by the client"))
			return c, context.Canceled
		},
	} {
		ctx, want := mk()
		for _, ep := range ctxEPs() {
			a.Rec.Count("evaluations", 1)
			_, hasTree, err := ep.Run(ctx, mustTokenizer(), parser.NewParser(), sql)
			if hasTree || err == nil || !errors.Is(err, want) {
				a.Rec.Viol("C11/"+ep.Name+"/already-done", "a call whose context is already done returns no tree and an error matching the context's error", fmt.Sprintf("want %v: tree=%v err=%v", want, hasTree, err), map[string]interface{}{"sql": trunc(sql, 200)})
			}
		}
	}
}

func c11Polls(a *ChildArgs, sql string, i int) {
	if i < 4 {
		c11Expired(a, sql)
	}
	freshProbe := c11ProbeOutcome(mustTokenizer(), parser.NewParser())
	for _, ep := range ctxEPs() {
		// uncancelled run: learn P and compare with the context-free call
		tk, p := mustTokenizer(), parser.NewParser()
		cc := newCountingCtx(-1, nil)
		d1, _, err1 := ep.Run(cc, tk, p, sql)
		P := cc.Polls
		d0, _, err0 := ep.Plain(mustTokenizer(), parser.NewParser(), sql)
		a.Rec.Count("evaluations", 1)
		if d1 != d0 || (err1 == nil) != (err0 == nil) || (err1 != nil && shapeOf(err1) != shapeOf(err0)) {
			a.Rec.Viol("C11/"+ep.Name+"/never-fires-differs", "a context that never fires yields exactly the result of the context-free call",
				fmt.Sprintf("with context: err=%v; without: err=%v; results equal=%v", err1, err0, d1 == d0), map[string]interface{}{"sql": sql})
		}
		a.Rec.Max("polls_per_call", int64(P))
		for k := 0; k < P; k++ {
			for _, kind := range []error{context.Canceled, context.DeadlineExceeded} {
				tk, p := mustTokenizer(), parser.NewParser()
				cc := newCountingCtx(k, kind)
				c11Watch, c11AdvAfter, c11DispAfter = cc, 0, 0
				_, hasTree, err := ep.Run(cc, tk, p, sql)
				c11Watch = nil
				a.Rec.Count("evaluations", 1)
				a.Rec.Count("noticed", 1)
				a.Rec.Distinct("fault_points", fmt.Sprintf("%s|%s|%d|%v", sql, ep.Name, k, kind))
				wit := map[string]interface{}{"sql": sql, "entry_point": ep.Name, "k": k, "kind": kind.Error(), "polls_of_uncancelled_run": P, "error": fmt.Sprint(err)}
				kn := "Canceled"
				if kind == context.DeadlineExceeded {
					kn = "DeadlineExceeded"
				}
				if hasTree {
					a.Rec.Viol("C11/"+ep.Name+"/tree-returned/"+kn, "the call returns no tree", "a result was returned although the context was done at poll "+fmt.Sprint(k+1), wit)
				}
				if err == nil {
					a.Rec.Viol("C11/"+ep.Name+"/no-error/"+kn, "the call returns an error matching the context's error", "nil error although the context was done", wit)
				} else if !errors.Is(err, kind) {
					a.Rec.Viol("C11/"+ep.Name+"/not-ctx-error/"+kn+"/"+errSig(err), "the error matches the context's error under errors.Is",
						fmt.Sprintf("errors.Is(err, %v) is false: %s", kind, firstLine(err.Error())), wit)
				} else if other := otherKind(kind); errors.Is(err, other) {
					a.Rec.Viol("C11/"+ep.Name+"/wrong-kind/"+kn, "the error matches the context's error", fmt.Sprintf("error also matches %v", other), wit)
				}
				a.Rec.Max("polls_after_done", int64(cc.PollsDone))
				a.Rec.Max("parser_advances_after_done", c11AdvAfter)
				a.Rec.Max("tokenizer_dispatches_after_done", c11DispAfter)
				if cc.PollsDone > 3 || c11AdvAfter > 8 || c11DispAfter > 100 {
					a.Rec.Viol("C11/"+ep.Name+"/work-after-done", "bounded amount of further work",
						fmt.Sprintf("after the context turned done: %d more polls, %d parser advances, %d tokenizer dispatches", cc.PollsDone, c11AdvAfter, c11DispAfter), wit)
				}
				// residue in the shared pools: two trees parsed after the cancelled call must be independent objects
				if msg := c11PoolResidue(); msg != "" {
					a.Rec.Viol("C11/"+ep.Name+"/pool-residue", "a cancelled call leaves no residue", msg, wit)
				}
				// residue: the same instances behave like fresh ones
				if got := c11ProbeOutcome(tk, p); got != freshProbe {
					a.Rec.Viol("C11/"+ep.Name+"/residue", "the tokenizer and parser used by a cancelled call remain fit for reuse",
						"probe on the used instances differs from a fresh instance: "+trunc(got, 200), wit)
				}
			}
		}
	}
	if i == 0 {
		a.Rec.Sample("polls", 1, map[string]interface{}{"sql": trunc(sql, 200), "entry_points": 3, "note": "every k below the uncancelled run's poll count, both kinds"})
	}
}

func otherKind(k error) error {
	if k == context.Canceled {
		return context.DeadlineExceeded
	}
	return context.Canceled
}

func mustTokenizer() *tokenizer.Tokenizer {
	tk, err := tokenizer.New()
	if err != nil {
		panic(err)
	}
	return tk
}

var (
	hookCancelAt         = -1
	hookCancelAtDispatch = -1
	hookCancel           context.CancelFunc
)

// c11HookCancel cancels a real context synchronously from the hooks at every cursor position.
func c11HookCancel(a *ChildArgs, sql string) {
	want, _, werr := ctxEPs()[0].Plain(nil, nil, sql)
	// learn the number of advances and dispatches of an uncancelled run
	c11Advances, c11Dispatches = 0, 0
	hookCancelAt, hookCancelAtDispatch = -1, -1
	_, _ = gosqlx.ParseWithContext(context.Background(), sql)
	nAdv, nDisp := int(c11Advances), int(c11Dispatches)
	tries := 0
	try := func(atAdv, atDisp int) {
		// every second context carries a cancel cause of its own: the error must still match context.Canceled
		var ctx context.Context
		var cancel context.CancelFunc
		if tries++; tries%2 == 0 {
			c, cc := context.WithCancelCause(context.Background())
			ctx, cancel = c, func() { cc(errors.New("request aborted by the client")) }
		} else {
			ctx, cancel = context.WithCancel(context.Background())
		}
		defer cancel()
		c11Advances, c11Dispatches = 0, 0
		hookFired, c11AdvSinceCancel, c11DispSinceCancel = false, 0, 0
		hookCancelAt, hookCancelAtDispatch, hookCancel = atAdv, atDisp, cancel
		tree, err := gosqlx.ParseWithContext(ctx, sql)
		hookCancelAt, hookCancelAtDispatch, hookCancel = -1, -1, nil
		hookFired = false
		a.Rec.Count("evaluations", 1)
		wit := map[string]interface{}{"sql": trunc(sql, 400), "cancel_at_parser_advance": atAdv, "cancel_at_tokenizer_dispatch": atDisp, "error": fmt.Sprint(err),
			"parser_advances_after_cancel": c11AdvSinceCancel, "tokenizer_dispatches_after_cancel": c11DispSinceCancel}
		a.Rec.Max("advances_after_real_cancel", c11AdvSinceCancel)
		a.Rec.Max("dispatches_after_real_cancel", c11DispSinceCancel)
		// promptness: however the call ends, the work done after the context turned done is bounded by the polling
		// intervals (one per 100 tokenizer rounds, one per 256 parser tokens), not by the size of what is left
		if c11AdvSinceCancel > 256+64 || c11DispSinceCancel > 100+32 {
			a.Rec.Viol("C11/hook/work-after-cancel", "the call ends after a bounded amount of further work",
				fmt.Sprintf("after the cancellation: %d parser advances and %d tokenizer dispatches (tree returned: %v)", c11AdvSinceCancel, c11DispSinceCancel, tree != nil), wit)
		}
		switch {
		case err == nil && tree != nil:
			if treeDigest(tree) != want || werr != nil {
				a.Rec.Viol("C11/hook/unnoticed-but-different", "a cancellation is either honoured or leaves the result untouched", "result differs from the uncancelled call", wit)
			}
			a.Rec.Count("hook_unnoticed", 1)
		case err != nil && tree == nil && errors.Is(err, context.Canceled):
			a.Rec.Count("noticed", 1)
			a.Rec.Count("hook_noticed", 1)
			a.Rec.Distinct("fault_points", fmt.Sprintf("hook|%s|%d|%d", sql, atAdv, atDisp))
		default:
			a.Rec.Viol("C11/hook/surfaced-as/"+errSig(err), "a cancellation surfaces as the context's error or not at all",
				fmt.Sprintf("tree=%v err=%v", tree != nil, err), wit)
		}
	}
	for j := 1; j <= nAdv; j++ {
		try(j, -1)
	}
	step := 1
	if nDisp > 300 {
		step = nDisp / 300
	}
	for j := 1; j <= nDisp; j += step {
		try(-1, j)
	}
}

// c11PoolResidue parses two different statements, holds both trees and checks that the first is not disturbed by
// the second (a container released twice by a cancelled call would be handed out to both).
func c11PoolResidue() string {
	t1, err1 := gosqlx.Parse("SELECT residue_a FROM ta WHERE x = 1")
	if err1 != nil {
		return "probe A rejected: " + err1.Error()
	}
	s1 := dump.Tree(t1).String()
	t2, err2 := gosqlx.Parse("UPDATE tb SET y = 2 WHERE z = 3")
	if err2 != nil {
		return "probe B rejected: " + err2.Error()
	}
	msg := ""
	if t1 == t2 {
		msg = "two live trees share one *ast.AST container"
	} else if dump.Tree(t1).String() != s1 {
		msg = "a held tree changed when another statement was parsed"
	}
	ast.ReleaseAST(t1)
	if t2 != t1 {
		ast.ReleaseAST(t2)
	}
	return msg
}
