package props

import (
	"context"
	"time"

	gcmd "github.com/ajitpratap0/GoSQLX/cmd/gosqlx/cmd"
	"github.com/ajitpratap0/GoSQLX/pkg/formatter"
	"github.com/ajitpratap0/GoSQLX/pkg/gosqlx"
	"github.com/ajitpratap0/GoSQLX/pkg/linter"
	"github.com/ajitpratap0/GoSQLX/pkg/linter/rules/keywords"
	"github.com/ajitpratap0/GoSQLX/pkg/linter/rules/style"
	"github.com/ajitpratap0/GoSQLX/pkg/linter/rules/whitespace"
	textsec "github.com/ajitpratap0/GoSQLX/pkg/security"
	"github.com/ajitpratap0/GoSQLX/pkg/sql/ast"
	kw "github.com/ajitpratap0/GoSQLX/pkg/sql/keywords"
	"github.com/ajitpratap0/GoSQLX/pkg/sql/parser"
	"github.com/ajitpratap0/GoSQLX/pkg/sql/security"
	"github.com/ajitpratap0/GoSQLX/pkg/sql/token"
	"github.com/ajitpratap0/GoSQLX/pkg/sql/tokenizer"
)

// AllRules returns the ten lint rules as the CLI configures them.
func AllRules() []linter.Rule {
	return []linter.Rule{
		whitespace.NewTrailingWhitespaceRule(), whitespace.NewMixedIndentationRule(), whitespace.NewConsecutiveBlankLinesRule(1),
		whitespace.NewIndentationDepthRule(4, 4), whitespace.NewLongLinesRule(100), whitespace.NewRedundantWhitespaceRule(),
		style.NewColumnAlignmentRule(), style.NewCommaPlacementRule(style.CommaTrailing), style.NewAliasingConsistencyRule(true),
		keywords.NewKeywordCaseRule(keywords.CaseUpper),
	}
}

// TextEP is a public entry point taking SQL text. It returns a short digest of its result (used by C10).
type TextEP struct {
	Name string
	F    func(sql string) string
}

func errDigest(err error) string {
	if err == nil {
		return "ok"
	}
	return "err:" + codeOf(err)
}

var allDialects = []kw.SQLDialect{kw.DialectGeneric, kw.DialectMySQL, kw.DialectPostgreSQL, kw.DialectSQLite, kw.DialectSQLServer, kw.DialectOracle, kw.DialectSnowflake}

// onTree runs every tree consumer on a parsed tree.
func onTree(a *ast.AST, sql string) {
	if a == nil {
		return
	}
	_ = a.SQL()
	_ = a.Format(ast.FormatOptions{IndentWidth: 2, NewlinePerClause: true, KeywordCase: ast.KeywordUpper, AddSemicolon: true})
	_ = a.Format(ast.CompactStyle())
	_, _ = gcmd.NewSQLFormatter(gcmd.FormatterOptions{UppercaseKw: true}).Format(a)
	_, _ = gcmd.NewSQLFormatter(gcmd.FormatterOptions{Compact: true}).Format(a)
	_ = gosqlx.ExtractTables(a)
	_ = gosqlx.ExtractTablesQualified(a)
	_ = gosqlx.ExtractColumns(a)
	_ = gosqlx.ExtractColumnsQualified(a)
	_ = gosqlx.ExtractFunctions(a)
	_ = gosqlx.ExtractMetadata(a)
	n := 0
	ast.Inspect(a, func(ast.Node) bool { n++; return true })
	_ = security.NewScanner().Scan(a)
}

// TextEntryPoints lists every public text entry point of the property.
func TextEntryPoints() []TextEP {
	eps := []TextEP{
		{"Tokenizer.Tokenize", func(s string) string {
			tk := tokenizer.GetTokenizer()
			defer tokenizer.PutTokenizer(tk)
			_, err := tk.Tokenize([]byte(s))
			return errDigest(err)
		}},
		{"Tokenizer.TokenizeContext", func(s string) string {
			tk := tokenizer.GetTokenizer()
			defer tokenizer.PutTokenizer(tk)
			_, err := tk.TokenizeContext(context.Background(), []byte(s))
			return errDigest(err)
		}},
		{"gosqlx.Parse+consumers", func(s string) string {
			a, err := gosqlx.Parse(s)
			onTree(a, s)
			return errDigest(err)
		}},
		{"gosqlx.ParseBytes", func(s string) string { _, err := gosqlx.ParseBytes([]byte(s)); return errDigest(err) }},
		{"gosqlx.ParseWithContext", func(s string) string { _, err := gosqlx.ParseWithContext(context.Background(), s); return errDigest(err) }},
		{"gosqlx.ParseWithTimeout", func(s string) string { _, err := gosqlx.ParseWithTimeout(s, time.Hour); return errDigest(err) }},
		{"gosqlx.ParseMultiple", func(s string) string { _, err := gosqlx.ParseMultiple([]string{s, s}); return errDigest(err) }},
		{"gosqlx.Validate", func(s string) string { return errDigest(gosqlx.Validate(s)) }},
		{"gosqlx.ValidateMultiple", func(s string) string { return errDigest(gosqlx.ValidateMultiple([]string{s})) }},
		{"gosqlx.ParseWithRecovery", func(s string) string {
			stmts, errs := gosqlx.ParseWithRecovery(s)
			if len(stmts) > 0 {
				onTree(&ast.AST{Statements: stmts}, s)
			}
			if len(errs) > 0 {
				return errDigest(errs[0])
			}
			return "ok"
		}},
		{"gosqlx.Format", func(s string) string {
			_, err := gosqlx.Format(s, gosqlx.FormatOptions{IndentSize: 2, UppercaseKeywords: true, AddSemicolon: true})
			_, _ = gosqlx.Format(s, gosqlx.DefaultFormatOptions())
			return errDigest(err)
		}},
		{"formatter.Format", func(s string) string {
			_, err := formatter.New(formatter.Options{Uppercase: true}).Format(s)
			_, _ = formatter.New(formatter.Options{Compact: true}).Format(s)
			return errDigest(err)
		}},
		{"parser.ParseBytes", func(s string) string { _, err := parser.ParseBytes([]byte(s)); return errDigest(err) }},
		{"parser.Validate", func(s string) string { return errDigest(parser.Validate(s)) }},
		{"parser.ValidateBytes", func(s string) string { return errDigest(parser.ValidateBytes([]byte(s))) }},
		{"parser.ParseBytesWithTokens", func(s string) string { _, _, err := parser.ParseBytesWithTokens([]byte(s)); return errDigest(err) }},
		{"Parser.ParseWithPositions", func(s string) string {
			tk := tokenizer.GetTokenizer()
			defer tokenizer.PutTokenizer(tk)
			toks, err := tk.Tokenize([]byte(s))
			if err != nil {
				return errDigest(err)
			}
			p := parser.NewParser()
			defer p.Release()
			_, err = p.ParseFromModelTokensWithPositions(toks)
			return errDigest(err)
		}},
		{"Parser.Parse(strict)", func(s string) string {
			tk := tokenizer.GetTokenizer()
			defer tokenizer.PutTokenizer(tk)
			toks, err := tk.Tokenize([]byte(s))
			if err != nil {
				return errDigest(err)
			}
			p := parser.NewParser(parser.WithStrictMode())
			defer p.Release()
			_, err = p.ParseFromModelTokens(toks)
			_, _ = p.ParseContextFromModelTokens(context.Background(), toks)
			_, _ = p.ParseWithRecoveryFromModelTokens(toks)
			return errDigest(err)
		}},
		{"Scanner.ScanSQL", func(s string) string { r := security.NewScanner().ScanSQL(s); _ = r; return "ok" }},
		{"textsecurity.Scan", func(s string) string { _ = textsec.NewScanner().Scan(s); return "ok" }},
		{"linter.LintString+Fix", func(s string) string {
			l := linter.New(AllRules()...)
			res := l.LintString(s, "in.sql")
			cur := s
			for _, r := range l.Rules() {
				if !r.CanAutoFix() {
					continue
				}
				var vs []linter.Violation
				for _, v := range res.Violations {
					if v.Rule == r.ID() {
						vs = append(vs, v)
					}
				}
				if out, err := r.Fix(cur, vs); err == nil {
					cur = out
				}
			}
			return "ok"
		}},
	}
	for _, d := range allDialects {
		d := d
		eps = append(eps, TextEP{"parser.ParseWithDialect(" + string(d) + ")", func(s string) string {
			a, err := parser.ParseWithDialect(s, d)
			if d == kw.DialectMySQL {
				onTree(a, s)
			}
			_ = parser.ValidateWithDialect(s, d)
			return errDigest(err)
		}})
	}
	return eps
}

// TokenEP is an entry point of the low-level parser taking parser tokens.
type TokenEP struct {
	Name string
	F    func(toks []token.Token) string
}

func TokenEntryPoints() []TokenEP {
	mk := func(opts ...parser.ParserOption) *parser.Parser { return parser.NewParser(opts...) }
	return []TokenEP{
		{"Parser.Parse", func(t []token.Token) string { a, err := mk().Parse(t); onTree(a, ""); return errDigest(err) }},
		{"Parser.Parse(strict)", func(t []token.Token) string { _, err := mk(parser.WithStrictMode()).Parse(t); return errDigest(err) }},
		{"Parser.Parse(mysql)", func(t []token.Token) string { _, err := mk(parser.WithDialect("mysql")).Parse(t); return errDigest(err) }},
		{"Parser.ParseContext", func(t []token.Token) string { _, err := mk().ParseContext(context.Background(), t); return errDigest(err) }},
		{"Parser.ParseWithRecovery", func(t []token.Token) string {
			_, errs := mk().ParseWithRecovery(t)
			if len(errs) > 0 {
				return errDigest(errs[0])
			}
			return "ok"
		}},
		{"parser.ParseMultiWithRecovery", func(t []token.Token) string { r := parser.ParseMultiWithRecovery(t); r.Release(); return "ok" }},
		{"Parser.ParseWithPositions", func(t []token.Token) string {
			pos := make([]parser.TokenPosition, len(t))
			_, err := mk().ParseWithPositions(&parser.ConversionResult{Tokens: t, PositionMapping: pos})
			return errDigest(err)
		}},
		{"Parser.ParseWithPositions(short-mapping)", func(t []token.Token) string {
			_, err := mk().ParseWithPositions(&parser.ConversionResult{Tokens: t, PositionMapping: nil})
			return errDigest(err)
		}},
	}
}
