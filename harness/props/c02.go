package props

import (
	"sync"
	"context"
	"errors"
	"fmt"
	"os"
	"regexp"
	"runtime"
	"runtime/debug"
	"sort"
	"strings"

	goerrors "github.com/ajitpratap0/GoSQLX/pkg/errors"
	"github.com/ajitpratap0/GoSQLX/pkg/gosqlx"
	"github.com/ajitpratap0/GoSQLX/pkg/models"
	"github.com/ajitpratap0/GoSQLX/pkg/sql/parser"
	"github.com/ajitpratap0/GoSQLX/pkg/sql/token"
	"github.com/ajitpratap0/GoSQLX/pkg/sql/tokenizer"
	"verifharness/mon"
)

func init() {
	Registry["C02"] = &Prop{Level: "exploration", Parent: c02Parent, Child: c02Child}
}

func c02Parent(c *mon.Ctx) {
	c.Rule = "limits: inputs of MaxInputSize and MaxInputSize+1 bytes (blanks / one string / one comment) and of MaxTokens-1 and MaxTokens+2 tokens (separated and unseparated one-byte tokens) must be accepted resp. rejected with E1006 / E1007. nesting: a catalogue of self-embedding contexts (expression->expression, query->query and every expression-in-query x query-in-expression pair, plus every ordered pair of expression contexts alternated) is instantiated at depths 5, 20 (must be accepted), 200, 1000, 20000 (must return an error value) and, through the token API, up to 900000; while parsing, the verif hooks sample runtime.Callers: the number of parser / tokenizer frames and the number of simultaneous activations of any one function must stay bounded (<= 4000 frames, <= 4*MaxRecursionDepth activations) and the child, limited to a 16 MiB stack, must survive. distinct_nontrivial = distinct (context, depth) cases"
	c.DistinctSet = "cases"
	c.Assumptions = []string{"the exact threshold (99/100/101, contexts costing several units per level) is not asserted: accepted <= 20, rejected >= 200", "+-1 around MaxTokens is not asserted"}
	type ph struct {
		name string
		n    int
	}
	phases := []ph{{"nesting", 12}, {"limits", 1}, {"tokens", 2}}
	done := make(chan bool)
	total := 0
	for _, p := range phases {
		for sh := 0; sh < p.n; sh++ {
			total++
			go func(phase string, sh, n int) {
				runShardWithRestart(c, "C02", phase, sh, n)
				done <- true
			}(p.name, sh, p.n)
		}
	}
	for i := 0; i < total; i++ {
		<-done
	}
	// static checklist: parser functions that can reach themselves in the source
	static := staticRecursiveParserFuncs()
	var notExercised []string
	for _, f := range static {
		if c.Stats["max:activation:"+f] < 2 {
			notExercised = append(notExercised, f)
		}
	}
	sort.Strings(notExercised)
	c.Extra["source_recursive_functions"] = len(static)
	c.Extra["cycles_not_exercised"] = notExercised
	if len(notExercised) > 0 {
		c.AddInc(fmt.Sprintf("%d of %d source-level self-reaching parser functions were never seen re-entered by the nesting catalogue (inconclusive for those cycles, see cycles_not_exercised): %s", len(notExercised), len(static), strings.Join(notExercised, " ")))
	}
	exercised := map[string]int64{}
	for k, v := range c.Stats {
		if strings.HasPrefix(k, "max:activation:") && v >= 2 {
			exercised[strings.TrimPrefix(k, "max:activation:")] = v
		}
	}
	c.Extra["functions_seen_reentered_max_activation"] = exercised
}

// staticRecursiveParserFuncs scans the parser package source for methods that can reach themselves.
func staticRecursiveParserFuncs() []string {
	files, _ := os.ReadDir("/repo/pkg/sql/parser")
	fnRe := regexp.MustCompile(`(?m)^func \(p \*Parser\) (\w+)\(`)
	callRe := regexp.MustCompile(`p\.(\w+)\(`)
	graph := map[string]map[string]bool{}
	for _, f := range files {
		if !strings.HasSuffix(f.Name(), ".go") || strings.HasSuffix(f.Name(), "_test.go") {
			continue
		}
		b, err := os.ReadFile("/repo/pkg/sql/parser/" + f.Name())
		if err != nil {
			continue
		}
		src := string(b)
		locs := fnRe.FindAllStringSubmatchIndex(src, -1)
		for i, l := range locs {
			name := src[l[2]:l[3]]
			end := len(src)
			if i+1 < len(locs) {
				end = locs[i+1][0]
			}
			body := src[l[1]:end]
			if graph[name] == nil {
				graph[name] = map[string]bool{}
			}
			for _, m := range callRe.FindAllStringSubmatch(body, -1) {
				graph[name][m[1]] = true
			}
		}
	}
	var out []string
	for f := range graph {
		if !strings.HasPrefix(f, "parse") {
			continue
		}
		// can f reach f?
		seen := map[string]bool{}
		stack := []string{}
		for g := range graph[f] {
			stack = append(stack, g)
		}
		found := false
		for len(stack) > 0 && !found {
			g := stack[len(stack)-1]
			stack = stack[:len(stack)-1]
			if g == f {
				found = true
				break
			}
			if seen[g] {
				continue
			}
			seen[g] = true
			for h := range graph[g] {
				stack = append(stack, h)
			}
		}
		if found {
			out = append(out, f)
		}
	}
	sort.Strings(out)
	return out
}

type nestCtx struct {
	Name     string
	Pre, Suf string
}

// expression -> expression contexts
var exprCtxs = []nestCtx{
	{"paren", "(", ")"}, {"func-arg", "f(", ")"}, {"func-arg2", "f(1, ", ")"}, {"case-when", "CASE WHEN ", " THEN 1 END"}, {"case-then", "CASE WHEN a THEN ", " END"},
	{"case-else", "CASE WHEN a THEN 1 ELSE ", " END"}, {"case-operand", "CASE ", " WHEN 1 THEN 1 END"}, {"cast", "CAST(", " AS INT)"},
	{"in-list", "1 IN (", ")"}, {"tuple", "(", ", 1)"}, {"array", "ARRAY[", "]"}, {"subscript", "a[", "]"}, {"slice-hi", "a[1:", "]"}, {"slice-lo", "a[", ":2]"},
	{"between-lo", "1 BETWEEN (", ") AND 2"}, {"between-hi", "1 BETWEEN 0 AND (", ")"}, {"not", "NOT ", ""}, {"neg", "- ", ""}, {"plus", "+ ", ""},
	{"filter", "COUNT(*) FILTER (WHERE ", ")"}, {"over-partition", "SUM(a) OVER (PARTITION BY ", ")"}, {"over-order", "SUM(a) OVER (ORDER BY ", ")"},
	{"frame-bound", "SUM(a) OVER (ORDER BY a ROWS ", " PRECEDING)"}, {"agg-order-by", "STRING_AGG(a, ',' ORDER BY ", ")"}, {"within-group", "PERCENTILE_CONT(0.5) WITHIN GROUP (ORDER BY ", ")"},
	{"like-pattern", "a LIKE (", ")"}, {"cmp-rhs", "a = (", ")"}, {"and-rhs", "a = 1 AND (", ")"}, {"or-rhs", "a = 1 OR (", ")"}, {"concat-rhs", "a || (", ")"}, {"arith-rhs", "a + (", ")"},
	{"is-null", "(", ") IS NULL"}, {"json-rhs", "a -> (", ")"},
	// the MySQL full-text predicate parses its search operand as a primary, re-entering itself without a parenthesised expression
	// (its operand is a primary, so only the parenthesised variant composes with the other contexts)
	{"match-against", "MATCH(a) AGAINST (", ")"}, {"match-against-paren", "MATCH(a) AGAINST ((", "))"},
	// function calls by name (some names get their own argument grammar)
	{"position-call", "POSITION(", ", x)"}, {"substring-call", "SUBSTRING(", ", 1, 2)"}, {"coalesce-call", "COALESCE(a, ", ")"}, {"cast-call", "CAST(", " AS INT)"}, {"extract-like-call", "DATE_PART('y', ", ")"},
	// prefix operators re-entered through the right operand of a binary operator (no parenthesis in between)
	{"not-cmp", "NOT a = ", ""}, {"not-plus", "NOT a + ", ""}, {"not-like", "NOT a LIKE ", ""}, {"not-json", "NOT a -> ", ""}, {"not-concat", "NOT a || ", ""},
}

// query -> query contexts
var queryCtxs = []nestCtx{
	{"derived-from", "SELECT * FROM (", ") x"}, {"derived-join", "SELECT * FROM t JOIN (", ") x ON 1 = 1"}, {"lateral", "SELECT * FROM t, LATERAL (", ") x"},
	{"lateral-join", "SELECT * FROM t LEFT JOIN LATERAL (", ") x ON 1 = 1"}, {"cte-body", "WITH c AS (", ") SELECT * FROM c"}, {"cte-body-2", "WITH b AS (SELECT 1), c AS (", ") SELECT * FROM c"},
	{"cte-delete", "WITH c AS (", ") DELETE FROM t WHERE a = 1"}, {"cte-update", "WITH c AS (", ") UPDATE t SET a = 1"}, {"cte-insert", "WITH c AS (", ") INSERT INTO t VALUES (1)"},
}

// query -> expression
var qeCtxs = []nestCtx{
	{"scalar-subquery", "(", ")"}, {"exists", "EXISTS (", ")"}, {"not-exists", "NOT EXISTS (", ")"}, {"in-subquery", "1 IN (", ")"}, {"any", "1 = ANY (", ")"}, {"all", "1 < ALL (", ")"},
}

// expression -> query
var eqCtxs = []nestCtx{
	{"select-list", "SELECT ", " FROM t"}, {"where", "SELECT 1 FROM t WHERE ", ""}, {"join-on", "SELECT 1 FROM t JOIN u ON ", ""}, {"group-by", "SELECT 1 FROM t GROUP BY ", ""},
	{"having", "SELECT 1 FROM t GROUP BY a HAVING ", ""}, {"order-by", "SELECT 1 FROM t ORDER BY ", ""}, {"distinct-on", "SELECT DISTINCT ON (", ") 1 FROM t"},
	{"rollup", "SELECT 1 FROM t GROUP BY ROLLUP(", ")"}, {"grouping-sets", "SELECT 1 FROM t GROUP BY GROUPING SETS ((", "))"}, {"setop-right-where", "SELECT 1 FROM t UNION SELECT 1 FROM t WHERE ", ""},
}

// top-level wrappers around an expression (not self-embedding themselves)
var exprWrappers = []nestCtx{
	{"select", "SELECT ", " FROM t"}, {"where", "SELECT 1 FROM t WHERE ", ""}, {"update-set", "UPDATE t SET a = ", ""}, {"delete-where", "DELETE FROM t WHERE ", ""},
	{"insert-values", "INSERT INTO t VALUES (", ")"}, {"merge-on", "MERGE INTO t USING s ON ", " WHEN MATCHED THEN DELETE"}, {"ddl-default", "CREATE TABLE t (a INT DEFAULT ", ")"},
	{"ddl-check", "CREATE TABLE t (a INT CHECK (", "))"}, {"on-conflict-where", "INSERT INTO t VALUES (1) ON CONFLICT (a) DO UPDATE SET a = 1 WHERE ", ""}, {"index-where", "CREATE INDEX i ON t (a) WHERE ", ""},
	{"returning", "DELETE FROM t RETURNING ", ""},
}

type c02Case struct {
	ID    string
	Depth int
	Build func() string
}

func nestStr(unitPre, unitSuf string, d int, base string) string {
	return strings.Repeat(unitPre, d) + base + strings.Repeat(unitSuf, d)
}

// reverse-order suffix for two alternating contexts
func nestAlt(a, b nestCtx, d int, base string) string {
	var pre, suf strings.Builder
	for i := 0; i < d; i++ {
		if i%2 == 0 {
			pre.WriteString(a.Pre)
		} else {
			pre.WriteString(b.Pre)
		}
	}
	for i := d - 1; i >= 0; i-- {
		if i%2 == 0 {
			suf.WriteString(a.Suf)
		} else {
			suf.WriteString(b.Suf)
		}
	}
	return pre.String() + base + suf.String()
}

var c02Depths = []int{5, 20, 200, 1000, 20000}

func c02Cases(quick bool) []c02Case {
	var cs []c02Case
	depths := c02Depths
	for _, e := range exprCtxs {
		for wi, w := range exprWrappers {
			if wi > 0 && (quick && wi%4 != len(e.Name)%4) {
				continue // quick: every context under the SELECT wrapper plus a rotating selection of the others
			}
			for _, d := range depths {
				e, w, d := e, w, d
				cs = append(cs, c02Case{ID: fmt.Sprintf("nest/expr/%s@%s/d=%d", e.Name, w.Name, d), Depth: d, Build: func() string { return w.Pre + nestStr(e.Pre, e.Suf, d, "1") + w.Suf }})
			}
		}
	}
	for _, q := range queryCtxs {
		for _, d := range depths {
			q, d := q, d
			cs = append(cs, c02Case{ID: fmt.Sprintf("nest/query/%s/d=%d", q.Name, d), Depth: d, Build: func() string { return nestStr(q.Pre, q.Suf, d, "SELECT 1") }})
		}
	}
	for _, qe := range qeCtxs {
		for _, eq := range eqCtxs {
			for _, d := range depths {
				qe, eq, d := qe, eq, d
				cs = append(cs, c02Case{ID: fmt.Sprintf("nest/mixed/%s+%s/d=%d", qe.Name, eq.Name, d), Depth: d, Build: func() string {
					// expression = qe[ eq[ expression ] ]
					return "SELECT " + nestStr(qe.Pre+eq.Pre, eq.Suf+qe.Suf, d, "1") + " FROM t"
				}})
			}
		}
	}
	for i, a := range exprCtxs {
		for j, b := range exprCtxs {
			if i == j || a.Name == "match-against" || b.Name == "match-against" {
				continue
			}
			if quick && (i*7+j*3)%5 != 0 {
				continue
			}
			for _, d := range []int{20, 200, 3000} {
				a, b, d := a, b, d
				cs = append(cs, c02Case{ID: fmt.Sprintf("nest/pair/%s~%s/d=%d", a.Name, b.Name, d), Depth: d, Build: func() string { return "SELECT " + nestAlt(a, b, d, "1") + " FROM t" }})
			}
		}
	}
	// tokenizer: comment chains (comment -> nextToken recursion)
	for _, d := range []int{20, 200, 20000, 300000} {
		d := d
		cs = append(cs, c02Case{ID: fmt.Sprintf("tok/block-comments/d=%d", d), Depth: -d, Build: func() string { return strings.Repeat("/**/", d) + "SELECT 1" }})
		cs = append(cs, c02Case{ID: fmt.Sprintf("tok/line-comments/d=%d", d), Depth: -d, Build: func() string { return strings.Repeat("--\n", d) + "SELECT 1" }})
		cs = append(cs, c02Case{ID: fmt.Sprintf("tok/mixed-comments/d=%d", d), Depth: -d, Build: func() string { return strings.Repeat("/* a */ -- b\n", d) + "SELECT 1" }})
	}
	// parser: postfix and infix chains (array / cast / JSON chains, flat operator and join chains) are repetition, not
	// nesting: accepted at any length with a bounded stack, like the comment runs
	for _, ch := range []struct{ name, pre, unit, suf string }{
		{"cast", "SELECT x", "::int", " FROM t"}, {"subscript", "SELECT a", "[1]", " FROM t"}, {"slice", "SELECT a", "[1:2]", " FROM t"}, {"json-arrow", "SELECT a", "->'k'", " FROM t"},
		{"json-cast", "SELECT a", "->>'k'::text", " FROM t"}, {"plus", "SELECT 1", " + 1", " FROM t"}, {"concat", "SELECT a", " || b", " FROM t"}, {"or", "SELECT a FROM t WHERE b", " OR c", ""},
		{"and-comparisons", "SELECT a FROM t WHERE b = 1", " AND c = 2", ""}, {"union", "SELECT 1", " UNION SELECT 1", ""}, {"cross-join", "SELECT * FROM t", " CROSS JOIN u", ""},
		{"join-on", "SELECT * FROM t", " JOIN u ON a = b", ""}, {"statements", "SELECT 1", "; SELECT 1", ""},
	} {
		for _, d := range []int{20, 200, 20000, 100000} {
			ch, d := ch, d
			cs = append(cs, c02Case{ID: fmt.Sprintf("chain/%s/d=%d", ch.name, d), Depth: -d, Build: func() string { return ch.pre + strings.Repeat(ch.unit, d) + ch.suf }})
		}
	}
	return cs
}

type stackMon struct {
	calls      int64
	maxParser  int
	maxTok     int
	maxAct     map[string]int
	overflowed bool
	pcs        []uintptr
	counts     map[string]int
}

var sm *stackMon

func (s *stackMon) sample() {
	n := runtime.Callers(2, s.pcs)
	if n >= len(s.pcs) {
		s.overflowed = true
	}
	frames := runtime.CallersFrames(s.pcs[:n])
	for k := range s.counts {
		delete(s.counts, k)
	}
	np, nt := 0, 0
	for {
		f, more := frames.Next()
		fn := f.Function
		if strings.HasPrefix(fn, "github.com/ajitpratap0/GoSQLX/pkg/sql/parser.") {
			np++
			s.counts[shortFn(fn)]++
		} else if strings.HasPrefix(fn, "github.com/ajitpratap0/GoSQLX/pkg/sql/tokenizer.") {
			nt++
			s.counts[shortFn(fn)]++
		}
		if !more {
			break
		}
	}
	if np > s.maxParser {
		s.maxParser = np
	}
	if nt > s.maxTok {
		s.maxTok = nt
	}
	for k, v := range s.counts {
		if v > s.maxAct[k] {
			s.maxAct[k] = v
		}
	}
}

func shortFn(fn string) string {
	i := strings.LastIndex(fn, ".")
	return fn[i+1:]
}

func c02Child(a *ChildArgs) {
	debug.SetMaxStack(16 << 20)
	sm = &stackMon{maxAct: map[string]int{}, pcs: make([]uintptr, 9000), counts: map[string]int{}}
	parser.VerifAdvanceHook = func(pos, ntokens, depth int) {
		sm.calls++
		if sm.calls%5 == 0 {
			sm.sample()
		}
	}
	tokenizer.VerifNextTokenHook = func(offset, inputLen int) {
		sm.calls++
		if sm.calls%16 == 0 {
			sm.sample()
		}
	}
	switch a.Phase {
	case "nesting":
		c02Nesting(a)
	case "limits":
		c02Limits(a)
		c02Sequences(a)
	case "tokens":
		c02TokenDepth(a)
	}
	for k, v := range sm.maxAct {
		a.Rec.Max("activation:"+k, int64(v))
	}
	a.Rec.Max("parser_frames", int64(sm.maxParser))
	a.Rec.Max("tokenizer_frames", int64(sm.maxTok))
}

func c02CheckStack(a *ChildArgs, id string, wit interface{}) {
	lim := 4 * parser.MaxRecursionDepth
	for fn, v := range sm.maxAct {
		if v > lim {
			a.Rec.Viol("C02/stack/activation/"+fn, "stack use is bounded independently of input length",
				fmt.Sprintf("%s was active %d times at once (bound %d) while parsing %s", fn, v, lim, id), wit)
		}
	}
	if sm.maxParser > 4000 || sm.maxTok > 4000 || sm.overflowed {
		a.Rec.Viol("C02/stack/frames", "stack use is bounded independently of input length",
			fmt.Sprintf("%d parser frames / %d tokenizer frames on the stack (bound 4000) while parsing %s", sm.maxParser, sm.maxTok, id), wit)
	}
}

func c02Nesting(a *ChildArgs) {
	cases := c02Cases(a.Quick())
	for i, cs := range cases {
		if i%a.NShards != a.Shard || i/a.NShards < a.N {
			continue
		}
		sql := cs.Build()
		a.Rec.Begin(int64(i/a.NShards), cs.ID, []byte(trunc(sql, 300)))
		a.Rec.Count("evaluations", 1)
		a.Rec.Distinct("cases", cs.ID)
		_, err := gosqlx.Parse(sql)
		wit := map[string]interface{}{"case": cs.ID, "sql_prefix": trunc(sql, 200), "len": len(sql)}
		ctxName := cs.ID[:strings.LastIndex(cs.ID, "/d=")]
		d := cs.Depth
		switch {
		case d < 0:
			// tokenizer comment chains are not nesting: they must simply be accepted with bounded stack
			if err != nil {
				a.Rec.Viol("C02/"+ctxName+"/rejected", "repetition that is not nesting (comment runs, postfix and operator chains) is accepted", fmt.Sprintf("%d repetitions: %v", -d, firstLine(err.Error())), wit)
			}
		case d <= 20:
			if err != nil {
				a.Rec.Viol("C02/"+ctxName+"/shallow-rejected", "nesting within the limit is not rejected", fmt.Sprintf("depth %d rejected: %s", d, firstLine(err.Error())), wit)
			}
		default:
			if err == nil {
				a.Rec.Viol("C02/"+ctxName+"/deep-accepted", "nesting beyond the documented depth limit is rejected with an error", fmt.Sprintf("depth %d accepted", d), wit)
			} else {
				var ge *goerrors.Error
				if errors.As(err, &ge) {
					a.Rec.Count("reject_code:"+string(ge.Code), 1)
				} else {
					a.Rec.Count("reject_code:unstructured", 1)
				}
			}
		}
		c02CheckStack(a, cs.ID, wit)
		if i%211 == 0 {
			a.Rec.Sample("nesting", 3, map[string]interface{}{"case": cs.ID, "sql": trunc(sql, 160)})
		}
	}
}

// c02Sequences: the nesting limit holds for every statement, not only the first one a parser sees: after a statement
// that was refused for its depth (by any of the guards), the next statement on the same parser, and the next
// statement of the same recovery script, is held to the same limit.
func c02Sequences(a *ChildArgs) {
	over := map[string]string{
		"derived-tables":    strings.Repeat("SELECT * FROM (", 130) + "SELECT 1" + strings.Repeat(") x", 130),
		"scalar-subqueries": "SELECT " + strings.Repeat("(SELECT ", 70) + "1" + strings.Repeat(")", 70),
		"cte-bodies":        strings.Repeat("WITH c AS (", 120) + "SELECT 1" + strings.Repeat(") SELECT * FROM c", 120),
		"parentheses":       "SELECT " + strings.Repeat("(", 150) + "1" + strings.Repeat(")", 150),
		"function-calls":    "SELECT " + strings.Repeat("f(", 150) + "1" + strings.Repeat(")", 150),
		"signs":             "SELECT " + strings.Repeat("- ", 150) + "1",
		"not-chain":         "SELECT " + strings.Repeat("NOT ", 150) + "a",
		"case-when":         "SELECT " + strings.Repeat("CASE WHEN a THEN ", 120) + "1" + strings.Repeat(" END", 120),
		"match-against":     "SELECT " + strings.Repeat("MATCH(a) AGAINST (", 120) + "'x'" + strings.Repeat(")", 120) + " FROM t",
	}
	second := map[string]string{
		"parentheses-150": "SELECT " + strings.Repeat("(", 150) + "1" + strings.Repeat(")", 150),
		"calls-190":       "SELECT " + strings.Repeat("f(", 190) + "1" + strings.Repeat(")", 190),
		"subqueries-60":   "SELECT " + strings.Repeat("(SELECT ", 60) + "1" + strings.Repeat(")", 60),
	}
	// statements that are fine themselves but contain many of the small constructs that take part in depth
	// accounting: whatever they leave on the counter must be zero, or the limit of the next statement moves
	preludes := map[string]string{
		"signed-literals-300": "SELECT " + strings.Repeat("-1, +2, ", 150) + "0 FROM t WHERE a > -5 AND b IN (" + strings.Repeat("-1, ", 150) + "0)",
		"not-and-casts-300":   "SELECT a FROM t WHERE " + strings.Repeat("NOT a = 1 AND CAST(b AS INT) = -1 AND ", 100) + "c = 1",
		"insert-signed-rows":  "INSERT INTO t (a) VALUES " + strings.Repeat("(-1), ", 300) + "(0)",
		"calls-and-cases-200": "SELECT " + strings.Repeat("f(-a), CASE WHEN x THEN -1 ELSE +1 END, ", 100) + "0 FROM t",
		// eighth round: every predicate and operand form that has a branch of its own in the expression parser, 300 times side
		// by side (a branch that gives back a level it never took, or keeps one, moves the limit by 300)
		"not-exists-300":      "SELECT a FROM t WHERE " + strings.Repeat("NOT EXISTS (SELECT 1 FROM u) AND ", 300) + "c = 1",
		"exists-300":          "SELECT a FROM t WHERE " + strings.Repeat("EXISTS (SELECT 1 FROM u) AND ", 300) + "c = 1",
		"in-subqueries-300":   "SELECT a FROM t WHERE " + strings.Repeat("a IN (SELECT 1) AND b NOT IN (SELECT 2) AND ", 150) + "c = 1",
		"in-lists-300":        "SELECT a FROM t WHERE " + strings.Repeat("a IN (1, 2) AND b NOT IN (-1, 3) AND ", 150) + "c = 1",
		"between-like-300":    "SELECT a FROM t WHERE " + strings.Repeat("a BETWEEN 1 AND 2 AND b NOT BETWEEN -1 AND 3 AND c LIKE 'x' AND d NOT LIKE 'y' AND ", 75) + "c = 1",
		"is-null-300":         "SELECT a FROM t WHERE " + strings.Repeat("a IS NULL AND b IS NOT NULL AND NOT c IS NULL AND ", 100) + "c = 1",
		"any-all-300":         "SELECT a FROM t WHERE " + strings.Repeat("a = ANY (SELECT 1) AND b > ALL (SELECT 2) AND ", 150) + "c = 1",
		"scalar-subqueries-300": "SELECT " + strings.Repeat("(SELECT 1), ", 300) + "0 FROM t",
		"casts-and-subscripts": "SELECT " + strings.Repeat("a::int, b[1], CAST(c AS TEXT), ARRAY[1, 2], (1, 2), ", 60) + "0 FROM t",
		"windows-and-filters":  "SELECT " + strings.Repeat("SUM(a) OVER (PARTITION BY b ORDER BY c), COUNT(*) FILTER (WHERE d > 0), ", 100) + "0 FROM t",
		"interval-300":         "SELECT " + strings.Repeat("INTERVAL '1 day', CURRENT_DATE, ", 150) + "0 FROM t",
		"not-parenthesised-300": "SELECT a FROM t WHERE " + strings.Repeat("NOT (a = 1) AND NOT (NOT b) AND ", 150) + "c = 1",
		"derived-and-joins":    "SELECT a FROM t " + strings.Repeat("JOIN (SELECT 1 AS x) s ON s.x = t.a AND NOT EXISTS (SELECT 1) ", 150) + "WHERE c = 1",
		"match-against-200":    "SELECT a FROM t WHERE " + strings.Repeat("MATCH (a) AGAINST ('x' IN BOOLEAN MODE) AND ", 200) + "c = 1",
		"json-and-concat-300":  "SELECT " + strings.Repeat("a -> 'k', b ->> 'k', c || 'x', ", 100) + "0 FROM t",
	}
	for pn, pre := range preludes {
		for sn, sc := range second {
			a.Rec.Count("evaluations", 1)
			a.Rec.Distinct("cases", fmt.Sprintf("sequence/prelude/%s/%s", pn, sn))
			wit := map[string]interface{}{"first": trunc(pre, 120), "then": trunc(sc, 120)}
			p := parser.NewParser()
			toks := func(sql string) []models.TokenWithSpan { t, _ := mustTokenizer().Tokenize([]byte(sql)); return t }
			for k := 0; k < 2; k++ {
				if _, err := p.ParseFromModelTokens(toks(pre)); err != nil {
					a.Rec.Viol("C02/sequence/prelude/"+pn+"/rejected", "a flat statement is not refused for its width", firstLine(err.Error()), wit)
				}
			}
			if _, err := p.ParseFromModelTokens(toks(sc)); err == nil {
				a.Rec.Viol("C02/sequence/prelude/"+pn+"/then-"+sn+"/accepted-on-same-parser", "nesting beyond the limit is rejected by every statement a parser sees",
					"after two flat statements full of signed operands the same parser accepts "+sn, wit)
			}
			p.Release()
			// and inside one statement: the flat part first, the over-deep part last
			if strings.HasPrefix(pre, "SELECT ") && strings.HasPrefix(sc, "SELECT ") {
				one := strings.Replace(pre, "SELECT ", "SELECT "+strings.TrimPrefix(sc, "SELECT ")+", ", 1)
				two := strings.Replace(pre, " FROM t", ", "+strings.TrimPrefix(sc, "SELECT ")+" FROM t", 1)
				for _, q := range []string{one, two} {
					if _, err := gosqlx.Parse(q); err == nil {
						a.Rec.Viol("C02/sequence/prelude/"+pn+"/with-"+sn+"/accepted-in-one-statement", "nesting beyond the limit is rejected", "a statement holding both the flat list and the over-deep expression is accepted", map[string]interface{}{"sql": trunc(q, 300)})
					}
				}
			}
		}
	}
	tokens := func(sql string) []models.TokenWithSpan {
		t, err := mustTokenizer().Tokenize([]byte(sql))
		if err != nil {
			return nil
		}
		return t
	}
	for on, o := range over {
		for sn, sc := range second {
			for _, rounds := range []int{1, 3} {
				a.Rec.Count("evaluations", 1)
				a.Rec.Distinct("cases", fmt.Sprintf("sequence/%s/%s/%d", on, sn, rounds))
				wit := map[string]interface{}{"first": trunc(o, 120), "then": trunc(sc, 120), "rounds_of_first": rounds}
				p := parser.NewParser()
				for k := 0; k < rounds; k++ {
					if _, err := p.ParseFromModelTokens(tokens(o)); err == nil {
						a.Rec.Viol("C02/sequence/"+on+"/first-accepted", "nesting beyond the limit is rejected", "over-deep statement accepted", wit)
					}
				}
				if _, err := p.ParseFromModelTokens(tokens(sc)); err == nil {
					a.Rec.Viol("C02/sequence/"+on+"/then-"+sn+"/accepted-on-same-parser", "nesting beyond the limit is rejected by every statement a parser sees",
						fmt.Sprintf("after %d over-deep %s statement(s) the same parser accepts %s", rounds, on, sn), wit)
				}
				p.Release()
				// the same pair as one recovery script (one parser serves the whole script). What recovery makes of the
				// tail of a refused statement is C12's business; here a script of two over-deep statements must at
				// least be reported as faulty twice.
				_, errs := gosqlx.ParseWithRecovery(strings.Repeat(o+" ; ", rounds) + sc)
				if len(errs) < 2 {
					a.Rec.Viol("C02/sequence/"+on+"/then-"+sn+"/accepted-in-recovery-script", "nesting beyond the limit is rejected by every statement of a script",
						fmt.Sprintf("recovery parsing of [%d x over-deep %s ; %s] reports %d errors", rounds, on, sn, len(errs)), wit)
				}
			}
		}
	}
}

func c02Limits(a *ChildArgs) {
	max := tokenizer.MaxInputSize
	type shape struct {
		name string
		f    func(n int) string
	}
	shapes := []shape{
		{"blanks", func(n int) string { return "SELECT 1" + strings.Repeat(" ", n-8) }},
		{"one-string", func(n int) string { return "SELECT '" + strings.Repeat("x", n-9) + "'" }},
		{"one-comment", func(n int) string { return "SELECT 1 /*" + strings.Repeat("c", n-13) + "*/" }},
		{"newlines", func(n int) string { return "SELECT 1" + strings.Repeat("\n", n-8) }},
	}
	code := func(err error) string {
		var ge *goerrors.Error
		if errors.As(err, &ge) {
			return string(ge.Code)
		}
		if err == nil {
			return "accepted"
		}
		return "unstructured"
	}
	run := func(ep string, s string) string {
		switch ep {
		case "Tokenize":
			tk := mustTokenizer()
			_, err := tk.Tokenize([]byte(s))
			return code(err)
		default:
			_, err := gosqlx.Parse(s)
			return code(err)
		}
	}
	for _, sh := range shapes {
		for _, ep := range []string{"Tokenize", "gosqlx.Parse"} {
			for _, delta := range []int{-1, 0, 1, 2} {
				n := max + delta
				s := sh.f(n)
				a.Rec.Count("evaluations", 1)
				a.Rec.Distinct("cases", fmt.Sprintf("size/%s/%s/%+d", sh.name, ep, delta))
				c := run(ep, s)
				wit := map[string]interface{}{"shape": sh.name, "bytes": len(s), "entry_point": ep, "outcome": c}
				if delta >= 1 && c != "E1006" {
					a.Rec.Viol(fmt.Sprintf("C02/size/%s/%s/over-limit-%s", sh.name, ep, c), "input longer than the byte limit is rejected with the dedicated limit error", fmt.Sprintf("%d bytes (limit %d): %s", len(s), max, c), wit)
				}
				if delta <= 0 && c == "E1006" {
					a.Rec.Viol(fmt.Sprintf("C02/size/%s/%s/at-limit-rejected", sh.name, ep), "input exactly at the limit is not rejected for that reason", fmt.Sprintf("%d bytes (limit %d) rejected with E1006", len(s), max), wit)
				}
			}
		}
	}
	// every text entry point that parses or validates: an input one byte over the limit is refused with the limit
	// error whatever it consists of (blanks only, blanks around a short statement, line breaks only)
	overShapes := []shape{
		{"only-blanks", func(n int) string { return strings.Repeat(" ", n) }},
		{"only-newlines", func(n int) string { return strings.Repeat("\n", n) }},
		{"leading-blanks", func(n int) string { return strings.Repeat(" ", n-8) + "SELECT 1" }},
		{"padded-both-sides", func(n int) string { return strings.Repeat(" \t\r\n", (n-8)/8) + "SELECT 1" + strings.Repeat(" ", n-8-4*((n-8)/8)) }},
	}
	for _, sh := range overShapes {
		s := sh.f(max + 1)
		for _, ep := range TextEntryPoints() {
			if strings.HasPrefix(ep.Name, "Scanner.") || strings.HasPrefix(ep.Name, "textsecurity.") || strings.HasPrefix(ep.Name, "linter.") || strings.Contains(ep.Name, "ParseMultiple") {
				continue // text scanners and the linter document no size limit; the batch entry point is covered by its members
			}
			a.Rec.Count("evaluations", 1)
			a.Rec.Distinct("cases", "size-all/"+sh.name+"/"+ep.Name)
			if got := ep.F(s); got != "err:E1006" {
				a.Rec.Viol(fmt.Sprintf("C02/size/%s/%s/over-limit-%s", sh.name, ep.Name, strings.TrimPrefix(got, "err:")), "input longer than the byte limit is rejected with the dedicated limit error by every entry point",
					fmt.Sprintf("%d bytes (limit %d): %s", len(s), max, got), map[string]interface{}{"shape": sh.name, "bytes": len(s), "entry_point": ep.Name, "outcome": got})
			}
		}
	}
	// token limit
	mt := tokenizer.MaxTokens
	tokShapes := []shape{
		{"idents-spaced", func(n int) string { return strings.Repeat("a ", n) }},
		{"lparens", func(n int) string { return strings.Repeat("(", n) }},
		{"commas", func(n int) string { return strings.Repeat(",", n) }},
		{"numbers-lines", func(n int) string { return strings.Repeat("1\n", n) }},
		{"semicolons", func(n int) string { return strings.Repeat(";", n) }},
	}
	for _, sh := range tokShapes {
		for _, delta := range []int{-2, 2, 1000} {
			s := sh.f(mt + delta)
			a.Rec.Count("evaluations", 1)
			a.Rec.Distinct("cases", fmt.Sprintf("tokens/%s/%+d", sh.name, delta))
			tk := mustTokenizer()
			toks, err := tk.Tokenize([]byte(s))
			c := code(err)
			wit := map[string]interface{}{"shape": sh.name, "tokens_written": mt + delta, "outcome": c, "tokens_returned": len(toks)}
			if delta > 0 && c != "E1007" {
				a.Rec.Viol(fmt.Sprintf("C02/tokens/%s/over-limit-%s", sh.name, c), "input yielding more tokens than the token limit is rejected with the dedicated limit error", fmt.Sprintf("%d tokens written (limit %d): %s, %d tokens returned", mt+delta, mt, c, len(toks)), wit)
			}
			if delta < 0 && c == "E1007" {
				a.Rec.Viol(fmt.Sprintf("C02/tokens/%s/under-limit-rejected", sh.name), "input within the token limit is not rejected for that reason", fmt.Sprintf("%d tokens written (limit %d) rejected with E1007", mt+delta, mt), wit)
			}
			c02CheckStack(a, "tokens/"+sh.name, wit)
		}
	}
	// exactly at the limit: what follows the last token (nothing, blanks, a newline, a comment) is not a token
	for _, entry := range []string{"Tokenize", "TokenizeContext"} {
		for ti, tail := range []string{"", " ", "\n", "\r\n", "   \n\n", " -- end", "/* end */", "\n-- end\n"} {
			s := strings.Repeat("1,", mt/2-1) + "1" // mt-1 tokens
			s = "a " + s + tail                     // exactly mt tokens
			a.Rec.Count("evaluations", 1)
			a.Rec.Distinct("cases", fmt.Sprintf("tokens-at-limit/%s/%d", entry, ti))
			tk := mustTokenizer()
			var toks []models.TokenWithSpan
			var err error
			if entry == "Tokenize" {
				toks, err = tk.Tokenize([]byte(s))
			} else {
				toks, err = tk.TokenizeContext(context.Background(), []byte(s))
			}
			if c := code(err); c == "E1007" {
				a.Rec.Viol(fmt.Sprintf("C02/tokens/at-limit/%s/tail-%d/rejected", entry, ti), "input exactly at the limit is not rejected for that reason",
					fmt.Sprintf("%s: exactly %d tokens followed by %q rejected with E1007", entry, mt, tail), map[string]interface{}{"entry": entry, "tail": tail, "tokens_returned": len(toks)})
			}
		}
	}
	// the same boundary through every entry point that parses tokenizer output: a valid statement of exactly
	// MaxTokens tokens (the end marker the tokenizer appends is not a token of the input)
	// (the calls are independent of each other: eight at a time, with the stack monitor's hooks off - a flat list
	// is not its subject and its bookkeeping is not made for concurrent calls)
	{
		advHook, tokHook := parser.VerifAdvanceHook, tokenizer.VerifNextTokenHook
		parser.VerifAdvanceHook, tokenizer.VerifNextTokenHook = nil, nil
		defer func() { parser.VerifAdvanceHook, tokenizer.VerifNextTokenHook = advHook, tokHook }()
		var wg sync.WaitGroup
		slots := make(chan struct{}, 8)
		for ti, tail := range []string{"", " -- end\n"} {
			s := "SELECT 1" + strings.Repeat(",1", mt/2-1) + tail // exactly mt tokens
			for _, ep := range TextEntryPoints() {
				if strings.HasPrefix(ep.Name, "Scanner.") || strings.HasPrefix(ep.Name, "textsecurity.") || strings.HasPrefix(ep.Name, "linter.") || strings.Contains(ep.Name, "ParseMultiple") {
					continue
				}
				a.Rec.Count("evaluations", 1)
				a.Rec.Distinct("cases", fmt.Sprintf("tokens-at-limit-all/%s/%d", ep.Name, ti))
				wg.Add(1)
				slots <- struct{}{}
				go func(ep TextEP, ti int, tail, s string) {
					defer func() { <-slots; wg.Done() }()
					if got := ep.F(s); got == "err:E1007" {
						a.Rec.Viol(fmt.Sprintf("C02/tokens/at-limit/%s/tail-%d/rejected", ep.Name, ti), "input exactly at the limit is not rejected for that reason",
							fmt.Sprintf("%s: a statement of exactly %d tokens followed by %q rejected with E1007", ep.Name, mt, tail), map[string]interface{}{"entry": ep.Name, "tail": tail, "bytes": len(s)})
					}
				}(ep, ti, tail, s)
			}
		}
		wg.Wait()
	}
	// comments are not tokens: they must not count against the token limit
	for _, cs := range []struct {
		name   string
		tokens int
		f      func(n int) string
	}{
		{"idents-each-with-block-comment", mt - 2, func(n int) string { return strings.Repeat("a/**/", n) }},
		{"idents-each-with-line-comment", mt/2 + 10, func(n int) string { return strings.Repeat("a --\n", n) }},
		{"one-comment-then-idents", mt - 2, func(n int) string { return "/* c */" + strings.Repeat("a ", n) }},
		{"idents-then-comments", mt - 50, func(n int) string { return strings.Repeat("a ", n) + strings.Repeat("/**/", 100) }},
	} {
		s := cs.f(cs.tokens)
		a.Rec.Count("evaluations", 1)
		a.Rec.Distinct("cases", "tokens-with-comments/"+cs.name)
		tk := mustTokenizer()
		toks, err := tk.Tokenize([]byte(s))
		if c := code(err); c == "E1007" {
			a.Rec.Viol("C02/tokens/"+cs.name+"/under-limit-rejected", "input within the token limit is not rejected for that reason",
				fmt.Sprintf("%d tokens and %d bytes written (limit %d tokens) rejected with E1007: comments counted as tokens?", cs.tokens, len(s), mt), map[string]interface{}{"shape": cs.name, "tokens_written": cs.tokens, "tokens_returned": len(toks)})
		}
	}
	a.Rec.Sample("limits", 1, map[string]interface{}{"MaxInputSize": max, "MaxTokens": mt})
}

// c02TokenDepth drives nesting through the token API to depths no text input reaches cheaply.
func c02TokenDepth(a *ChildArgs) {
	eof := token.Token{Type: models.TokenTypeEOF}
	tk := func(t models.TokenType, lit string) token.Token { return token.Token{Type: t, Literal: lit} }
	sel, one, star, from := tk(models.TokenTypeSelect, "SELECT"), tk(models.TokenTypeNumber, "1"), tk(models.TokenTypeAsterisk, "*"), tk(models.TokenTypeFrom, "FROM")
	lp, rp := tk(models.TokenTypeLParen, "("), tk(models.TokenTypeRParen, ")")
	type fam struct {
		name      string
		pre, unit []token.Token
		base      []token.Token
		unitSuf   []token.Token
	}
	fams := []fam{
		{"lparen", []token.Token{sel}, []token.Token{lp}, []token.Token{one}, []token.Token{rp}},
		{"not", []token.Token{sel}, []token.Token{tk(models.TokenTypeNot, "NOT")}, []token.Token{one}, nil},
		{"minus", []token.Token{sel}, []token.Token{tk(models.TokenTypeMinus, "-")}, []token.Token{one}, nil},
		{"derived", nil, []token.Token{sel, star, from, lp}, []token.Token{sel, one}, []token.Token{rp, tk(models.TokenTypeIdentifier, "x")}},
		{"func", []token.Token{sel}, []token.Token{tk(models.TokenTypeIdentifier, "f"), lp}, []token.Token{one}, []token.Token{rp}},
		{"case-when", []token.Token{sel}, []token.Token{tk(models.TokenTypeCase, "CASE"), tk(models.TokenTypeWhen, "WHEN")}, []token.Token{one}, []token.Token{tk(models.TokenTypeThen, "THEN"), one, tk(models.TokenTypeEnd, "END")}},
		{"cte", nil, []token.Token{tk(models.TokenTypeWith, "WITH"), tk(models.TokenTypeIdentifier, "c"), tk(models.TokenTypeAs, "AS"), lp}, []token.Token{sel, one}, []token.Token{rp, sel, one}},
		{"subscript", []token.Token{sel}, []token.Token{tk(models.TokenTypeIdentifier, "a"), tk(models.TokenTypeLBracket, "[")}, []token.Token{one}, []token.Token{tk(models.TokenTypeRBracket, "]")}},
		{"array", []token.Token{sel}, []token.Token{tk(models.TokenTypeArray, "ARRAY"), tk(models.TokenTypeLBracket, "[")}, []token.Token{one}, []token.Token{tk(models.TokenTypeRBracket, "]")}},
		{"exists", []token.Token{sel}, []token.Token{tk(models.TokenTypeExists, "EXISTS"), lp, sel}, []token.Token{one}, []token.Token{rp}},
		{"in-subquery", []token.Token{sel}, []token.Token{one, tk(models.TokenTypeIn, "IN"), lp, sel}, []token.Token{one}, []token.Token{rp}},
	}
	depths := []int{150, 100000, 450000}
	seq := -1
	for fi, f := range fams {
		if fi%a.NShards != a.Shard {
			continue
		}
		for _, d := range depths {
			seq++
			if seq < a.N {
				continue
			}
			if a.Quick() && d > 100000 {
				continue
			}
			if (len(f.unit)+len(f.unitSuf))*d+8 > tokenizer.MaxTokens {
				continue
			}
			id := fmt.Sprintf("toknest/%s/d=%d", f.name, d)
			toks := append([]token.Token(nil), f.pre...)
			for i := 0; i < d; i++ {
				toks = append(toks, f.unit...)
			}
			toks = append(toks, f.base...)
			for i := 0; i < d; i++ {
				toks = append(toks, f.unitSuf...)
			}
			toks = append(toks, eof)
			a.Rec.Begin(int64(seq), id, []byte(id))
			a.Rec.Count("evaluations", 1)
			a.Rec.Distinct("cases", id)
			_, err := parser.NewParser().Parse(toks)
			wit := map[string]interface{}{"case": id, "tokens": len(toks)}
			if err == nil {
				a.Rec.Viol("C02/toknest/"+f.name+"/deep-accepted", "nesting beyond the documented depth limit is rejected with an error", fmt.Sprintf("depth %d accepted", d), wit)
			}
			c02CheckStack(a, id, wit)
		}
	}
	a.Rec.Sample("toknest", 1, map[string]string{"case": "toknest/derived/d=100000", "unit": "SELECT * FROM ("})
}
