package props

import (
	"bytes"
	"encoding/json"
	"fmt"
	"io"
	"log"
	"runtime"
	"strconv"
	"strings"
	"time"
	"unicode/utf8"

	"github.com/ajitpratap0/GoSQLX/pkg/lsp"
)

// lspFrame is one message written by the server.
type lspFrame struct {
	HasID  bool
	ID     string // raw JSON of the id
	Method string
	Result json.RawMessage
	Error  json.RawMessage
	Params json.RawMessage
	Raw    []byte
}

type lspSession struct {
	Deadlock string // stack of the server goroutine parked on a lock it can never get
	Stalled  bool   // the session did not return and is not parked on a lock: inconclusive
	Out      []byte
	Frames   []lspFrame
	FrameErr string // non-empty if the output is not a sequence of exactly framed JSON messages
	Panic    string
	RunErr   error
	Server   *lsp.Server
	Returned bool
}

func lspFrameMsg(body []byte) []byte {
	return append([]byte(fmt.Sprintf("Content-Length: %d\r\n\r\n", len(body))), body...)
}

func lspJSON(v interface{}) []byte {
	b, _ := json.Marshal(v)
	return b
}

func lspReq(id interface{}, method string, params interface{}) []byte {
	m := map[string]interface{}{"jsonrpc": "2.0", "id": id, "method": method}
	if params != nil {
		m["params"] = params
	}
	return lspFrameMsg(lspJSON(m))
}

func lspNotif(method string, params interface{}) []byte {
	m := map[string]interface{}{"jsonrpc": "2.0", "method": method}
	if params != nil {
		m["params"] = params
	}
	return lspFrameMsg(lspJSON(m))
}

// lspRun feeds the byte stream to a fresh server and returns everything it wrote.
func lspRun(input []byte) *lspSession {
	s := &lspSession{}
	var out bytes.Buffer
	srv := lsp.NewServer(bytes.NewReader(input), &out, log.New(io.Discard, "", 0))
	s.Server = srv
	done := make(chan struct{})
	go func() {
		defer close(done)
		defer func() {
			if r := recover(); r != nil {
				s.Panic = fmt.Sprint(r)
			}
		}()
		s.RunErr = srv.Run()
		s.Returned = true
	}()
	// The input is in memory, so the server never waits for a peer: a session takes milliseconds.  If it has not
	// returned after a long while, what decides is the state of its goroutine, not the clock: parked on a lock
	// (twice, in the same place) with nobody left who could release it is a deadlock; anything else is inconclusive.
	select {
	case <-done:
	case <-time.After(20 * time.Second):
		st1 := lspServerGoroutine()
		select {
		case <-done:
		case <-time.After(2 * time.Second):
			st2 := lspServerGoroutine()
			if st1 != "" && st1 == st2 && lspParkedOnLock(st1) {
				s.Deadlock = st1
			} else {
				s.Stalled = true
			}
			// the goroutine is left behind; its output buffer must not be read while it may still write
			return &lspSession{Server: srv, Deadlock: s.Deadlock, Stalled: s.Stalled}
		}
	}
	s.Out = out.Bytes()
	s.Frames, s.FrameErr = lspParseFrames(s.Out)
	return s
}

// lspServerGoroutine returns the stack of the goroutine that is inside Server.Run ("" if none).
func lspServerGoroutine() string {
	buf := make([]byte, 1<<20)
	buf = buf[:runtime.Stack(buf, true)]
	for _, g := range strings.Split(string(buf), "\n\n") {
		if strings.Contains(g, "lsp.(*Server).Run") {
			// drop the goroutine number and the waiting time, which differ between two samples
			lines := strings.Split(g, "\n")
			if len(lines) > 0 {
				if i := strings.Index(lines[0], "["); i >= 0 {
					st := lines[0][i:]
					if j := strings.Index(st, ","); j >= 0 {
						st = st[:j] + "]"
					}
					lines[0] = st
				}
			}
			return strings.Join(lines, "\n")
		}
	}
	return ""
}

func lspParkedOnLock(stack string) bool {
	first := stack
	if i := strings.IndexByte(stack, '\n'); i >= 0 {
		first = stack[:i]
	}
	return strings.Contains(first, "semacquire") || strings.Contains(first, "sync.Mutex.Lock") || strings.Contains(first, "sync.RWMutex")
}

func lspParseFrames(out []byte) ([]lspFrame, string) {
	var frames []lspFrame
	rest := out
	for len(rest) > 0 {
		i := bytes.Index(rest, []byte("\r\n\r\n"))
		if i < 0 {
			return frames, fmt.Sprintf("trailing bytes without a complete header: %q", trunc(string(rest), 80))
		}
		cl := -1
		for _, h := range strings.Split(string(rest[:i]), "\r\n") {
			if strings.HasPrefix(h, "Content-Length:") {
				n, err := strconv.Atoi(strings.TrimSpace(strings.TrimPrefix(h, "Content-Length:")))
				if err != nil {
					return frames, "unparsable Content-Length: " + h
				}
				cl = n
			}
		}
		if cl < 0 {
			return frames, fmt.Sprintf("header without Content-Length: %q", trunc(string(rest[:i]), 80))
		}
		body := rest[i+4:]
		if len(body) < cl {
			return frames, fmt.Sprintf("Content-Length %d but only %d bytes follow", cl, len(body))
		}
		var m struct {
			ID     json.RawMessage `json:"id"`
			Method string          `json:"method"`
			Result json.RawMessage `json:"result"`
			Error  json.RawMessage `json:"error"`
			Params json.RawMessage `json:"params"`
		}
		if err := json.Unmarshal(body[:cl], &m); err != nil {
			return frames, fmt.Sprintf("frame body of declared length %d is not one JSON value: %v (%q)", cl, err, trunc(string(body[:cl]), 80))
		}
		f := lspFrame{Method: m.Method, Result: m.Result, Error: m.Error, Params: m.Params, Raw: body[:cl]}
		if len(m.ID) > 0 && string(m.ID) != "null" {
			f.HasID, f.ID = true, string(m.ID)
		}
		frames = append(frames, f)
		rest = body[cl:]
	}
	return frames, ""
}

// ---- the protocol's position model -------------------------------------------------------------------------

// lspOffset converts a (line, UTF-16 character) position into a byte offset of text, clamping past-the-end positions.
func lspOffset(text string, line, char int) int {
	if line < 0 {
		return 0
	}
	off := 0
	for l := 0; l < line; l++ {
		i := strings.IndexByte(text[off:], '\n')
		if i < 0 {
			return len(text) // past the last line: end of document
		}
		off += i + 1
	}
	if char < 0 {
		char = 0
	}
	// walk UTF-16 units within the line (the line ends before its "\n" or "\r\n")
	end := strings.IndexByte(text[off:], '\n')
	lineEnd := len(text)
	if end >= 0 {
		lineEnd = off + end
		if lineEnd > off && text[lineEnd-1] == '\r' {
			lineEnd--
		}
	}
	u := 0
	i := off
	for i < lineEnd && u < char {
		r, sz := utf8.DecodeRuneInString(text[i:])
		w := 1
		if r >= 0x10000 {
			w = 2
		}
		if u+w > char {
			break // position inside a surrogate pair: stay before the character
		}
		u += w
		i += sz
	}
	return i
}

// lspApply applies one content change under the protocol's rules. full: no range given.
func lspApply(text string, full bool, sl, sc, el, ec int, newText string) string {
	if full {
		return newText
	}
	s := lspOffset(text, sl, sc)
	e := lspOffset(text, el, ec)
	if e < s {
		s, e = e, s
	}
	return text[:s] + newText + text[e:]
}

func jsonUnmarshal(b []byte, v interface{}) error {
	if len(b) == 0 || string(b) == "null" {
		return nil
	}
	return json.Unmarshal(b, v)
}
