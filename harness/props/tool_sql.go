package props

import (
	"fmt"

	"github.com/ajitpratap0/GoSQLX/pkg/gosqlx"
	"verifharness/dump"
)

// ToolSQL is a developer aid: parse and print.
func ToolSQL(sql string) {
	a, err := gosqlx.Parse(sql)
	if err != nil {
		fmt.Println("ERR:", err)
		return
	}
	fmt.Println(dump.Dump(a))
	fmt.Println("SQL():", a.SQL())
}
