package props

import (
	"context"
	"errors"
	"fmt"
	"github.com/ajitpratap0/GoSQLX/pkg/gosqlx"
	"math/rand"
	"strings"

	goerrors "github.com/ajitpratap0/GoSQLX/pkg/errors"
	"github.com/ajitpratap0/GoSQLX/pkg/models"
	"github.com/ajitpratap0/GoSQLX/pkg/sql/parser"
	"verifharness/gen"
	"verifharness/lexgen"
	"verifharness/mon"
)

func init() {
	Registry["C05"] = &Prop{Level: "exploration", Parent: c05Parent, Child: c05Child}
}

func c05Parent(c *mon.Ctx) {
	c.Rule = "texts are laid out by the harness, which therefore knows the byte offset, line and column at which every lexeme and comment begins and ends; every TokenWithSpan.Start/End and Comment.Start/End is compared with that record (exact on ASCII tab-free lines; line exact, column ordered and inside the line otherwise), the stream must be ordered and non-overlapping with EOF at the end of the text; tokenizer errors for ill-formed lexemes placed at known positions, and position-tracking parser errors for a never-legal token inserted at a known position, must carry the location of that lexeme. distinct_nontrivial = distinct texts"
	c.DistinctSet = "texts"
	c.Assumptions = []string{"columns on lines containing tabs or non-ASCII bytes are only required to be 1-based, ordered and inside the line (the property leaves their unit open)", "the inserted error token is one no production of the parser accepts (# ! and ] in statements without brackets), so the offending token is known by construction"}
	per := 1500
	if c.Tier == "thorough" {
		per = 60000
	}
	sh := shards("plain", "pairs", 2)
	sh = append(sh, shards("plain", "catalogue", 2)...)
	sh = append(sh, shards("plain", "random", 8, "-n", fmt.Sprint(per))...)
	sh = append(sh, shards("plain", "compound", 1)...)
	sh = append(sh, shards("plain", "lexerr", 1, "-n", fmt.Sprint(per))...)
	sh = append(sh, shards("plain", "parserr", 4, "-n", fmt.Sprint(per))...)
	res := c.RunShards(sh, 16)
	c.ClassifyDeaths(res, "tokenizing returns")
}

type lineInfo struct {
	start, end int // byte offsets, end excludes the newline
	plain      bool
	tabs       int // the tokenizer counts a tab as four columns and every other byte as one
}

func linesOf(s string) []lineInfo {
	var out []lineInfo
	st := 0
	for i := 0; i <= len(s); i++ {
		if i == len(s) || s[i] == '\n' {
			ln := s[st:i]
			pl := !strings.ContainsRune(ln, '\t')
			for k := 0; k < len(ln) && pl; k++ {
				if ln[k] >= 0x80 {
					pl = false
				}
			}
			out = append(out, lineInfo{st, i, pl, strings.Count(ln, "\t")})
			st = i + 1
		}
	}
	return out
}

func locLess(a, b models.Location) bool {
	return a.Line < b.Line || a.Line == b.Line && a.Column < b.Column
}

// c05CheckLoc compares one reported location with the known (line, col) of a byte offset.
// what names the element for identities. Returns false if a violation was recorded.
func c05CheckLoc(a *ChildArgs, id, what string, got models.Location, wantLine, wantCol int, lines []lineInfo, wit interface{}) bool {
	if got.Line < 1 || got.Column < 1 {
		a.Rec.Viol(id+"/not-1-based", "1-based line and column", fmt.Sprintf("%s reported at %d:%d", what, got.Line, got.Column), wit)
		return false
	}
	if got.Line > len(lines) {
		a.Rec.Viol(id+"/outside-input", "always inside the input", fmt.Sprintf("%s reported on line %d of a %d-line text", what, got.Line, len(lines)), wit)
		return false
	}
	if got.Line != wantLine {
		a.Rec.Viol(id+"/line", "identify the line at which that element really begins and ends", fmt.Sprintf("%s is on line %d, reported %d:%d", what, wantLine, got.Line, got.Column), wit)
		return false
	}
	li := lines[got.Line-1]
	if li.plain {
		if got.Column != wantCol {
			a.Rec.Viol(id+"/column", "identify the column at which that element really begins and ends", fmt.Sprintf("%s is at %d:%d, reported %d:%d", what, wantLine, wantCol, got.Line, got.Column), wit)
			return false
		}
	} else if got.Column > (li.end-li.start)+3*li.tabs+1 {
		a.Rec.Viol(id+"/outside-input", "always inside the input", fmt.Sprintf("%s reported at column %d of a %d-byte line", what, got.Column, li.end-li.start), wit)
		return false
	}
	return true
}

func c05CheckText(a *ChildArgs, idBase string, t lexgen.Text) {
	a.Rec.Count("evaluations", 1)
	a.Rec.Distinct("texts", t.S)
	tk := mustTokenizer()
	toks, err := tk.Tokenize([]byte(t.S))
	if err != nil {
		return // acceptance is C04's business
	}
	wit := map[string]interface{}{"text": t.S}
	lines := linesOf(t.S)
	n := len(toks)
	if n == 0 || toks[n-1].Token.Type != models.TokenTypeEOF || n-1 != len(t.Lexemes) {
		return // C04
	}
	ok := true
	for i, lx := range t.Lexemes {
		tw := toks[i]
		what := fmt.Sprintf("token %d %q", i, lx.Text)
		ok = c05CheckLoc(a, idBase+"/start/"+lx.Class.String(), what+" start", tw.Start, lx.Line, lx.Col, lines, wit) && ok
		ok = c05CheckLoc(a, idBase+"/end/"+lx.Class.String(), what+" end", tw.End, lx.EndLine, lx.EndCol, lines, wit) && ok
		if locLess(tw.End, tw.Start) {
			a.Rec.Viol(idBase+"/end-before-start", "never decreasing along the stream", fmt.Sprintf("%s: start %v end %v", what, tw.Start, tw.End), wit)
			ok = false
		}
		if i > 0 && locLess(tw.Start, toks[i-1].End) {
			a.Rec.Viol(idBase+"/overlap", "end of one element never after the start of the next", fmt.Sprintf("%s starts at %v before the previous token's end %v", what, tw.Start, toks[i-1].End), wit)
			ok = false
		}
	}
	a.Rec.Sample("positions", 3, map[string]interface{}{"text": trunc(t.S, 200), "tokens_checked": len(t.Lexemes), "comments_checked": len(t.Comments), "last_token_at": fmt.Sprintf("%d:%d", toks[n-1].Start.Line, toks[n-1].Start.Column)})
	// EOF: at the end of the text
	eof := toks[n-1]
	el, ec := len(lines), lines[len(lines)-1].end-lines[len(lines)-1].start+1
	c05CheckLoc(a, idBase+"/eof", "end-of-input marker", eof.Start, el, ec, lines, wit)
	if n > 1 && locLess(eof.Start, toks[n-2].End) {
		a.Rec.Viol(idBase+"/eof-before-last", "never decreasing along the stream", fmt.Sprintf("EOF at %v before last token end %v", eof.Start, toks[n-2].End), wit)
	}
	if len(tk.Comments) == len(t.Comments) {
		for i, c := range t.Comments {
			got := tk.Comments[i]
			kind := "line-comment"
			if c.Block {
				kind = "block-comment"
			}
			what := fmt.Sprintf("comment %d %q", i, c.Text)
			c05CheckLoc(a, idBase+"/start/"+kind, what+" start", got.Start, c.Line, c.Col, lines, wit)
			c05CheckLoc(a, idBase+"/end/"+kind, what+" end", got.End, c.EndLine, c.EndCol, lines, wit)
		}
	}
	_ = ok
}

func c05Child(a *ChildArgs) {
	ident := func(s string) lexgen.Lexeme { return lexgen.Lexeme{Class: lexgen.Word, Text: s, Value: s} }
	switch a.Phase {
	case "pairs":
		ops := lexgen.AllOps()
		n := 0
		for _, o1 := range ops {
			for _, o2 := range ops {
				n++
				if n%a.NShards != a.Shard {
					continue
				}
				for sep := range lexgen.SepNames {
					lexgen.Rot = n
					t := lexgen.Build([]lexgen.Lexeme{ident("a"), o1, o2, ident("b")}, []int{sep % 7, 1, sep, 1, 0}, nil)
					c05CheckText(a, "C05/oppair/"+lexgen.SepNames[sep], t)
				}
			}
		}
	case "catalogue":
		cat := lexgen.Catalogue()
		reps := []lexgen.Lexeme{ident("x"), {Class: lexgen.Number, Text: "7", Value: "7"}, {Class: lexgen.String, Text: "'s'", Value: "s"}, {Class: lexgen.Op, Text: "(", Value: "("},
			{Class: lexgen.String, Text: "'two\nlines'", Value: "two\nlines"}, {Class: lexgen.Word, Text: "SELECT", Value: "SELECT", Keyword: true}}
		n := 0
		for _, lx := range cat {
			for _, rp := range reps {
				n++
				if n%a.NShards != a.Shard {
					continue
				}
				for sep := range lexgen.SepNames {
					for _, order := range []int{0, 1} {
						lex := []lexgen.Lexeme{lx, rp, ident("z")}
						if order == 1 {
							lex = []lexgen.Lexeme{rp, lx, ident("z")}
						}
						lexgen.Rot = n
						t := lexgen.Build(lex, []int{sep, sep, (sep + n) % len(lexgen.SepNames), sep % 3}, nil)
						c05CheckText(a, fmt.Sprintf("C05/cat/%s", lexgen.SepNames[sep]), t)
					}
				}
			}
		}
	case "random":
		base := a.Seed*7919 + int64(a.Shard)*104729
		for i := 0; i < a.N; i++ {
			r := rand.New(rand.NewSource(base + int64(i)*15485863))
			n := 3 + r.Intn(40)
			lex := make([]lexgen.Lexeme, n)
			for k := range lex {
				lex[k] = lexgen.RandomLexeme(r)
			}
			for v := 0; v < 2; v++ {
				seps := make([]int, n+1)
				for k := range seps {
					seps[k] = r.Intn(len(lexgen.SepNames))
				}
				lexgen.Rot = r.Intn(1000)
				t := lexgen.Build(lex, seps, nil)
				c05CheckText(a, "C05/random", t)
			}
		}
	case "compound":
		// words that open a compound keyword: merged with the next word (one token spanning both), or left alone
		// (their own span) when what follows does not complete a compound, whatever separates the two
		compounds := map[string]bool{"GROUP BY": true, "ORDER BY": true, "LEFT JOIN": true, "RIGHT JOIN": true, "INNER JOIN": true, "OUTER JOIN": true, "FULL JOIN": true, "CROSS JOIN": true, "GROUPING SETS": true}
		starts := []string{"GROUP", "ORDER", "LEFT", "RIGHT", "INNER", "OUTER", "CROSS", "NATURAL", "FULL", "GROUPING"}
		nexts := []string{"BY", "JOIN", "SETS", "OUTER", "x", ",", "(", ""}
		kwl := func(s string) lexgen.Lexeme {
			if s == "," || s == "(" {
				return lexgen.Lexeme{Class: lexgen.Op, Text: s, Value: s}
			}
			return lexgen.Lexeme{Class: lexgen.Word, Text: s, Value: s, Keyword: s != "x"}
		}
		for wi, w1 := range starts {
			for ni, nx := range nexts {
				for sep := 1; sep < len(lexgen.SepNames); sep++ {
					for cs := 0; cs < 4; cs++ {
						lexgen.Rot = wi*7 + ni*3 + sep
						lead := "t"
						if cs >= 2 {
							lead = "accounts_receivable_2024_q3" // a rewound look-ahead is shorter than the text before it
						}
						kc := func(i int, s string) string {
							if cs%2 == 1 {
								return strings.ToLower(s)
							}
							return s
						}
						lex := []lexgen.Lexeme{ident(lead), kwl(w1)}
						seps := []int{0, 1, sep}
						if nx != "" {
							lex = append(lex, kwl(nx), ident("c"))
							seps = []int{0, 1, sep, 1, sep % 7}
						}
						t := lexgen.Build(lex, seps, kc)
						a.Rec.Count("evaluations", 1)
						a.Rec.Distinct("texts", t.S)
						tk := mustTokenizer()
						toks, err := tk.Tokenize([]byte(t.S))
						if err != nil {
							continue
						}
						lines := linesOf(t.S)
						wit := map[string]interface{}{"text": t.S}
						merged := nx != "" && compounds[w1+" "+strings.ToUpper(nx)]
						id := fmt.Sprintf("C05/compound/%s %s/%s", w1, nx, lexgen.SepNames[sep])
						// expected spans
						type span struct{ l0, c0, l1, c1 int }
						var want []span
						for i, lx := range t.Lexemes {
							if merged && i == 2 {
								want[len(want)-1].l1, want[len(want)-1].c1 = lx.EndLine, lx.EndCol
								continue
							}
							want = append(want, span{lx.Line, lx.Col, lx.EndLine, lx.EndCol})
						}
						if len(toks) != len(want)+1 {
							continue // token-level questions are C04's
						}
						for i, w := range want {
							what := fmt.Sprintf("token %d %q", i, toks[i].Token.Value)
							c05CheckLoc(a, id+"/start", what+" start", toks[i].Start, w.l0, w.c0, lines, wit)
							c05CheckLoc(a, id+"/end", what+" end", toks[i].End, w.l1, w.c1, lines, wit)
							if i > 0 && locLess(toks[i].Start, toks[i-1].End) {
								a.Rec.Viol(id+"/overlap", "end of one element never after the start of the next", fmt.Sprintf("%s starts at %v before the previous token's end %v", what, toks[i].Start, toks[i-1].End), wit)
							}
						}
						if len(tk.Comments) == len(t.Comments) {
							for i, c := range t.Comments {
								c05CheckLoc(a, id+"/comment-start", fmt.Sprintf("comment %d", i), tk.Comments[i].Start, c.Line, c.Col, lines, wit)
								c05CheckLoc(a, id+"/comment-end", fmt.Sprintf("comment %d", i), tk.Comments[i].End, c.EndLine, c.EndCol, lines, wit)
							}
						}
					}
				}
			}
		}
	case "lexerr":
		// ill-formed lexemes at known positions: the tokenizer error must point at the lexeme's first character
		bad := []struct{ name, text string }{{"unterminated-string", "'abc"}, {"unterminated-qident", "\"abc"}, {"unterminated-backtick", "`abc"}, {"unterminated-block-comment", "/* abc"},
			{"unterminated-dollar", "$t$ abc"}, {"stray-char", "\x01"}, {"bad-escape", "'a\\qb'"}, {"unterminated-multiline-string", "'ab\ncd"},
			{"unterminated-qident-then-newline", "\"abc\nmore"}, {"dangling-backslash", "'abc\\"}, {"unterminated-triple", "'''abc"}}
		base := a.Seed*7919 + int64(a.Shard)*104729
		for i := 0; i < a.N/2; i++ {
			r := rand.New(rand.NewSource(base + int64(i)*15485863))
			n := 1 + r.Intn(12)
			lex := make([]lexgen.Lexeme, n)
			for k := range lex {
				lex[k] = lexgen.RandomLexeme(r)
			}
			seps := make([]int, n+1)
			for k := range seps {
				seps[k] = 1 + r.Intn(len(lexgen.SepNames)-1)
			}
			lexgen.Rot = r.Intn(1000)
			t := lexgen.Build(lex, seps, nil)
			b := bad[i%len(bad)]
			text := t.S + b.text
			lines := linesOf(t.S)
			wl, wc := len(lines), lines[len(lines)-1].end-lines[len(lines)-1].start+1
			if b.name == "bad-escape" {
				text += " z"
			}
			a.Rec.Count("evaluations", 1)
			a.Rec.Distinct("texts", text)
			all := linesOf(text)
			// the same lexical error through every entry point that reports one: the location is that of the text as given
			for epName, ep := range map[string]func(string) error{
				"Tokenizer.Tokenize": func(s string) error { _, err := mustTokenizer().Tokenize([]byte(s)); return err },
				"Tokenizer.TokenizeContext": func(s string) error {
					_, err := mustTokenizer().TokenizeContext(context.Background(), []byte(s))
					return err
				},
				"gosqlx.Parse":         func(s string) error { _, err := gosqlx.Parse(s); return err },
				"gosqlx.Validate":      func(s string) error { return gosqlx.Validate(s) },
				"parser.Validate":      func(s string) error { return parser.Validate(s) },
				"parser.ValidateBytes": func(s string) error { return parser.ValidateBytes([]byte(s)) },
				"parser.ParseBytes":    func(s string) error { _, err := parser.ParseBytes([]byte(s)); return err },
				"gosqlx.ParseWithRecovery": func(s string) error {
					_, errs := gosqlx.ParseWithRecovery(s)
					if len(errs) > 0 {
						return errs[0]
					}
					return nil
				},
			} {
				if epName != "Tokenizer.Tokenize" {
					err := ep(text)
					var ge *goerrors.Error
					if err == nil || !errors.As(err, &ge) || !strings.HasPrefix(string(ge.Code), "E1") || ge.Code == "E1006" {
						continue
					}
					if ge.Location.Line == 0 && ge.Location.Column == 0 {
						continue
					}
					if b.name == "bad-escape" {
						continue
					}
					c05CheckLoc(a, "C05/lexerr-ep/"+epName+"/"+b.name, "ill-formed lexeme "+b.name+" via "+epName, ge.Location, wl, wc, all, map[string]string{"text": text, "entry_point": epName})
				}
			}
			tk := mustTokenizer()
			_, err := tk.Tokenize([]byte(text))
			wit := map[string]string{"text": text}
			if err == nil {
				continue // C04 judges acceptance
			}
			var ge *goerrors.Error
			if !errors.As(err, &ge) {
				continue // C13
			}
			id := "C05/lexerr/" + b.name
			if ge.Location.Line == 0 && ge.Location.Column == 0 {
				a.Rec.Viol(id+"/no-location", "the location carried by each tokenizer error identifies where the element begins", "tokenizer error without location: "+firstLine(err.Error()), wit)
				continue
			}
			if b.name == "bad-escape" {
				// the offending element is the escape inside the literal: anywhere inside the literal is accepted
				if ge.Location.Line != wl || ge.Location.Column < 1 || (all[wl-1].plain && (ge.Location.Column < wc || ge.Location.Column > wc+len(b.text))) {
					a.Rec.Viol(id+"/location", "the location carried by each tokenizer error points into the offending element", fmt.Sprintf("literal spans %d:%d-%d, error at %d:%d", wl, wc, wc+len(b.text), ge.Location.Line, ge.Location.Column), wit)
				}
				continue
			}
			c05CheckLoc(a, id, "ill-formed lexeme "+b.name, ge.Location, wl, wc, all, wit)
		}
	case "parserr":
		avoid := mon.AvoidFeatures()
		base := a.Seed*7919 + int64(a.Shard)*104729
		for i := 0; i < a.N/2; i++ {
			seed := base + int64(i)*15485863
			c05Poison(a, avoid, seed, false)
		}
		// fixed layer (seed-independent): the never-legal token directly after every keyword of a fixed statement set
		for i := a.Shard; i < 400; i += a.NShards {
			c05Poison(a, avoid, int64(i)*2654435761+17, true)
		}
		if a.Shard == 0 {
			c05DepthLocated(a)
		}
	}
}

// c05DepthLocated: an error raised by a nesting guard is located like any other error of the position-tracking
// parser: on the line where the over-deep construct stands (here line 3), inside that line.
func c05DepthLocated(a *ChildArgs) {
	for name, deep := range map[string]string{
		"parentheses": strings.Repeat("(", 150) + "1" + strings.Repeat(")", 150), "calls": strings.Repeat("f(", 150) + "1" + strings.Repeat(")", 150),
		"case": strings.Repeat("CASE WHEN a THEN ", 120) + "1" + strings.Repeat(" END", 120), "not": strings.Repeat("NOT ", 150) + "a", "signs": strings.Repeat("- ", 150) + "1",
		"subqueries": strings.Repeat("(SELECT ", 70) + "1" + strings.Repeat(")", 70),
	} {
		// the same construct at three different places, one call after the other in this process: each error is
		// located in its own text
		for _, lay := range []struct {
			pre  string
			line int
			col  int
		}{{"SELECT a\nFROM t\nWHERE b = ", 3, 11}, {"SELECT ", 1, 8}, {"\n\n\n\n      SELECT a,\n   ", 6, 4}} {
			text := lay.pre + deep
			if lay.line == 6 {
				text += " FROM t"
			}
			toks, err := mustTokenizer().Tokenize([]byte(text))
			if err != nil {
				continue
			}
			a.Rec.Count("evaluations", 1)
			a.Rec.Distinct("texts", text)
			p := parser.NewParser()
			_, perr := p.ParseFromModelTokensWithPositions(toks)
			p.Release()
			var ge *goerrors.Error
			if perr == nil || !errors.As(perr, &ge) {
				continue
			}
			wit := map[string]interface{}{"text": trunc(text, 200), "error": firstLine(perr.Error())}
			if ge.Location.Line != lay.line || ge.Location.Column < lay.col || ge.Location.Column > len(deep)+lay.col+1 {
				a.Rec.Viol("C05/depth-error/"+name+"/"+string(ge.Code)+"/positions", "a syntax error is located at the offending token", fmt.Sprintf("the over-deep construct is on line %d from column %d; the error is located at %d:%d", lay.line, lay.col, ge.Location.Line, ge.Location.Column), wit)
			}
			if _, rerrs := gosqlx.ParseWithRecovery(text); len(rerrs) > 0 {
				var pe *parser.ParseError
				var ce *goerrors.Error
				if errors.As(rerrs[0], &pe) && errors.As(pe.Cause, &ce) && (pe.Line != lay.line || ce.Location.Line != lay.line) {
					a.Rec.Viol("C05/depth-error/"+name+"/"+string(ce.Code)+"/recovery", "a syntax error is located at the offending token", fmt.Sprintf("the over-deep construct is on line %d; the recovery error says %d:%d, its cause %d:%d", lay.line, pe.Line, pe.Column, ce.Location.Line, ce.Location.Column), wit)
				}
			}
			// the entry points that track no positions report no position (not one left over from another call)
			if _, perr2 := parser.NewParser().ParseFromModelTokens(toks); perr2 != nil {
				var g2 *goerrors.Error
				if errors.As(perr2, &g2) && (g2.Location.Line != 0 || g2.Location.Column != 0) {
					a.Rec.Viol("C05/depth-error/"+name+"/"+string(g2.Code)+"/position-without-tracking", "every reported location points into the input it belongs to", fmt.Sprintf("a parse without position tracking reports %d:%d", g2.Location.Line, g2.Location.Column), wit)
				}
			}
		}
	}
}

// c05Poison inserts a never-legal token into one model statement and checks where the position-tracking parser locates the error.
// afterKeywords: insert after every keyword token in turn (identities name the keyword); otherwise after one random non-keyword token.
func c05Poison(a *ChildArgs, avoid map[string]bool, seed int64, afterKeywords bool) {
	r := rand.New(rand.NewSource(seed))
	g := gen.New(rand.New(rand.NewSource(seed)), avoid)
	x := g.Statement(2)
	hasBracket := false
	for _, tk := range x.Toks {
		if tk.S == "[" || strings.HasSuffix(tk.S, "[") {
			hasBracket = true
		}
	}
	poison := []string{"#", "!"}
	if !hasBracket {
		poison = append(poison, "]")
	}
	var ks []int
	if afterKeywords {
		for k := 1; k <= len(x.Toks); k++ {
			// not inside a compound keyword the tokenizer merges (GROUP BY, GROUPING SETS, LEFT JOIN ...): splitting one changes the lexeme itself
			if x.Toks[k-1].Kw && !compoundStartWord[strings.ToUpper(x.Toks[k-1].S)] {
				ks = append(ks, k)
			}
		}
	} else {
		var cand []int
		for k := 1; k <= len(x.Toks); k++ {
			if !x.Toks[k-1].Kw {
				cand = append(cand, k)
			}
		}
		if len(cand) == 0 {
			return
		}
		ks = []int{cand[r.Intn(len(cand))]}
		if r.Intn(4) == 0 {
			ks = append(ks, 0) // the never-legal token as the very first token of the statement
		}
	}
	seplist := []string{" ", "  ", "\n", "\n\n  ", " /* c */ ", " -- n\n", "\n/* a\n b */\n"}
	for _, k := range ks {
		ps := poison[r.Intn(len(poison))]
		var sb strings.Builder
		var pLine, pCol, prevLine, prevCol int
		line, col := 1, 1
		emit := func(s string) {
			sb.WriteString(s)
			for j := 0; j < len(s); j++ {
				if s[j] == '\n' {
					line++
					col = 1
				} else if s[j] == '\t' {
					col += 4 // the tokenizer's column unit: a tab counts as four (as in C13)
				} else {
					col++
				}
			}
		}
		all := make([]gen.Tok, 0, len(x.Toks)+1)
		all = append(all, x.Toks[:k]...)
		all = append(all, gen.Tok{S: ps})
		all = append(all, x.Toks[k:]...)
		for j, tk := range all {
			if j > 0 {
				emit(seplist[r.Intn(len(seplist))])
			}
			if j == k {
				pLine, pCol = line, col
			}
			if j == k-1 {
				prevLine, prevCol = line, col
			}
			emit(tk.S)
		}
		text := sb.String()
		a.Rec.Count("evaluations", 1)
		a.Rec.Distinct("texts", text)
		toks, err := mustTokenizer().Tokenize([]byte(text))
		if err != nil {
			continue
		}
		p := parser.NewParser()
		_, perr := p.ParseFromModelTokensWithPositions(toks)
		p.Release()
		wit := map[string]interface{}{"text": text, "poison": ps, "at": fmt.Sprintf("%d:%d", pLine, pCol)}
		if perr == nil {
			a.Rec.Count("poison_accepted", 1)
			continue // C03/C13 territory; nothing to locate
		}
		var ge *goerrors.Error
		if !errors.As(perr, &ge) {
			continue
		}
		a.Rec.Count("located_errors", 1)
		if ge.Location.Line == pLine && ge.Location.Column == pCol {
			// recovery-mode parsing of the same text names the same place (judged only where the position-tracking
			// strict parse is right, so that one misplacement is not reported under two names)
			if _, rerrs := gosqlx.ParseWithRecovery(text); len(rerrs) > 0 {
				var pe *parser.ParseError
				if errors.As(rerrs[0], &pe) && (pe.Line != pLine || pe.Column != pCol) {
					pos := "first-token"
					if k > 0 {
						pos = "later-token"
					}
					a.Rec.Viol("C05/parserr-recovery/"+pos+"/"+string(ge.Code), "a syntax error is located at the offending token",
						fmt.Sprintf("never-legal token %q is at %d:%d; ParseWithPositions says %d:%d, the first recovery error says %d:%d", ps, pLine, pCol, ge.Location.Line, ge.Location.Column, pe.Line, pe.Column), wit)
				} else if pe != nil {
					a.Rec.Count("recovery_errors_located", 1)
				}
			}
			continue
		}
		class := "elsewhere"
		if ge.Location.Line == 0 && ge.Location.Column == 0 {
			class = "no-location"
		} else if ge.Location.Line == prevLine && ge.Location.Column == prevCol {
			class = "blames-preceding-token"
		}
		id := "C05/parserr/" + string(ge.Code) + "/" + class + "/" + c13MsgSig(ge.Message)
		if afterKeywords {
			id = "C05/parserr/after-keyword/" + strings.ToUpper(x.Toks[k-1].S) + "/" + class
		}
		a.Rec.Viol(id, "a syntax error is located at the offending token", fmt.Sprintf("never-legal token %q is at %d:%d, error located at %d:%d: %s", ps, pLine, pCol, ge.Location.Line, ge.Location.Column, firstLine(perr.Error())), wit)
	}
}

// c13MsgSig normalises an error message for identities: quoted parts and numbers dropped, token names after "got" dropped.
func c13MsgSig(msg string) string {
	msg = quotedRe.ReplaceAllString(msg, "_")
	if i := strings.Index(msg, ", got"); i >= 0 {
		msg = msg[:i]
	}
	if len(msg) > 60 {
		msg = msg[:60]
	}
	return msg
}

var compoundStartWord = map[string]bool{"GROUPING": true, "GROUP": true, "ORDER": true, "LEFT": true, "RIGHT": true, "INNER": true, "OUTER": true, "CROSS": true, "NATURAL": true, "FULL": true}
