package props

import (
	"fmt"
	"math/rand"
	"strings"

	"verifharness/gen"
)

// CatCase is one catalogue case: a stable ID and a builder that produces the statement model.
type CatCase struct {
	ID    string
	Build func(g *gen.G) gen.X
}

func selWhere(g *gen.G, cond gen.X) gen.X {
	return g.Select(&gen.SelectSpec{Cols: []gen.SelCol{{E: g.Ident("a")}}, From: []gen.TableRef{{Name: "t"}}, Where: &cond})
}

func selCol(g *gen.G, e gen.X) gen.X {
	return g.Select(&gen.SelectSpec{Cols: []gen.SelCol{{E: e}}, From: []gen.TableRef{{Name: "t"}}})
}

var catBinOps = []string{"OR", "AND", "=", "<>", "<", ">=", "||", "+", "-", "*", "/", "%"}

func opName(o string) string { return o }

// operand appropriate for an operator class: booleans for AND/OR, values otherwise.
func leafFor(g *gen.G, name string) gen.X { return g.Ident(name) }

// C03Catalogue enumerates the bounded-exhaustive layer.
func C03Catalogue() []CatCase {
	var cs []CatCase
	add := func(id string, b func(g *gen.G) gen.X) { cs = append(cs, CatCase{ID: "C03/" + id, Build: b}) }

	// 1. every ordered operator pair in both nesting shapes
	for _, o1 := range catBinOps {
		for _, o2 := range catBinOps {
			o1, o2 := o1, o2
			add(fmt.Sprintf("oppair/%s/%s/left", o1, o2), func(g *gen.G) gen.X {
				return selWhere(g, g.Bin(o2, g.Bin(o1, g.Ident("a"), g.Ident("b")), g.Ident("c")))
			})
			add(fmt.Sprintf("oppair/%s/%s/right", o1, o2), func(g *gen.G) gen.X {
				return selWhere(g, g.Bin(o1, g.Ident("a"), g.Bin(o2, g.Ident("b"), g.Ident("c"))))
			})
		}
	}
	// 2. unary operators against every binary operator
	for _, o := range catBinOps {
		o := o
		add("unary/NOT/"+o+"/outer", func(g *gen.G) gen.X { return selWhere(g, g.Not(g.Bin(o, g.Ident("a"), g.Ident("b")))) })
		add("unary/NOT/"+o+"/left", func(g *gen.G) gen.X { return selWhere(g, g.Bin(o, g.Not(g.Ident("a")), g.Ident("b"))) })
		add("unary/NOT/"+o+"/right", func(g *gen.G) gen.X { return selWhere(g, g.Bin(o, g.Ident("a"), g.Not(g.Ident("b")))) })
		add("unary/neg/"+o+"/outer", func(g *gen.G) gen.X { return selCol(g, g.Neg(g.Bin(o, g.Ident("a"), g.Ident("b")), false)) })
		add("unary/neg/"+o+"/left", func(g *gen.G) gen.X { return selCol(g, g.Bin(o, g.Neg(g.Ident("a"), false), g.Ident("b"))) })
		add("unary/neg/"+o+"/right", func(g *gen.G) gen.X { return selCol(g, g.Bin(o, g.Ident("a"), g.Neg(g.Ident("b"), false))) })
	}
	add("unary/neg/literal", func(g *gen.G) gen.X { return selCol(g, g.Neg(g.Int("1"), false)) })
	add("unary/plus/literal", func(g *gen.G) gen.X { return selCol(g, g.Neg(g.Int("1"), true)) })
	add("unary/NOT/NOT", func(g *gen.G) gen.X { return selWhere(g, g.Not(g.Not(g.Ident("a")))) })
	add("unary/neg/neg", func(g *gen.G) gen.X { return selCol(g, g.Neg(g.Neg(g.Ident("a"), false), false)) })

	// 3. every comparison with arithmetic / concat on either side
	for _, c := range gen.CmpOps {
		for _, o := range []string{"+", "-", "*", "/", "%", "||"} {
			c, o := c, o
			add(fmt.Sprintf("cmp-arith/%s/%s/rhs", c, o), func(g *gen.G) gen.X {
				return selWhere(g, g.Bin(c, g.Ident("a"), g.Bin(o, g.Ident("b"), g.Int("1"))))
			})
			add(fmt.Sprintf("cmp-arith/%s/%s/lhs", c, o), func(g *gen.G) gen.X {
				return selWhere(g, g.Bin(c, g.Bin(o, g.Ident("a"), g.Int("1")), g.Ident("b")))
			})
		}
	}
	// 4. predicate forms, each with plain and arithmetic operands, in AND / OR / NOT context
	type predB func(g *gen.G, v gen.X) gen.X
	preds := map[string]predB{
		"is-null":       func(g *gen.G, v gen.X) gen.X { return g.IsNull(v, false) },
		"is-not-null":   func(g *gen.G, v gen.X) gen.X { return g.IsNull(v, true) },
		"in-list":       func(g *gen.G, v gen.X) gen.X { return g.InList(v, false, []gen.X{g.Int("1"), g.Int("2")}) },
		"not-in-list":   func(g *gen.G, v gen.X) gen.X { return g.InList(v, true, []gen.X{g.Int("1"), g.Str("x")}) },
		"in-list-arith": func(g *gen.G, v gen.X) gen.X { return g.InList(v, false, []gen.X{g.Bin("+", g.Ident("b"), g.Int("1"))}) },
		"between":       func(g *gen.G, v gen.X) gen.X { return g.Between(v, false, g.Int("1"), g.Int("10")) },
		"not-between":   func(g *gen.G, v gen.X) gen.X { return g.Between(v, true, g.Int("1"), g.Int("10")) },
		"between-arith": func(g *gen.G, v gen.X) gen.X {
			return g.Between(v, false, g.Bin("+", g.Ident("b"), g.Int("1")), g.Bin("*", g.Ident("c"), g.Int("2")))
		},
		"like":         func(g *gen.G, v gen.X) gen.X { return g.Like("LIKE", v, false, g.Str("a%")) },
		"not-like":     func(g *gen.G, v gen.X) gen.X { return g.Like("LIKE", v, true, g.Str("a%")) },
		"ilike":        func(g *gen.G, v gen.X) gen.X { return g.Like("ILIKE", v, false, g.Str("a%")) },
		"not-ilike":    func(g *gen.G, v gen.X) gen.X { return g.Like("ILIKE", v, true, g.Str("a%")) },
		"like-concat":  func(g *gen.G, v gen.X) gen.X { return g.Like("LIKE", v, false, g.Bin("||", g.Ident("b"), g.Str("%"))) },
		"in-query":     func(g *gen.G, v gen.X) gen.X { return g.InQuery(v, false, subq(g)) },
		"not-in-query": func(g *gen.G, v gen.X) gen.X { return g.InQuery(v, true, subq(g)) },
		"any":          func(g *gen.G, v gen.X) gen.X { return g.Quantified(v, "=", "ANY", subq(g)) },
		"all":          func(g *gen.G, v gen.X) gen.X { return g.Quantified(v, ">", "ALL", subq(g)) },
	}
	for _, name := range sortedKeys(preds) {
		pb := preds[name]
		add("pred/"+name+"/plain", func(g *gen.G) gen.X { return selWhere(g, pb(g, g.Ident("a"))) })
		add("pred/"+name+"/arith-operand", func(g *gen.G) gen.X { return selWhere(g, pb(g, g.Bin("+", g.Ident("a"), g.Int("1")))) })
		add("pred/"+name+"/and", func(g *gen.G) gen.X {
			return selWhere(g, g.Bin("AND", pb(g, g.Ident("a")), g.Bin("=", g.Ident("b"), g.Int("1"))))
		})
		add("pred/"+name+"/or-right", func(g *gen.G) gen.X {
			return selWhere(g, g.Bin("OR", g.Bin("=", g.Ident("b"), g.Int("1")), pb(g, g.Ident("a"))))
		})
		add("pred/"+name+"/not", func(g *gen.G) gen.X { return selWhere(g, g.Not(pb(g, g.Ident("a")))) })
	}
	add("pred/exists", func(g *gen.G) gen.X { return selWhere(g, g.Exists(subq(g), false)) })
	add("pred/not-exists", func(g *gen.G) gen.X { return selWhere(g, g.Exists(subq(g), true)) })
	add("pred/exists-and", func(g *gen.G) gen.X {
		return selWhere(g, g.Bin("AND", g.Exists(subq(g), false), g.Exists(subq(g), true)))
	})
	add("pred/tuple-eq", func(g *gen.G) gen.X {
		return selWhere(g, g.Bin("=", g.Tuple([]gen.X{g.Ident("a"), g.Ident("b")}), g.Tuple([]gen.X{g.Int("1"), g.Int("2")})))
	})
	add("pred/tuple-in", func(g *gen.G) gen.X {
		return selWhere(g, g.InList(g.Tuple([]gen.X{g.Ident("a"), g.Ident("b")}), false, []gen.X{g.Tuple([]gen.X{g.Int("1"), g.Int("2")})}))
	})
	// 5. primary forms
	prims := map[string]func(g *gen.G) gen.X{
		"qualified":      func(g *gen.G) gen.X { return g.QIdent("t", "a") },
		"string":         func(g *gen.G) gen.X { return g.Str("it's") },
		"float":          func(g *gen.G) gen.X { return g.Float("1.5e3") },
		"true":           func(g *gen.G) gen.X { return g.Bool(true) },
		"false":          func(g *gen.G) gen.X { return g.Bool(false) },
		"null":           func(g *gen.G) gen.X { return g.Null() },
		"placeholder-$":  func(g *gen.G) gen.X { return g.Placeholder("$1") },
		"call0":          func(g *gen.G) gen.X { return g.Call("now", nil, gen.CallOpts{}) },
		"call2":          func(g *gen.G) gen.X { return g.Call("COALESCE", []gen.X{g.Ident("a"), g.Int("0")}, gen.CallOpts{}) },
		"call-star":      func(g *gen.G) gen.X { return g.Call("COUNT", nil, gen.CallOpts{Star: true}) },
		"call-distinct":  func(g *gen.G) gen.X { return g.Call("COUNT", []gen.X{g.Ident("a")}, gen.CallOpts{Distinct: true}) },
		"call-nested":    func(g *gen.G) gen.X { return g.Call("f", []gen.X{g.Call("g", []gen.X{g.Ident("a")}, gen.CallOpts{})}, gen.CallOpts{}) },
		"call-arith-arg": func(g *gen.G) gen.X { return g.Call("f", []gen.X{g.Bin("+", g.Ident("a"), g.Int("1"))}, gen.CallOpts{}) },
		"call-orderby": func(g *gen.G) gen.X {
			return g.Call("STRING_AGG", []gen.X{g.Ident("a"), g.Str(",")}, gen.CallOpts{OrderBy: []gen.OrderItem{{E: g.Ident("b"), Desc: true}}})
		},
		"call-within-group": func(g *gen.G) gen.X {
			return g.Call("PERCENTILE_CONT", []gen.X{g.Float("0.5")}, gen.CallOpts{WithinGroup: []gen.OrderItem{{E: g.Ident("a")}}})
		},
		"call-filter": func(g *gen.G) gen.X {
			f := g.Bin(">", g.Ident("a"), g.Int("1"))
			return g.Call("SUM", []gen.X{g.Ident("b")}, gen.CallOpts{Filter: &f})
		},
		"call-over-empty": func(g *gen.G) gen.X { return g.Call("ROW_NUMBER", nil, gen.CallOpts{Over: &gen.Window{}}) },
		"call-over-partition-order": func(g *gen.G) gen.X {
			return g.Call("RANK", nil, gen.CallOpts{Over: &gen.Window{Partition: []gen.X{g.Ident("a")}, Order: []gen.OrderItem{{E: g.Ident("b"), Desc: true, Nulls: 2}}}})
		},
		"case-searched": func(g *gen.G) gen.X {
			e := g.Int("0")
			return g.Case(nil, [][2]gen.X{{g.Bin(">", g.Ident("a"), g.Int("1")), g.Str("x")}, {g.IsNull(g.Ident("a"), false), g.Str("y")}}, &e)
		},
		"case-simple": func(g *gen.G) gen.X {
			op := g.Ident("a")
			return g.Case(&op, [][2]gen.X{{g.Int("1"), g.Str("x")}}, nil)
		},
		"case-in-arith":   func(g *gen.G) gen.X { return g.Bin("+", g.Case(nil, [][2]gen.X{{g.Ident("a"), g.Int("1")}}, nil), g.Int("2")) },
		"cast":            func(g *gen.G) gen.X { return g.Cast(g.Ident("a"), "INT") },
		"cast-param":      func(g *gen.G) gen.X { return g.Cast(g.Bin("+", g.Ident("a"), g.Int("1")), "NUMERIC(10,2)") },
		"cast-op":         func(g *gen.G) gen.X { return g.CastOp(g.Ident("a"), "INT") },
		"cast-op-chain":   func(g *gen.G) gen.X { return g.CastOp(g.CastOp(g.Ident("a"), "TEXT"), "INT") },
		"cast-op-arith":   func(g *gen.G) gen.X { return g.Bin("+", g.CastOp(g.Ident("a"), "INT"), g.Int("1")) },
		"cast-op-paren":   func(g *gen.G) gen.X { return g.CastOp(g.Bin("+", g.Ident("a"), g.Int("1")), "INT") },
		"scalar-subquery": func(g *gen.G) gen.X { return g.Subquery(subq(g)) },
		"subquery-arith":  func(g *gen.G) gen.X { return g.Bin("+", g.Subquery(subq(g)), g.Int("1")) },
		"array":           func(g *gen.G) gen.X { return g.Array([]gen.X{g.Int("1"), g.Int("2")}) },
		"array-empty":     func(g *gen.G) gen.X { return g.Array(nil) },
		"subscript":       func(g *gen.G) gen.X { return g.Subscript(g.Ident("a"), g.Int("1")) },
		"subscript-2d":    func(g *gen.G) gen.X { return g.Subscript(g.Subscript(g.Ident("a"), g.Int("1")), g.Int("2")) },
		"slice":           func(g *gen.G) gen.X { lo, hi := g.Int("1"), g.Int("2"); return g.Slice(g.Ident("a"), &lo, &hi) },
		"slice-open-lo":   func(g *gen.G) gen.X { hi := g.Int("2"); return g.Slice(g.Ident("a"), nil, &hi) },
		"slice-open-hi":   func(g *gen.G) gen.X { lo := g.Int("1"); return g.Slice(g.Ident("a"), &lo, nil) },
		"interval":        func(g *gen.G) gen.X { return g.Interval("1 day") },
		"interval-arith":  func(g *gen.G) gen.X { return g.Bin("+", g.Ident("a"), g.Interval("2 hours")) },
		"interval-quote":  func(g *gen.G) gen.X { return g.Interval("1 day's") },
		"tuple":           func(g *gen.G) gen.X { return g.Tuple([]gen.X{g.Ident("a"), g.Int("1")}) },
		"match-against":   func(g *gen.G) gen.X { return g.Match([]gen.X{g.Ident("a")}, g.Str("x"), "") },
		"match-boolean":   func(g *gen.G) gen.X { return g.Match([]gen.X{g.Ident("a"), g.Ident("b")}, g.Str("+x -y"), "IN BOOLEAN MODE") },
		"match-natural":   func(g *gen.G) gen.X { return g.Match([]gen.X{g.Ident("a")}, g.Str("x"), "IN NATURAL LANGUAGE MODE") },
		"match-expansion": func(g *gen.G) gen.X { return g.Match([]gen.X{g.Ident("a")}, g.Str("x"), "WITH QUERY EXPANSION") },
	}
	for _, j := range gen.JSONOps {
		j := j
		prims["json/"+j] = func(g *gen.G) gen.X { return g.Bin(j, g.Ident("a"), g.Str("k")) }
		prims["json-chain/"+j] = func(g *gen.G) gen.X { return g.Bin(j, g.Bin("->", g.Ident("a"), g.Str("k")), g.Str("m")) }
	}
	for _, name := range sortedKeys(prims) {
		b := prims[name]
		add("primary/"+name+"/select", func(g *gen.G) gen.X { return selCol(g, b(g)) })
		add("primary/"+name+"/cmp-left", func(g *gen.G) gen.X { return selWhere(g, g.Bin("=", b(g), g.Int("1"))) })
		add("primary/"+name+"/cmp-right", func(g *gen.G) gen.X { return selWhere(g, g.Bin("=", g.Ident("b"), b(g))) })
	}
	// 5b. wide (flat, not nested) statements: width is not depth, so none of them may be refused or cut short
	for _, n := range []int{60, 150, 400} {
		n := n
		add(fmt.Sprintf("wide/in-list-signed/%d", n), func(g *gen.G) gen.X {
			var xs []gen.X
			for k := 0; k < n; k++ {
				xs = append(xs, g.Neg(g.Int(fmt.Sprint(k+1)), k%3 == 0))
			}
			return selWhere(g, g.InList(g.Ident("a"), false, xs))
		})
		add(fmt.Sprintf("wide/select-list-signed-and-calls/%d", n), func(g *gen.G) gen.X {
			var cols []gen.SelCol
			for k := 0; k < n; k++ {
				switch k % 3 {
				case 0:
					cols = append(cols, gen.SelCol{E: g.Neg(g.Ident("a"), false)})
				case 1:
					cols = append(cols, gen.SelCol{E: g.Call("f", []gen.X{g.Neg(g.Int("2"), false)}, gen.CallOpts{})})
				default:
					cols = append(cols, gen.SelCol{E: g.Bin("<", g.Ident("b"), g.Neg(g.Int("1"), false))})
				}
			}
			return g.Select(&gen.SelectSpec{Cols: cols, From: []gen.TableRef{{Name: "t"}}})
		})
		if n > 90 {
			continue // a chain is left-deep: under the parenthesising render policies its depth is its length
		}
		add(fmt.Sprintf("wide/and-chain-signed/%d", n), func(g *gen.G) gen.X {
			c := g.Bin("<", g.Ident("a"), g.Neg(g.Int("1"), false))
			for k := 1; k < n; k++ {
				c = g.Bin("AND", c, g.Bin(">", g.Ident("b"), g.Neg(g.Int(fmt.Sprint(k)), false)))
			}
			return selWhere(g, c)
		})
	}
	// 6. frame bounds: every (start, end) pair that the standard allows, plus single bounds
	for _, ft := range []string{"ROWS", "RANGE"} {
		for sk := 0; sk <= 3; sk++ {
			sk, ft := sk, ft
			add(fmt.Sprintf("frame/%s/%d", ft, sk), func(g *gen.G) gen.X {
				w := &gen.Window{Order: []gen.OrderItem{{E: g.Ident("a")}}, FrameType: ft, Start: gen.FrameBound{Kind: sk, N: g.Int("2")}}
				return selCol(g, g.Call("SUM", []gen.X{g.Ident("b")}, gen.CallOpts{Over: w}))
			})
			for ek := sk; ek <= 4; ek++ {
				if ek == 0 {
					continue
				}
				ek := ek
				add(fmt.Sprintf("frame/%s/%d-%d", ft, sk, ek), func(g *gen.G) gen.X {
					e := gen.FrameBound{Kind: ek, N: g.Int("3")}
					w := &gen.Window{Partition: []gen.X{g.Ident("c")}, Order: []gen.OrderItem{{E: g.Ident("a")}}, FrameType: ft, Start: gen.FrameBound{Kind: sk, N: g.Int("2")}, End: &e}
					return selCol(g, g.Call("SUM", []gen.X{g.Ident("b")}, gen.CallOpts{Over: w}))
				})
			}
		}
	}
	// 7. joins: every kind x condition form x right-side form
	joinKinds := [][2]string{{"INNER", "JOIN"}, {"INNER", "INNER JOIN"}, {"LEFT", "LEFT JOIN"}, {"LEFT", "LEFT OUTER JOIN"}, {"RIGHT", "RIGHT JOIN"},
		{"RIGHT", "RIGHT OUTER JOIN"}, {"FULL", "FULL JOIN"}, {"FULL", "FULL OUTER JOIN"}, {"CROSS", "CROSS JOIN"},
		{"NATURAL INNER", "NATURAL JOIN"}, {"NATURAL LEFT", "NATURAL LEFT JOIN"}, {"NATURAL RIGHT", "NATURAL RIGHT JOIN"}, {"NATURAL FULL", "NATURAL FULL JOIN"}}
	for _, jk := range joinKinds {
		jk := jk
		noCond := jk[0] == "CROSS" || strings.HasPrefix(jk[0], "NATURAL")
		forms := []string{"on", "using1", "using2"}
		if noCond {
			forms = []string{"none"}
		}
		for _, form := range forms {
			for _, right := range []string{"table", "alias", "as-alias", "derived", "lateral"} {
				form, right := form, right
				add(fmt.Sprintf("join/%s/%s/%s", strings.ReplaceAll(jk[1], " ", "_"), form, right), func(g *gen.G) gen.X {
					j := gen.Join{Kind: jk[0], Words: jk[1]}
					switch right {
					case "table":
						j.Right = gen.TableRef{Name: "u"}
					case "alias":
						j.Right = gen.TableRef{Name: "u", Alias: "u1"}
					case "as-alias":
						j.Right = gen.TableRef{Name: "s1.u", Alias: "u1", AsKw: true}
					case "derived":
						q := subq(g)
						j.Right = gen.TableRef{Sub: &q, Alias: "d1", AsKw: true}
					case "lateral":
						q := subq(g)
						j.Right = gen.TableRef{Sub: &q, Alias: "d1", Lateral: true}
					}
					switch form {
					case "on":
						on := g.Bin("AND", g.Bin("=", g.QIdent("t", "a"), g.QIdent("u", "a")), g.Bin(">", g.QIdent("u", "b"), g.Int("1")))
						j.On = &on
					case "using1":
						j.Using = []string{"a"}
					case "using2":
						j.Using = []string{"a", "b"}
					}
					return g.Select(&gen.SelectSpec{Cols: []gen.SelCol{{E: g.Star()}}, From: []gen.TableRef{{Name: "t"}}, Joins: []gen.Join{j}})
				})
			}
		}
	}
	add("join/chain3", func(g *gen.G) gen.X {
		on1 := g.Bin("=", g.QIdent("t", "a"), g.QIdent("u", "a"))
		on2 := g.Bin("=", g.QIdent("u", "b"), g.QIdent("v", "b"))
		return g.Select(&gen.SelectSpec{Cols: []gen.SelCol{{E: g.Star()}}, From: []gen.TableRef{{Name: "t"}},
			Joins: []gen.Join{{Kind: "INNER", Words: "JOIN", Right: gen.TableRef{Name: "u"}, On: &on1}, {Kind: "LEFT", Words: "LEFT JOIN", Right: gen.TableRef{Name: "v"}, On: &on2},
				{Kind: "CROSS", Words: "CROSS JOIN", Right: gen.TableRef{Name: "w"}}}})
	})
	// 8. every subset of SELECT clauses
	clauseNames := []string{"distinct", "alias", "where", "group", "having", "order", "limit", "offset", "join", "cte", "for"}
	for mask := 0; mask < 1<<len(clauseNames); mask++ {
		mask := mask
		var on []string
		for i, n := range clauseNames {
			if mask&(1<<i) != 0 {
				on = append(on, n)
			}
		}
		has := func(n string) bool {
			for _, x := range on {
				if x == n {
					return true
				}
			}
			return false
		}
		if has("having") && !has("group") {
			continue
		}
		id := "clauses/" + strings.Join(on, "+")
		if len(on) == 0 {
			id = "clauses/none"
		}
		add(id, func(g *gen.G) gen.X {
			s := &gen.SelectSpec{Cols: []gen.SelCol{{E: g.Ident("a")}, {E: g.Call("COUNT", nil, gen.CallOpts{Star: true})}}, From: []gen.TableRef{{Name: "t"}}}
			if has("distinct") {
				s.Distinct = true
			}
			if has("alias") {
				s.Cols[1].Alias, s.Cols[1].AsKw = "n", true
				s.From[0].Alias = "t1"
			}
			if has("where") {
				w := g.Bin("AND", g.Bin(">", g.Ident("b"), g.Int("1")), g.IsNull(g.Ident("c"), false))
				s.Where = &w
			}
			if has("group") {
				s.GroupBy = []gen.X{g.Ident("a"), g.Ident("d")}
			}
			if has("having") {
				h := g.Bin(">", g.Call("COUNT", nil, gen.CallOpts{Star: true}), g.Int("1"))
				s.Having = &h
			}
			if has("order") {
				s.OrderBy = []gen.OrderItem{{E: g.Ident("a"), Desc: true}, {E: g.Ident("d"), Asc: true, Nulls: 1}}
			}
			if has("limit") {
				l := 10
				s.Limit = &l
			}
			if has("offset") {
				o := 5
				s.Offset = &o
			}
			if has("join") {
				on := g.Bin("=", g.QIdent("u", "a"), g.QIdent("t", "a"))
				s.Joins = []gen.Join{{Kind: "LEFT", Words: "LEFT JOIN", Right: gen.TableRef{Name: "u"}, On: &on}}
			}
			if has("cte") {
				s.With = &gen.WithSpec{CTEs: []gen.CTE{{Name: "c1", Q: subq(g)}}}
			}
			if has("for") {
				s.For = &gen.ForSpec{Lock: "UPDATE"}
			}
			return g.Select(s)
		})
	}
	// 9. other select-level forms
	misc := map[string]func(g *gen.G) gen.X{
		"select/no-from":        func(g *gen.G) gen.X { return g.Select(&gen.SelectSpec{Cols: []gen.SelCol{{E: g.Int("1")}}}) },
		"select/star":           func(g *gen.G) gen.X { return g.Select(&gen.SelectSpec{Cols: []gen.SelCol{{E: g.Star()}}, From: []gen.TableRef{{Name: "t"}}}) },
		"select/all":            func(g *gen.G) gen.X { return g.Select(&gen.SelectSpec{AllKw: true, Cols: []gen.SelCol{{E: g.Ident("a")}}, From: []gen.TableRef{{Name: "t"}}}) },
		"select/distinct-on":    func(g *gen.G) gen.X { return g.Select(&gen.SelectSpec{Distinct: true, DistinctOn: []gen.X{g.Ident("a"), g.Ident("b")}, Cols: []gen.SelCol{{E: g.Ident("a")}}, From: []gen.TableRef{{Name: "t"}}}) },
		"select/implicit-alias-expr": func(g *gen.G) gen.X {
			return g.Select(&gen.SelectSpec{Cols: []gen.SelCol{{E: g.Bin("+", g.Ident("a"), g.Int("1")), Alias: "s"}}, From: []gen.TableRef{{Name: "t"}}})
		},
		"select/as-alias-ident": func(g *gen.G) gen.X {
			return g.Select(&gen.SelectSpec{Cols: []gen.SelCol{{E: g.Ident("a"), Alias: "s", AsKw: true}}, From: []gen.TableRef{{Name: "t"}}})
		},
		"select/qualified-star": func(g *gen.G) gen.X {
			return g.Select(&gen.SelectSpec{Cols: []gen.SelCol{{E: gen.X{T: starT("t"), Toks: []gen.Tok{{S: "t.*"}}, Prec: gen.PrecPrimary}}}, From: []gen.TableRef{{Name: "t"}}})
		},
		"select/from-list": func(g *gen.G) gen.X {
			return g.Select(&gen.SelectSpec{Cols: []gen.SelCol{{E: g.Star()}}, From: []gen.TableRef{{Name: "t", Alias: "x"}, {Name: "db.u", Alias: "y", AsKw: true}, {Name: "w"}}})
		},
		"select/derived": func(g *gen.G) gen.X {
			q := subq(g)
			return g.Select(&gen.SelectSpec{Cols: []gen.SelCol{{E: g.Star()}}, From: []gen.TableRef{{Sub: &q, Alias: "d", AsKw: true}}})
		},
		"select/derived-noas": func(g *gen.G) gen.X {
			q := subq(g)
			return g.Select(&gen.SelectSpec{Cols: []gen.SelCol{{E: g.Star()}}, From: []gen.TableRef{{Sub: &q, Alias: "d"}}})
		},
		"select/lateral": func(g *gen.G) gen.X {
			q := subq(g)
			return g.Select(&gen.SelectSpec{Cols: []gen.SelCol{{E: g.Star()}}, From: []gen.TableRef{{Name: "t"}, {Sub: &q, Alias: "d", Lateral: true}}})
		},
		"select/group-rollup": func(g *gen.G) gen.X {
			return g.Select(&gen.SelectSpec{Cols: []gen.SelCol{{E: g.Ident("a")}}, From: []gen.TableRef{{Name: "t"}}, GroupBy: []gen.X{g.Rollup("ROLLUP", []gen.X{g.Ident("a"), g.Ident("b")})}})
		},
		"select/group-cube": func(g *gen.G) gen.X {
			return g.Select(&gen.SelectSpec{Cols: []gen.SelCol{{E: g.Ident("a")}}, From: []gen.TableRef{{Name: "t"}}, GroupBy: []gen.X{g.Rollup("CUBE", []gen.X{g.Ident("a"), g.Ident("b")})}})
		},
		"select/group-sets": func(g *gen.G) gen.X {
			return g.Select(&gen.SelectSpec{Cols: []gen.SelCol{{E: g.Ident("a")}}, From: []gen.TableRef{{Name: "t"}}, GroupBy: []gen.X{g.GroupingSets([][]gen.X{{g.Ident("a")}, {g.Ident("a"), g.Ident("b")}, {}})}})
		},
		"select/group-mixed": func(g *gen.G) gen.X {
			return g.Select(&gen.SelectSpec{Cols: []gen.SelCol{{E: g.Ident("a")}}, From: []gen.TableRef{{Name: "t"}}, GroupBy: []gen.X{g.Ident("c"), g.Rollup("ROLLUP", []gen.X{g.Ident("a")})}})
		},
		"select/offset-rows": func(g *gen.G) gen.X {
			o := 5
			return g.Select(&gen.SelectSpec{Cols: []gen.SelCol{{E: g.Ident("a")}}, From: []gen.TableRef{{Name: "t"}}, Offset: &o, OffsetRows: "ROWS"})
		},
	}
	for _, first := range []bool{true, false} {
		for _, pct := range []bool{false, true} {
			for _, tail := range []string{"only", "ties", "none"} {
				for _, rows := range []string{"ROW", "ROWS"} {
					first, pct, tail, rows := first, pct, tail, rows
					misc[fmt.Sprintf("select/fetch/%v/%v/%s/%s", first, pct, tail, rows)] = func(g *gen.G) gen.X {
						f := &gen.FetchSpec{First: first, N: 5, Percent: pct, Rows: rows, Only: tail == "only", Ties: tail == "ties"}
						return g.Select(&gen.SelectSpec{Cols: []gen.SelCol{{E: g.Ident("a")}}, From: []gen.TableRef{{Name: "t"}}, OrderBy: []gen.OrderItem{{E: g.Ident("a")}}, Fetch: f})
					}
				}
			}
		}
	}
	for _, lock := range []string{"UPDATE", "SHARE", "NO KEY UPDATE", "KEY SHARE"} {
		for _, tail := range []string{"none", "nowait", "skip"} {
			for _, of := range []bool{false, true} {
				lock, tail, of := lock, tail, of
				misc[fmt.Sprintf("select/for/%s/%s/%v", strings.ReplaceAll(lock, " ", "_"), tail, of)] = func(g *gen.G) gen.X {
					f := &gen.ForSpec{Lock: lock, NoWait: tail == "nowait", Skip: tail == "skip"}
					if of {
						f.Of = []string{"t", "u"}
					}
					return g.Select(&gen.SelectSpec{Cols: []gen.SelCol{{E: g.Ident("a")}}, From: []gen.TableRef{{Name: "t"}}, For: f})
				}
			}
		}
	}
	// set operations: every ordered pair of operators (with ALL variants): standard precedence
	setops := []string{"UNION", "EXCEPT", "INTERSECT"}
	for _, o1 := range setops {
		for _, a1 := range []bool{false, true} {
			o1, a1 := o1, a1
			misc[fmt.Sprintf("setop/%s/%v", o1, a1)] = func(g *gen.G) gen.X {
				return g.SetChain([]gen.X{simpleSel(g, "t"), simpleSel(g, "u")}, []string{o1}, []bool{a1})
			}
			for _, o2 := range setops {
				o2 := o2
				misc[fmt.Sprintf("setop/%s/%v/%s", o1, a1, o2)] = func(g *gen.G) gen.X {
					return g.SetChain([]gen.X{simpleSel(g, "t"), simpleSel(g, "u"), simpleSel(g, "v")}, []string{o1, o2}, []bool{a1, false})
				}
			}
		}
	}
	// CTE forms
	for _, rec := range []bool{false, true} {
		for _, cols := range []bool{false, true} {
			for mat := 0; mat < 3; mat++ {
				for _, n := range []int{1, 2} {
					rec, cols, mat, n := rec, cols, mat, n
					misc[fmt.Sprintf("cte/rec=%v/cols=%v/mat=%d/n=%d", rec, cols, mat, n)] = func(g *gen.G) gen.X {
						w := &gen.WithSpec{Recursive: rec}
						for i := 0; i < n; i++ {
							c := gen.CTE{Name: fmt.Sprintf("c%d", i+1), Mat: mat, Q: subq(g)}
							if cols {
								c.Cols = []string{"x", "y"}
							}
							w.CTEs = append(w.CTEs, c)
						}
						return g.Select(&gen.SelectSpec{With: w, Cols: []gen.SelCol{{E: g.Star()}}, From: []gen.TableRef{{Name: "c1"}}})
					}
				}
			}
		}
	}
	misc["cte/setop-body"] = func(g *gen.G) gen.X {
		body := g.SetChain([]gen.X{simpleSel(g, "t"), simpleSel(g, "u")}, []string{"UNION"}, []bool{true})
		return g.Select(&gen.SelectSpec{With: &gen.WithSpec{Recursive: true, CTEs: []gen.CTE{{Name: "r", Q: body}}}, Cols: []gen.SelCol{{E: g.Star()}}, From: []gen.TableRef{{Name: "r"}}})
	}
	misc["cte/main-setop"] = func(g *gen.G) gen.X {
		first := &gen.SelectSpec{With: &gen.WithSpec{CTEs: []gen.CTE{{Name: "c1", Q: subq(g)}}}, Cols: []gen.SelCol{{E: g.Ident("a")}}, From: []gen.TableRef{{Name: "c1"}}}
		return g.SetChain([]gen.X{g.Select(first), simpleSel(g, "u")}, []string{"UNION"}, []bool{false})
	}
	for _, name := range sortedKeys(misc) {
		add(name, misc[name])
	}
	// 10. statement kinds: a deterministic sweep over the generators of every non-query statement kind
	kinds := map[string]func(g *gen.G) gen.X{
		"insert": func(g *gen.G) gen.X { return g.Insert(2) }, "update": func(g *gen.G) gen.X { return g.Update(2) },
		"delete": func(g *gen.G) gen.X { return g.Delete(2) }, "merge": func(g *gen.G) gen.X { return g.Merge(2) },
		"create-table": func(g *gen.G) gen.X { return g.CreateTable(2) }, "create-index": func(g *gen.G) gen.X { return g.CreateIndex(2) }, "alter-table": func(g *gen.G) gen.X { return g.AlterTable(2) },
		"create-view": func(g *gen.G) gen.X { return g.CreateView(2) }, "drop": func(g *gen.G) gen.X { return g.Drop() },
		"truncate": func(g *gen.G) gen.X { return g.Truncate() }, "refresh": func(g *gen.G) gen.X { return g.Refresh() },
	}
	for _, k := range sortedKeys(kinds) {
		for i := 0; i < 40; i++ {
			k, i, b := k, i, kinds[k]
			add(fmt.Sprintf("stmt/%s/%02d", k, i), func(g *gen.G) gen.X {
				g.R = rand.New(rand.NewSource(int64(i)*7907 + int64(len(k))))
				g.PR = rand.New(rand.NewSource(int64(i) + 17))
				return b(g)
			})
		}
	}
	return cs
}

func sortedKeys[V any](m map[string]V) []string {
	out := make([]string, 0, len(m))
	for k := range m {
		out = append(out, k)
	}
	for i := 1; i < len(out); i++ {
		for j := i; j > 0 && out[j] < out[j-1]; j-- {
			out[j], out[j-1] = out[j-1], out[j]
		}
	}
	return out
}

func subq(g *gen.G) gen.X {
	w := g.Bin(">", g.Ident("y"), g.Int("0"))
	return g.Select(&gen.SelectSpec{Cols: []gen.SelCol{{E: g.Ident("x")}}, From: []gen.TableRef{{Name: "s"}}, Where: &w})
}

func simpleSel(g *gen.G, tbl string) gen.X {
	return g.Select(&gen.SelectSpec{Cols: []gen.SelCol{{E: g.Ident("a")}}, From: []gen.TableRef{{Name: tbl}}})
}
