package props

import (
	"bytes"
	"fmt"
	"math/rand"
	"os"
	"sort"
	"strings"
	"time"

	gcmd "github.com/ajitpratap0/GoSQLX/cmd/gosqlx/cmd"
	"github.com/ajitpratap0/GoSQLX/pkg/formatter"
	"github.com/ajitpratap0/GoSQLX/pkg/gosqlx"
	"github.com/ajitpratap0/GoSQLX/pkg/sql/ast"
	"verifharness/dump"
	"verifharness/gen"
	"verifharness/mon"
)

func init() {
	Registry["C06"] = &Prop{Level: "exploration", Parent: c06Parent, Child: c06Child}
}

func c06Parent(c *mon.Ctx) {
	c.Rule = "every accepted model statement (C03 catalogue + seeded random) and the repository SQL corpus is parsed, serialised by each serialiser (AST.SQL, AST.Format over the option grid, gosqlx.Format, formatter.Format, CLI SQLFormatter) and the output re-parsed: it must be accepted, give the same neutral tree (keyword case folded) and be a fixed point of the same serialiser. distinct_nontrivial = distinct (tree) inputs with at least one operator or clause"
	c.DistinctSet = "trees"
	c.Assumptions = []string{"tree equality is judged on the reflective neutral projection with keyword-valued fields case-folded", "composed layer avoids generator features listed under 'avoid' of open known findings"}
	n := 16
	per := 400
	if c.Tier == "thorough" {
		per = 2500
	}
	sh := shards("plain", "random", n, "-n", fmt.Sprint(per))
	sh = append(sh, shards("plain", "catalogue", 4)...)
	sh = append(sh, shards("plain", "corpus", 1)...)
	sh = append(sh, shards("plain", "comments", 2, "-n", fmt.Sprint(per/2))...)
	sh = append(sh, shards("plain", "cli-funnel", 2, "-n", fmt.Sprint(per/2))...)
	for i := range sh {
		sh[i].Timeout = 30 * time.Minute
	}
	res := c.RunShards(sh, 16)
	c.ClassifyDeaths(res, "serialisers never crash on a parsed tree")
}

// Serialiser is one way of turning an accepted input into SQL text.
type Serialiser struct {
	Name string
	F    func(sql string, a *ast.AST) (string, error)
}

func astFormatGrid(quick bool) []ast.FormatOptions {
	var out []ast.FormatOptions
	for _, kc := range []ast.KeywordCase{ast.KeywordUpper, ast.KeywordLower, ast.KeywordPreserve} {
		for _, is := range []ast.IndentStyle{ast.IndentSpaces, ast.IndentTabs} {
			for _, w := range []int{0, 2, 4} {
				for _, nl := range []bool{false, true} {
					for _, semi := range []bool{false, true} {
						out = append(out, ast.FormatOptions{IndentStyle: is, IndentWidth: w, KeywordCase: kc, LineWidth: 80, NewlinePerClause: nl, AddSemicolon: semi})
					}
				}
			}
		}
	}
	return out
}

func serialisers(full bool, pick int) []Serialiser {
	var out []Serialiser
	out = append(out, Serialiser{"AST.SQL", func(sql string, a *ast.AST) (string, error) { return a.SQL(), nil }})
	grid := astFormatGrid(false)
	idx := []int{0, 7, 29, 44, 58, 71}
	if full {
		idx = nil
		for i := range grid {
			idx = append(idx, i)
		}
	} else {
		// rotate the sampled grid points with the case index so that the quick tier still walks the whole grid
		for k := range idx {
			idx[k] = (idx[k] + pick*5) % len(grid)
		}
	}
	for _, i := range idx {
		o := grid[i]
		out = append(out, Serialiser{fmt.Sprintf("AST.Format{kc=%d,is=%d,w=%d,nl=%v,semi=%v}", o.KeywordCase, o.IndentStyle, o.IndentWidth, o.NewlinePerClause, o.AddSemicolon),
			func(sql string, a *ast.AST) (string, error) { return a.Format(o), nil }})
	}
	for _, up := range []bool{false, true} {
		for _, semi := range []bool{false, true} {
			for _, ind := range []int{0, 2, 4} {
				if !full && (ind == 4 || (up && semi)) {
					continue
				}
				o := gosqlx.FormatOptions{IndentSize: ind, UppercaseKeywords: up, AddSemicolon: semi, SingleLineLimit: 80}
				out = append(out, Serialiser{fmt.Sprintf("gosqlx.Format{ind=%d,up=%v,semi=%v}", ind, up, semi),
					func(sql string, a *ast.AST) (string, error) { return gosqlx.Format(sql, o) }})
			}
		}
	}
	for _, up := range []bool{false, true} {
		for _, compact := range []bool{false, true} {
			o := formatter.Options{IndentSize: 2, Uppercase: up, Compact: compact}
			out = append(out, Serialiser{fmt.Sprintf("formatter.Format{up=%v,compact=%v}", up, compact),
				func(sql string, a *ast.AST) (string, error) { return formatter.New(o).Format(sql) }})
		}
	}
	for _, up := range []bool{false, true} {
		for _, compact := range []bool{false, true} {
			for _, indent := range []string{"  ", "\t"} {
				if !full && indent == "\t" && compact {
					continue
				}
				o := gcmd.FormatterOptions{Indent: indent, Compact: compact, UppercaseKw: up}
				out = append(out, Serialiser{fmt.Sprintf("cli.SQLFormatter{up=%v,compact=%v,tab=%v}", up, compact, indent == "\t"),
					func(sql string, a *ast.AST) (string, error) { return gcmd.NewSQLFormatter(o).Format(a) }})
			}
		}
	}
	return out
}

func serFamily(name string) string {
	if i := strings.IndexByte(name, '{'); i > 0 {
		return name[:i]
	}
	return name
}

// c06One checks one accepted input against all serialisers. idPrefix names the case for identities.
func c06One(a *ChildArgs, idPrefix string, sql string, composed bool, pick int) {
	t0, err := gosqlx.Parse(sql)
	if err != nil {
		a.Rec.Count("inputs_rejected_skipped", 1)
		return
	}
	want := dump.Tree(t0)
	wantStr := want.String()
	a.Rec.Distinct("trees", wantStr)
	a.Rec.Count("inputs", 1)
	failedFamilies := map[string]bool{}
	for _, s := range serialisers(!a.Quick(), pick) {
		fam := serFamily(s.Name)
		if failedFamilies[fam] {
			continue
		}
		a.Rec.Count("evaluations", 1)
		// re-parse for each serialiser: none may depend on another's side effects
		t1, err := gosqlx.Parse(sql)
		if err != nil {
			continue
		}
		y, err := safeSerialise(s, sql, t1)
		report := func(clause, sub, detail string) {
			failedFamilies[fam] = true
			id := idPrefix + "/" + fam + "#" + clause
			if composed {
				id = "C06/composed/" + fam + "#" + clause + "/" + sub
			}
			if fam == "cli.SQLFormatter" && !composed {
				id = "C06/cli.SQLFormatter#" + clause + "@" + lastSegments(sub, 2)
			}
			a.Rec.Viol(id, clause, detail, map[string]interface{}{"sql": sql, "serialiser": s.Name, "output": y})
		}
		if err != nil {
			report("serialiser-error", errIdentity(err), "serialiser returned error on an accepted input: "+firstLine(err.Error()))
			continue
		}
		t2, err := gosqlx.Parse(y)
		if err != nil {
			report("output-rejected", errIdentity(err), "serialised text is not accepted: "+firstLine(err.Error())+" | output: "+trunc(y, 300))
			continue
		}
		got := dump.Tree(t2)
		if d := dump.Diff(want, got); d != "" {
			report("tree-changed", dump.DiffKey(d), d+" | output: "+trunc(y, 300))
			continue
		}
		// fixed point: serialising the re-parsed output gives the same text
		y2, err := safeSerialise(s, y, t2)
		if err != nil || y2 != y {
			report("not-idempotent", "", fmt.Sprintf("second application differs: first=%q second=%q err=%v", trunc(y, 200), trunc(y2, 200), err))
			continue
		}
	}
	if len(failedFamilies) == 0 {
		a.Rec.Count("inputs_all_serialisers_ok", 1)
	}
}

func c06Child(a *ChildArgs) {
	switch a.Phase {
	case "catalogue":
		cases := C03Catalogue()
		for i, cc := range cases {
			if i%a.NShards != a.Shard {
				continue
			}
			g := gen.New(rand.New(rand.NewSource(42)), nil)
			x := cc.Build(g)
			sql := gen.Plain(x.Toks)
			c06One(a, "C06/"+strings.TrimPrefix(cc.ID, "C03/"), sql, false, i)
			if i%400 == 0 {
				a.Rec.Sample("catalogue", 2, map[string]string{"id": cc.ID, "sql": sql})
			}
		}
	case "random":
		avoid := mon.AvoidFeatures()
		base := a.Seed*7919 + int64(a.Shard)*104729
		for i := 0; i < a.N; i++ {
			seed := base + int64(i)*15485863
			g := gen.New(rand.New(rand.NewSource(seed)), avoid)
			g.ParenPol = i % 3
			x := g.Statement(3)
			sql := gen.Plain(x.Toks)
			c06One(a, "", sql, true, i)
			if i < 2 {
				a.Rec.Sample("random", 2, map[string]string{"sql": trunc(sql, 300)})
			}
		}
	case "comments":
		// the comment-carrying path (formatter.Format): statements decorated with leading / trailing / inline comments
		avoid := mon.AvoidFeatures()
		base := a.Seed*7919 + int64(a.Shard)*104729 + 5
		for i := 0; i < a.N; i++ {
			seed := base + int64(i)*15485863
			r := rand.New(rand.NewSource(seed))
			g := gen.New(rand.New(rand.NewSource(seed)), avoid)
			nst := 1 + r.Intn(2)
			var sb strings.Builder
			nc := 0
			comment := func() string {
				nc++
				if r.Intn(2) == 0 {
					return fmt.Sprintf("-- c%d", nc)
				}
				if r.Intn(4) == 0 {
					return fmt.Sprintf("/* c%d\n   more */", nc) // a block comment that spans lines
				}
				return fmt.Sprintf("/* c%d */", nc)
			}
			for st := 0; st < nst; st++ {
				x := g.Statement(1)
				for k := r.Intn(3); k > 0; k-- { // leading comments, each on its own line
					sb.WriteString(comment() + "\n")
				}
				for ti, tk := range x.Toks {
					if ti > 0 {
						sb.WriteString(" ")
					}
					sb.WriteString(tk.S)
					if r.Intn(6) == 0 { // trailing comment(s) on this line, then a line break
						for k := 1 + r.Intn(2); k > 0; k-- {
							c := comment()
							sb.WriteString(" " + c)
							if strings.HasPrefix(c, "--") {
								break
							}
						}
						sb.WriteString("\n")
					}
				}
				sb.WriteString(";")
				for k := r.Intn(3); k > 0; k-- { // comments after the semicolon
					c := comment()
					sb.WriteString(" " + c)
					if strings.HasPrefix(c, "--") {
						sb.WriteString("\n")
					}
				}
				sb.WriteString("\n")
			}
			sql := sb.String()
			a.Rec.Count("evaluations", 1)
			a.Rec.Distinct("inputs", sql)
			t0, err := gosqlx.Parse(sql)
			if err != nil {
				continue
			}
			want := dump.Tree(t0)
			for _, up := range []bool{false, true} {
				for _, compact := range []bool{false, true} {
					f := formatter.New(formatter.Options{IndentSize: 2, Uppercase: up, Compact: compact})
					name := fmt.Sprintf("formatter.Format{up=%v,compact=%v}", up, compact)
					y, err := f.Format(sql)
					wit := map[string]interface{}{"sql": sql, "serialiser": name, "output": y}
					if err != nil {
						a.Rec.Viol("C06/comments/formatter.Format#serialiser-error", "serialiser-error", firstLine(err.Error()), wit)
						break
					}
					t2, err := gosqlx.Parse(y)
					if err != nil {
						a.Rec.Viol("C06/comments/formatter.Format#output-rejected", "output-rejected", firstLine(err.Error())+" | output: "+trunc(y, 300), wit)
						break
					}
					if d := dump.Diff(want, dump.Tree(t2)); d != "" {
						a.Rec.Viol("C06/comments/formatter.Format#tree-changed"+dump.DiffKey(d), "tree-changed", d, wit)
						break
					}
					y2, err := f.Format(y)
					if err != nil || y2 != y {
						wit["second"] = y2
						a.Rec.Viol("C06/comments/formatter.Format#not-idempotent", "formatting already formatted output returns it unchanged", firstDiff(y, y2), wit)
						break
					}
					// the output carries the same comments as the input, each one still a comment of its own
					if ci, co := c06CommentTexts(sql), c06CommentTexts(y); ci != co {
						a.Rec.Viol("C06/comments/formatter.Format#comments-changed", "comments survive formatting", fmt.Sprintf("comments of the input %q, of the output %q", ci, co), wit)
						break
					}
					// every comment written is still there
					for k := 1; k <= nc; k++ {
						if !strings.Contains(y, fmt.Sprintf("c%d", k)) {
							a.Rec.Viol("C06/comments/formatter.Format#comment-lost", "comments survive formatting", fmt.Sprintf("comment c%d is missing from the output", k), wit)
							break
						}
					}
				}
			}
		}
	case "cli-funnel":
		// the CLI's whole formatting path (what format prints and what format -i writes), not just its layout engine:
		// the text that comes out must still mean the input
		avoid := mon.AvoidFeatures()
		base := a.Seed*7919 + int64(a.Shard)*104729 + 9
		dir := fmt.Sprintf("/verif/run/C06/funnel-%d-%d", a.Shard, os.Getpid())
		os.MkdirAll(dir, 0755)
		defer os.RemoveAll(dir)
		path := dir + "/f.sql"
		// what the CLI's own layouts take care of and the library serialisers do not (a listed finding there): aliases
		// that need their quotes, in any letter case
		funnelFixed := []string{
			`SELECT qty AS "order", team AS "group" FROM sales`, `SELECT a AS "Select", b AS "FROM", c AS "End" FROM t`, `SELECT a AS "two words", b AS "x-y" FROM t`,
			`SELECT COUNT(*) AS "count", MAX(a) AS "max" FROM t GROUP BY b`, `SELECT a AS "order" FROM t ORDER BY a`,
		}
		for i := 0; i < a.N+len(funnelFixed); i++ {
			seed := base + int64(i)*15485863
			g := gen.New(rand.New(rand.NewSource(seed)), avoid)
			var sql string
			if i < len(funnelFixed) {
				if a.Shard != 0 {
					continue
				}
				sql = funnelFixed[i]
			} else {
				sql = gen.Plain(g.Statement(2).Toks)
			}
			t0, err := gosqlx.Parse(sql)
			if err != nil {
				continue
			}
			want := dump.Tree(t0)
			for _, o := range []gcmd.CLIFormatterOptions{{IndentSize: 2, Uppercase: true}, {IndentSize: 4}, {IndentSize: 2, Compact: true, Uppercase: true}} {
				a.Rec.Count("evaluations", 1)
				a.Rec.Distinct("inputs", sql)
				os.WriteFile(path, []byte(sql), 0644)
				var out, errb bytes.Buffer
				_, ferr := gcmd.NewFormatter(&out, &errb, o).Format([]string{path})
				name := fmt.Sprintf("cli.Formatter{up=%v,compact=%v,indent=%d}", o.Uppercase, o.Compact, o.IndentSize)
				y := out.String()
				wit := map[string]interface{}{"sql": sql, "serialiser": name, "output": y, "stderr": trunc(errb.String(), 300)}
				if ferr != nil || errb.Len() > 0 {
					a.Rec.Viol("C06/cli-funnel#serialiser-error", "serialiser-error", fmt.Sprintf("err=%v stderr=%s", ferr, firstLine(errb.String())), wit)
					break
				}
				t2, err := gosqlx.Parse(y)
				if err != nil {
					a.Rec.Viol("C06/cli-funnel#output-rejected/"+errIdentity(err), "output-rejected", firstLine(err.Error())+" | output: "+trunc(y, 300), wit)
					break
				}
				if d := dump.Diff(want, dump.Tree(t2)); d != "" {
					a.Rec.Viol("C06/cli-funnel#tree-changed"+dump.DiffKey(d), "tree-changed", d+" | output: "+trunc(y, 300), wit)
					break
				}
			}
		}
		if a.Shard == 0 {
			// one large script (above half a megabyte of output): size must not change what the funnel guarantees
			g := gen.New(rand.New(rand.NewSource(base+77)), avoid)
			var pool []string
			for len(pool) < 60 {
				sql := gen.Plain(g.Statement(2).Toks)
				if _, err := gosqlx.Parse(sql); err == nil {
					pool = append(pool, sql)
				}
			}
			var sb strings.Builder
			for k := 0; sb.Len() < 700<<10; k++ {
				sb.WriteString(pool[k%len(pool)])
				sb.WriteString(";\n")
			}
			script := sb.String()
			if t0, err := gosqlx.Parse(script); err == nil {
				want := dump.Tree(t0)
				a.Rec.Count("evaluations", 1)
				a.Rec.Count("large_script_bytes", int64(len(script)))
				os.WriteFile(path, []byte(script), 0644)
				var out, errb bytes.Buffer
				_, ferr := gcmd.NewFormatter(&out, &errb, gcmd.CLIFormatterOptions{IndentSize: 2, Uppercase: true}).Format([]string{path})
				y := out.String()
				wit := map[string]interface{}{"script_bytes": len(script), "statements": len(t0.Statements), "first_statements": trunc(script, 600), "output_bytes": len(y)}
				if ferr != nil || errb.Len() > 0 {
					a.Rec.Viol("C06/cli-funnel/large-script#serialiser-error", "serialiser-error", fmt.Sprintf("err=%v stderr=%s", ferr, firstLine(errb.String())), wit)
				} else if t2, err := gosqlx.Parse(y); err != nil {
					a.Rec.Viol("C06/cli-funnel/large-script#output-rejected", "output-rejected", firstLine(err.Error()), wit)
				} else if d := dump.Diff(want, dump.Tree(t2)); d != "" {
					a.Rec.Viol("C06/cli-funnel/large-script#tree-changed", "tree-changed", trunc(d, 600), wit)
				}
			}
		}
	case "corpus":
		for i, f := range CorpusFiles() {
			c06One(a, "C06/corpus/"+f.Name, f.SQL, false, i)
		}
		// accepted statements the model grammar and the corpus do not hold
		for i, ex := range []struct{ name, sql string }{
			{"replace-into", "REPLACE INTO t (a, b) VALUES (1, 'x'), (2, f(c))"}, {"replace-into-no-columns", "REPLACE INTO s1.t VALUES (1)"},
			{"show-tables", "SHOW TABLES"}, {"show-tables-from", "SHOW TABLES FROM db1"}, {"show-databases", "SHOW DATABASES"}, {"show-create-table", "SHOW CREATE TABLE s1.t"},
			{"show-create-view", "SHOW CREATE VIEW v"}, {"show-columns", "SHOW COLUMNS FROM t"}, {"show-index", "SHOW INDEX FROM t"}, {"show-keys", "SHOW KEYS FROM t"}, {"show-status", "SHOW STATUS"},
			{"show-in-script", "SHOW TABLES; SELECT 1; SHOW VARIABLES"}, {"describe", "DESCRIBE t"}, {"describe-qualified", "DESCRIBE s1.t"}, {"explain-table", "EXPLAIN t"},
			{"on-duplicate-key", "INSERT INTO t (a, b) VALUES (1, 2) ON DUPLICATE KEY UPDATE b = b + 1, a = 3"}, {"on-duplicate-key-select", "INSERT INTO t (a) SELECT x FROM u ON DUPLICATE KEY UPDATE a = 0"},
			{"cast-array-op", "SELECT a::int[], b::text[] FROM t"}, {"cast-array-fn", "SELECT CAST(a AS INT[]) FROM t"},
			{"subscript-after-cast", "SELECT (x::int[])[1], (y::text[])[2:3][1] FROM t"}, {"subscript-after-constructor", "SELECT (ARRAY[1, 2])[1], (f(a))[2], (b || c)[1:2] FROM t"},
			{"string-with-nul", "SELECT 'a\x00b' FROM t"}, {"string-with-ctrl-z", "SELECT 'a\x1ab', 'c\x01\x7fd' FROM t"}, {"string-with-escapes", "INSERT INTO t (a) VALUES ('tab\\tnl\\ncr\\rbs\\\\q''x')"},
		} {
			if _, err := gosqlx.Parse(ex.sql); err != nil {
				a.Rec.Inconclusive("C06/extra/"+ex.name+"/rejected", "the hand-written statement is not accepted: "+firstLine(err.Error()))
				continue
			}
			c06One(a, "C06/extra/"+ex.name, ex.sql, false, i)
		}
	}
}

// c06CommentTexts returns the sorted texts of the comments the tokenizer captures in a text.
func c06CommentTexts(sql string) string {
	tk := mustTokenizer()
	if _, err := tk.Tokenize([]byte(sql)); err != nil {
		return "tokenize error: " + firstLine(err.Error())
	}
	var cs []string
	for _, c := range tk.Comments {
		cs = append(cs, strings.TrimSpace(c.Text))
	}
	sort.Strings(cs)
	return strings.Join(cs, " | ")
}

// safeSerialise runs a serialiser and turns a panic into an error (the panic itself is a C01 matter, but it also
// means the serialiser produced nothing for an accepted input).
func safeSerialise(s Serialiser, sql string, a *ast.AST) (out string, err error) {
	defer func() {
		if r := recover(); r != nil {
			err = fmt.Errorf("panic: %v", r)
		}
	}()
	return s.F(sql, a)
}

func lastSegments(path string, n int) string {
	parts := strings.Split(strings.Trim(path, "/"), "/")
	if len(parts) > n {
		parts = parts[len(parts)-n:]
	}
	return strings.Join(parts, "/")
}
