package props

import (
	"context"
	"fmt"
	"github.com/ajitpratap0/GoSQLX/pkg/sql/keywords"
	"math/rand"
	"os"
	"path/filepath"
	"runtime"
	"sort"
	"strings"
	"sync"
	"sync/atomic"
	"time"

	"github.com/anishathalye/porcupine"

	"github.com/ajitpratap0/GoSQLX/pkg/config"
	goerrors "github.com/ajitpratap0/GoSQLX/pkg/errors"
	"github.com/ajitpratap0/GoSQLX/pkg/formatter"
	"github.com/ajitpratap0/GoSQLX/pkg/gosqlx"
	"github.com/ajitpratap0/GoSQLX/pkg/linter"
	"github.com/ajitpratap0/GoSQLX/pkg/metrics"
	"github.com/ajitpratap0/GoSQLX/pkg/models"
	textsec "github.com/ajitpratap0/GoSQLX/pkg/security"
	"github.com/ajitpratap0/GoSQLX/pkg/sql/ast"
	"github.com/ajitpratap0/GoSQLX/pkg/sql/parser"
	"github.com/ajitpratap0/GoSQLX/pkg/sql/security"
	"github.com/ajitpratap0/GoSQLX/pkg/sql/tokenizer"
	"verifharness/dump"
	"verifharness/gen"
	"verifharness/mon"
)

func init() {
	Registry["C10"] = &Prop{Level: "exploration", Parent: c10Parent, Child: c10Child}
}

func c10Parent(c *mon.Ctx) {
	c.Rule = "a sequential table digest(op, input) is computed first for every (operation, input) pair (tokenize, all parse variants, serialisers, extractors, scanners, linter, spans, caches, pool get/put); then 2, 16 and 64 goroutines run random mixes and every result must equal the table's, in a -race build whose reports (GORACE log, halt_on_error=0) are counted and deduplicated by innermost library frame pair; overlapping pairs of operation kinds actually observed are recorded. metrics: exact totals (operations, errors, bytes, min, max) after quiescence for workloads whose true totals the harness computes; lost-update rounds (8 goroutines released from a spin barrier, each recording one distinct size); snapshots taken during the run are checked with porcupine against a counter model, partitioned per counter. distinct_nontrivial = distinct overlapping operation-kind pairs observed plus distinct (op, input) table entries"
	c.DistinctSet = "cases"
	c.Assumptions = []string{"wall-clock fields of the metrics are not compared", "race reports entirely inside the Go runtime or the harness are discarded", "a porcupine timeout is inconclusive"}
	reps := 3
	if c.Tier == "thorough" {
		reps = 10
	}
	var sh []mon.Shard
	for i := 0; i < reps; i++ {
		s := mon.Shard{Variant: "race", Phase: "mix", Name: fmt.Sprintf("mix-%02d", i), Args: []string{"-shard", fmt.Sprint(i), "-nshards", fmt.Sprint(reps)}, Timeout: 20 * time.Minute,
			Env: []string{fmt.Sprintf("GORACE=halt_on_error=0 log_path=%s/race-%d", c.RunDir, i)}}
		sh = append(sh, s)
	}
	sh = append(sh, shards("plain", "metrics", 2)...)
	sh = append(sh, shards("plain", "snapshots", 2)...)
	for i := 0; i < 6; i++ {
		// six fresh processes: each is one cold start
		sh = append(sh, mon.Shard{Variant: "race", Phase: "dialects-cold", Name: fmt.Sprintf("dialects-cold-%02d", i), Args: []string{"-shard", fmt.Sprint(i), "-nshards", "6"}, Timeout: 10 * time.Minute,
			Env: []string{fmt.Sprintf("GORACE=halt_on_error=0 log_path=%s/race-dc%d", c.RunDir, i)}})
	}
	res := c.RunShards(sh, 8)
	c.ClassifyDeaths(res, "no fatal concurrent map access / crash")
	total, dedup := mon.CountRaceReports(c.RunDir + "/race-")
	c.AddStat("race_report_blocks", int64(total))
	var keys []string
	for k := range dedup {
		keys = append(keys, k)
	}
	sort.Strings(keys)
	for _, k := range keys {
		c.AddViol(mon.Viol{ID: "C10/race/" + k, Clause: "no execution contains a data race on library state", Detail: dedup[k], Phase: "mix"})
	}
}

type c10Op struct {
	Name string
	F    func(in string) string
}

func sortedStrs(xs []string) string {
	ys := append([]string(nil), xs...)
	sort.Strings(ys)
	return strings.Join(ys, ",")
}

var c10ConfigPath string

func c10Ops() []c10Op {
	return []c10Op{
		{"tokenize", func(s string) string {
			tk := tokenizer.GetTokenizer()
			defer tokenizer.PutTokenizer(tk)
			toks, err := tk.Tokenize([]byte(s))
			if err != nil {
				return "err:" + codeOf(err)
			}
			return dump.Dump(toks) + dump.Dump(tk.Comments)
		}},
		{"tokenize-context", func(s string) string {
			// the context variant on a pooled instance: tokens with their spans, comments, and the located error
			tk := tokenizer.GetTokenizer()
			defer tokenizer.PutTokenizer(tk)
			toks, err := tk.TokenizeContext(context.Background(), []byte(s))
			if err != nil {
				return "err:" + codeOf(err) + firstLine(err.Error())
			}
			return dump.Dump(toks) + dump.Dump(tk.Comments)
		}},
		{"parse", func(s string) string {
			a, err := gosqlx.Parse(s)
			if err != nil {
				return "err:" + codeOf(err) + firstLine(err.Error())
			}
			d := dump.Dump(a)
			ast.ReleaseAST(a)
			return d
		}},
		{"parse-context", func(s string) string {
			// the context-aware entry points; the tree is held while a second one is parsed, then both are compared with
			// what a sequential run gives
			a1, err1 := gosqlx.ParseWithContext(context.Background(), s)
			a2, err2 := gosqlx.ParseWithTimeout(s, time.Minute)
			out := errDigest(err1) + errDigest(err2)
			if a1 != nil {
				out += dump.Dump(a1)
			}
			if a2 != nil {
				out += dump.Dump(a2)
				ast.ReleaseAST(a2)
			}
			if a1 != nil {
				ast.ReleaseAST(a1)
			}
			return out
		}},
		{"parse-pooled", func(s string) string {
			a, err := parser.ParseBytes([]byte(s))
			if err != nil {
				return "err:" + codeOf(err)
			}
			return dump.Dump(a)
		}},
		{"validate", func(s string) string { return errDigest(parser.Validate(s)) + errDigest(gosqlx.Validate(s)) }},
		{"parse-multiple", func(s string) string {
			as, err := gosqlx.ParseMultiple([]string{s, "SELECT 1", s})
			if err != nil {
				return "err:" + codeOf(err)
			}
			return dump.Dump(as)
		}},
		{"recovery", func(s string) string {
			stmts, errs := gosqlx.ParseWithRecovery(s)
			return dump.Dump(stmts) + fmt.Sprint(len(errs))
		}},
		{"sql", func(s string) string {
			a, err := gosqlx.Parse(s)
			if err != nil {
				return "err"
			}
			return a.SQL()
		}},
		{"format", func(s string) string {
			o, err := gosqlx.Format(s, gosqlx.FormatOptions{IndentSize: 2, UppercaseKeywords: true, AddSemicolon: true})
			o2, _ := formatter.New(formatter.Options{Compact: true}).Format(s)
			return o + "|" + o2 + errDigest(err)
		}},
		{"extract", func(s string) string {
			a, err := gosqlx.Parse(s)
			if err != nil {
				return "err"
			}
			md := gosqlx.ExtractMetadata(a)
			return sortedStrs(md.Tables) + "|" + sortedStrs(md.Columns) + "|" + sortedStrs(md.Functions)
		}},
		{"scan", func(s string) string {
			a, err := gosqlx.Parse(s)
			var r1 *security.ScanResult
			if err == nil {
				r1 = security.NewScanner().Scan(a)
			}
			r2 := security.NewScanner().ScanSQL(s)
			return dump.Dump(r1) + dump.Dump(r2) + dump.Dump(textsec.NewScanner().Scan(s))
		}},
		{"lint", func(s string) string {
			res := linter.New(AllRules()...).LintString(s, "f.sql")
			var ids []string
			for _, v := range res.Violations {
				ids = append(ids, fmt.Sprintf("%s@%d:%d", v.Rule, v.Location.Line, v.Location.Column))
			}
			return strings.Join(ids, ",")
		}},
		{"lint-shared", func(s string) string {
			// a Linter is documented as safe for concurrent use and reusable: while the goroutines run they all share
			// one; the sequential table is computed by a fresh one per input (the call run alone)
			l := linter.New(AllRules()...)
			if c10Shared.Load() {
				l = c10SharedLinter()
			}
			res := l.LintString(s, "f.sql")
			var ids []string
			for _, v := range res.Violations {
				ids = append(ids, fmt.Sprintf("%s@%d:%d", v.Rule, v.Location.Line, v.Location.Column))
			}
			return strings.Join(ids, ",")
		}},
		{"span", func(s string) string {
			// per-caller node: the span registry is shared library state
			n := &ast.Identifier{Name: s}
			sp := models.Span{Start: models.Location{Line: len(s), Column: 1}, End: models.Location{Line: len(s), Column: 2}}
			ast.SetSpan(n, sp)
			got := ast.GetSpan(n)
			return fmt.Sprint(got == sp)
		}},
		{"stats", func(s string) string { st := metrics.GetStats(); _ = st; return "ok" }},
		{"pool", func(s string) string {
			id := ast.GetIdentifier()
			ok := id.Name == "" && id.Table == ""
			id.Name = s
			ast.PutIdentifier(id)
			p := parser.GetParser()
			parser.PutParser(p)
			return fmt.Sprint(ok)
		}},
		{"suggest", func(s string) string {
			_, err := gosqlx.Parse("SELEC a FORM t")
			_, err2 := gosqlx.Parse(s + " ]")
			x := ""
			if e, ok := err.(interface{ Error() string }); ok {
				x = firstLine(e.Error())
			}
			_ = goerrors.SuggestionCacheSize()
			return x + errDigest(err2)
		}},
		{"hints", func(s string) string {
			// keyword suggestions for misspelt words (what every "expected X, got Y" error computes): a pure function of
			// the word, whoever else asks at the same time
			var out []string
			for k := 0; k < 4; k++ {
				w := c10Typos[(len(s)*7+k*13)%len(c10Typos)]
				out = append(out, w+"->"+goerrors.SuggestKeyword(w))
			}
			return strings.Join(out, ",")
		}},
		{"config", func(s string) string {
			cfg, err := config.LoadFromFileCached(c10ConfigPath)
			if err != nil {
				return "err:" + err.Error()
			}
			d := dump.Dump(cfg)
			// the caller owns what it got: editing it must not leak to others
			cfg.Format.Indent = 100 + len(s)
			return d
		}},
	}
}

var c10Typos = []string{"SELCT", "FORM", "WHER", "GROPU", "ODER", "INSRT", "UPDTE", "DELTE", "JION", "HAVNG", "LIMT", "OFSET", "UNOIN", "VALUS", "CRATE", "TABEL", "WXYZALTER", "DISTINT", "BETWEN", "EXSITS",
	"INTERSCT", "EXCPT", "RETURNNG", "CASCAD", "PRIMRY", "FOREGN", "REFERNCES", "CONSTRANT", "DEFALT", "UNIQE", "INDX", "VEIW", "TRUNCAT", "MERG", "MATCHD", "RECURSVE", "LATERL", "NATRAL", "PARTITON", "PRECEDNG"}

var c10Shared atomic.Bool
var c10SharedOnce sync.Once
var c10SharedL *linter.Linter

func c10SharedLinter() *linter.Linter {
	c10SharedOnce.Do(func() { c10SharedL = linter.New(AllRules()...) })
	return c10SharedL
}

func c10Inputs(seed int64) []string {
	fixed := []string{
		"SELECT a, b FROM t WHERE a = 1 AND b IN (1, 2, 3) ORDER BY a DESC LIMIT 10",
		"SELECT u.name, COUNT(*) AS n FROM users u LEFT JOIN orders o ON u.id = o.user_id GROUP BY u.name HAVING COUNT(*) > 1",
		"WITH c AS (SELECT a FROM t WHERE a IS NOT NULL) SELECT * FROM c UNION ALL SELECT b FROM u",
		"INSERT INTO t (a, b) VALUES (1, 'x'), (2, 'y') ON CONFLICT (a) DO UPDATE SET b = 'z' RETURNING a",
		"UPDATE t SET a = a + 1 WHERE b = (SELECT MAX(c) FROM u)", "DELETE FROM t WHERE a BETWEEN 1 AND 10",
		"SELECT a -- trailing comment\nFROM t /* block */ WHERE x = 'it''s'", "select   a ,b from t where 1=1 or SLEEP(5) > 0",
		"SELECT\t1,\t2", "\tSELECT\ta /* c */\tFROM\tt", "     SELECT a FROM t WHERE 'x", "          SELECT a FROM t -- c", "\t\tSELECT a\n\t\tFROM t WHERE ]",
		"SELECT FROM", "SELECT a FROM t WHERE ]", "SELECT 'unterminated", "SELECT a FROM t;; SELECT b FROM u", "", ";", " ; ; ", "-- only a comment",
		"CREATE TABLE t (a INT PRIMARY KEY, b TEXT NOT NULL DEFAULT 'x')", "SELECT RANK() OVER (PARTITION BY a ORDER BY b ROWS BETWEEN 1 PRECEDING AND CURRENT ROW) FROM t",
		"MERGE INTO t USING s ON t.a = s.a WHEN MATCHED THEN UPDATE SET b = s.b WHEN NOT MATCHED THEN INSERT (a) VALUES (s.a)",
	}
	avoid := mon.AvoidFeatures()
	for i := 0; i < 24; i++ {
		g := gen.New(rand.New(rand.NewSource(seed*131+int64(i))), avoid)
		x := g.Statement(2)
		if i%4 == 3 {
			m, _, _ := gen.MutateToks(g.R, x.Toks)
			fixed = append(fixed, gen.Plain(m))
		} else {
			fixed = append(fixed, gen.Plain(x.Toks))
		}
	}
	return fixed
}

func c10Mix(a *ChildArgs) {
	dir, _ := os.MkdirTemp("", "vh-c10-")
	defer os.RemoveAll(dir)
	c10ConfigPath = filepath.Join(dir, "gosqlx.yml")
	os.WriteFile(c10ConfigPath, []byte("format:\n  indent: 2\n  uppercase_keywords: true\nvalidate:\n  dialect: postgresql\n"), 0o644)
	metrics.Enable()
	ops := c10Ops()
	inputs := c10Inputs(a.Seed)
	// sequential table
	table := map[string]string{}
	for _, op := range ops {
		for ii, in := range inputs {
			table[fmt.Sprintf("%s#%d", op.Name, ii)] = op.F(in)
			a.Rec.Distinct("cases", fmt.Sprintf("table|%s|%d", op.Name, ii))
		}
	}
	a.Rec.Count("table_entries", int64(len(table)))
	c10Shared.Store(true)
	defer c10Shared.Store(false)
	// the table run has filled the process-wide suggestion cache: empty it, so that the goroutines meet the
	// computation behind it and not only its memo
	goerrors.ClearSuggestionCache()
	var clock int64
	type span struct {
		op         int
		start, end int64
	}
	for _, ng := range []int{2, 16, 64} {
		goerrors.ClearSuggestionCache()
		perG := 1500 / ng
		if !a.Quick() {
			perG = 12000 / ng
		}
		spans := make([][]span, ng)
		var wg sync.WaitGroup
		start := make(chan struct{})
		for g := 0; g < ng; g++ {
			wg.Add(1)
			go func(g int) {
				defer wg.Done()
				r := rand.New(rand.NewSource(a.Seed*7 + int64(a.Shard)*1009 + int64(ng)*100 + int64(g)))
				<-start
				for k := 0; k < perG; k++ {
					oi, ii := r.Intn(len(ops)), r.Intn(len(inputs))
					t0 := atomic.AddInt64(&clock, 1)
					var got string
					func() {
						defer func() {
							if rec := recover(); rec != nil {
								got = fmt.Sprintf("PANIC: %v", rec)
							}
						}()
						got = ops[oi].F(inputs[ii])
					}()
					t1 := atomic.AddInt64(&clock, 1)
					spans[g] = append(spans[g], span{oi, t0, t1})
					a.Rec.Count("evaluations", 1)
					if want := table[fmt.Sprintf("%s#%d", ops[oi].Name, ii)]; got != want {
						a.Rec.Viol("C10/result/"+ops[oi].Name, "every call returns exactly what it returns when run alone",
							fmt.Sprintf("%s on input %d under %d goroutines: got %s, alone %s", ops[oi].Name, ii, ng, trunc(got, 300), trunc(want, 300)),
							map[string]interface{}{"op": ops[oi].Name, "input": inputs[ii], "goroutines": ng})
					}
				}
			}(g)
		}
		close(start)
		wg.Wait()
		// interleaving evidence: distinct overlapping pairs of operation kinds
		var all []span
		for _, s := range spans {
			all = append(all, s...)
		}
		sort.Slice(all, func(i, j int) bool { return all[i].start < all[j].start })
		for i := range all {
			for j := i + 1; j < len(all) && all[j].start < all[i].end; j++ {
				x, y := ops[all[i].op].Name, ops[all[j].op].Name
				if x > y {
					x, y = y, x
				}
				a.Rec.Distinct("cases", "overlap|"+x+"|"+y)
				a.Rec.Distinct("overlapping_pairs", x+"|"+y)
				a.Rec.Count("overlaps_observed", 1)
			}
		}
	}
	a.Rec.Sample("mix", 1, map[string]interface{}{"ops": len(ops), "inputs": len(inputs), "goroutines": []int{2, 16, 64}})
}

// ---------- metrics ----------

func c10Metrics(a *ChildArgs) {
	metrics.Enable()
	inputs := c10Inputs(a.Seed + int64(a.Shard))
	// inputs that fail with many distinct error texts (a different position, character or lexeme each)
	var manyBad []string
	for k := 0; k < 900; k++ {
		switch k % 3 {
		case 0:
			manyBad = append(manyBad, "SELECT a,"+strings.Repeat(" ", k/3)+"'never closed")
		case 1:
			manyBad = append(manyBad, strings.Repeat("\n", k/3)+"SELECT \"q"+fmt.Sprint(k))
		default:
			manyBad = append(manyBad, "SELECT a FROM t WHERE b = 1"+strings.Repeat(" ", k/3)+"\x01")
		}
	}
	// exact totals
	for round := 0; round < 20; round++ {
		metrics.Reset()
		metrics.Enable()
		ng := []int{2, 8, 32, 64}[round%4]
		var wantOps, wantErr, wantBytes int64
		wantMin, wantMax := int64(-1), int64(0)
		type job struct{ in string }
		var jobs [][]string
		r := rand.New(rand.NewSource(a.Seed*31 + int64(round)))
		perG, pool := 40, inputs
		if round%5 == 4 {
			perG, pool = 400, append(append([]string{}, inputs[:8]...), manyBad...) // more distinct error texts than any breakdown table is likely to keep
		}
		for g := 0; g < ng; g++ {
			var js []string
			for k := 0; k < perG; k++ {
				in := pool[r.Intn(len(pool))]
				js = append(js, in)
				wantOps++
				wantBytes += int64(len(in))
				if tokenizerRejects(in) {
					wantErr++
				}
				if wantMin == -1 || int64(len(in)) < wantMin {
					wantMin = int64(len(in))
				}
				if int64(len(in)) > wantMax {
					wantMax = int64(len(in))
				}
			}
			jobs = append(jobs, js)
		}
		// tokenizerRejects itself tokenizes: reset after computing expectations
		metrics.Reset()
		metrics.Enable()
		var wg sync.WaitGroup
		start := make(chan struct{})
		for g := 0; g < ng; g++ {
			wg.Add(1)
			go func(js []string) {
				defer wg.Done()
				<-start
				for _, in := range js {
					tk := tokenizer.GetTokenizer()
					_, _ = tk.Tokenize([]byte(in))
					tokenizer.PutTokenizer(tk)
				}
			}(jobs[g])
		}
		close(start)
		wg.Wait()
		st := metrics.GetStats()
		a.Rec.Count("evaluations", 1)
		a.Rec.Distinct("cases", fmt.Sprintf("totals|%d|%d", ng, round))
		check := func(name string, got, want int64) {
			if got != want {
				a.Rec.Viol("C10/metrics/"+name, "when the goroutines have finished, the metrics totals equal the true values",
					fmt.Sprintf("%s = %d, true value %d (%d goroutines x %d tokenizations)", name, got, want, ng, perG), map[string]interface{}{"goroutines": ng, "round": round})
			}
		}
		check("operations", st.TokenizeOperations, wantOps)
		check("errors", st.TokenizeErrors, wantErr)
		check("bytes", st.TotalBytesProcessed, wantBytes)
		check("min", st.MinQuerySize, wantMin)
		check("max", st.MaxQuerySize, wantMax)
		var sumByType int64
		for _, v := range st.ErrorsByType {
			sumByType += v
		}
		check("errors-by-type-sum", sumByType, wantErr)
	}
	// lost-update rounds on the extremes
	rounds := 30000
	if !a.Quick() {
		rounds = 1000000
	}
	const K = 8
	var barrier int32
	var gen_ int32
	var done sync.WaitGroup
	sizes := make([]int64, K)
	stop := int32(0)
	var lostMin, lostMax int64
	work := make([]chan struct{}, K)
	for g := 0; g < K; g++ {
		work[g] = make(chan struct{})
	}
	for g := 0; g < K; g++ {
		go func(g int) {
			for range work[g] {
				// spin barrier
				atomic.AddInt32(&barrier, 1)
				for atomic.LoadInt32(&barrier) < K && atomic.LoadInt32(&stop) == 0 {
				}
				metrics.RecordTokenization(0, int(sizes[g]), nil)
				done.Done()
			}
		}(g)
	}
	_ = gen_
	r := rand.New(rand.NewSource(a.Seed + 99))
	for round := 0; round < rounds; round++ {
		metrics.Reset()
		metrics.Enable()
		perm := r.Perm(K)
		min, max := int64(1<<62), int64(0)
		for g := 0; g < K; g++ {
			sizes[g] = int64(100 + perm[g]*10 + round%7)
			if sizes[g] < min {
				min = sizes[g]
			}
			if sizes[g] > max {
				max = sizes[g]
			}
		}
		atomic.StoreInt32(&barrier, 0)
		done.Add(K)
		for g := 0; g < K; g++ {
			work[g] <- struct{}{}
		}
		done.Wait()
		st := metrics.GetStats()
		if st.MinQuerySize != min {
			lostMin++
		}
		if st.MaxQuerySize != max {
			lostMax++
		}
	}
	atomic.StoreInt32(&stop, 1)
	for g := 0; g < K; g++ {
		close(work[g])
	}
	a.Rec.Count("evaluations", int64(rounds))
	a.Rec.Count("lost_update_rounds", int64(rounds))
	a.Rec.Count("lost_min", lostMin)
	a.Rec.Count("lost_max", lostMax)
	if lostMin > 0 {
		a.Rec.Viol("C10/metrics/min-lost-update", "smallest query equals the true value", fmt.Sprintf("%d of %d barrier rounds ended with a wrong minimum", lostMin, rounds), map[string]interface{}{"rounds": rounds, "goroutines": K})
	}
	if lostMax > 0 {
		a.Rec.Viol("C10/metrics/max-lost-update", "largest query equals the true value", fmt.Sprintf("%d of %d barrier rounds ended with a wrong maximum", lostMax, rounds), map[string]interface{}{"rounds": rounds, "goroutines": K})
	}
	a.Rec.Sample("metrics", 1, map[string]interface{}{"lost_update_rounds": rounds, "goroutines_per_round": K})
	_ = runtime.NumCPU
}

// ---------- snapshots (porcupine) ----------

type ctrIn struct {
	Counter string
	Add     int64 // 0 for a read
	Read    bool
}

func c10Snapshots(a *ChildArgs) {
	model := porcupine.Model{
		Partition: func(history []porcupine.Operation) [][]porcupine.Operation {
			m := map[string][]porcupine.Operation{}
			for _, op := range history {
				k := op.Input.(ctrIn).Counter
				m[k] = append(m[k], op)
			}
			var keys []string
			for k := range m {
				keys = append(keys, k)
			}
			sort.Strings(keys)
			var out [][]porcupine.Operation
			for _, k := range keys {
				out = append(out, m[k])
			}
			return out
		},
		Init: func() interface{} { return int64(0) },
		Step: func(state, input, output interface{}) (bool, interface{}) {
			in := input.(ctrIn)
			st := state.(int64)
			if in.Read {
				return output.(int64) == st, st
			}
			return true, st + in.Add
		},
		DescribeOperation: func(input, output interface{}) string {
			in := input.(ctrIn)
			if in.Read {
				return fmt.Sprintf("read(%s)=%d", in.Counter, output.(int64))
			}
			return fmt.Sprintf("add(%s,%d)", in.Counter, in.Add)
		},
	}
	histories := 400
	if !a.Quick() {
		histories = 8000
	}
	var clock int64
	for h := 0; h < histories; h++ {
		metrics.Reset()
		metrics.Enable()
		var mu sync.Mutex
		var ops []porcupine.Operation
		var wg sync.WaitGroup
		ng := 2 + h%5
		start := make(chan struct{})
		for g := 0; g < ng; g++ {
			wg.Add(1)
			go func(g int) {
				defer wg.Done()
				r := rand.New(rand.NewSource(a.Seed*13 + int64(h)*101 + int64(g)))
				<-start
				for k := 0; k < 6; k++ {
					if r.Intn(3) == 0 {
						t0 := atomic.AddInt64(&clock, 1)
						st := metrics.GetStats()
						t1 := atomic.AddInt64(&clock, 1)
						mu.Lock()
						ops = append(ops, porcupine.Operation{ClientId: g, Input: ctrIn{Counter: "bytes", Read: true}, Call: t0, Output: st.TotalBytesProcessed, Return: t1},
							porcupine.Operation{ClientId: g, Input: ctrIn{Counter: "ops", Read: true}, Call: t0, Output: st.TokenizeOperations, Return: t1},
							porcupine.Operation{ClientId: g, Input: ctrIn{Counter: "errors", Read: true}, Call: t0, Output: st.TokenizeErrors, Return: t1})
						mu.Unlock()
					} else {
						size := 10 + r.Intn(90)
						var err error
						if r.Intn(4) == 0 {
							err = fmt.Errorf("e")
						}
						t0 := atomic.AddInt64(&clock, 1)
						metrics.RecordTokenization(0, size, err)
						t1 := atomic.AddInt64(&clock, 1)
						mu.Lock()
						ops = append(ops, porcupine.Operation{ClientId: g, Input: ctrIn{Counter: "bytes", Add: int64(size)}, Call: t0, Output: int64(0), Return: t1},
							porcupine.Operation{ClientId: g, Input: ctrIn{Counter: "ops", Add: 1}, Call: t0, Output: int64(0), Return: t1})
						if err != nil {
							ops = append(ops, porcupine.Operation{ClientId: g, Input: ctrIn{Counter: "errors", Add: 1}, Call: t0, Output: int64(0), Return: t1})
						}
						mu.Unlock()
					}
				}
			}(g)
		}
		close(start)
		wg.Wait()
		a.Rec.Count("evaluations", 1)
		a.Rec.Count("history_operations", int64(len(ops)))
		a.Rec.Distinct("cases", fmt.Sprintf("history|%d|%d", ng, h))
		res := porcupine.CheckOperationsTimeout(model, ops, 10*time.Second)
		switch res {
		case porcupine.Illegal:
			a.Rec.Viol("C10/metrics/snapshot-not-linearizable", "a snapshot is explained by some linearisation of the recordings", fmt.Sprintf("history %d (%d goroutines, %d operations) is not linearizable", h, ng, len(ops)), map[string]interface{}{"goroutines": ng, "operations": len(ops)})
		case porcupine.Unknown:
			a.Rec.Inconclusive("C10/snapshots", "porcupine timed out on a history")
		}
	}
	a.Rec.Sample("snapshots", 1, map[string]interface{}{"histories": histories, "model": "per-counter: add(d) / read()"})
}

func c10Child(a *ChildArgs) {
	switch a.Phase {
	case "mix":
		c10Mix(a)
	case "metrics":
		c10Metrics(a)
	case "snapshots":
		c10Snapshots(a)
	case "dialects-cold":
		c10DialectsCold(a)
	}
}

// c10DialectsCold starts concurrently from a cold process: no sequential pass has touched the per-dialect state of the
// library before the goroutines do, each round with a dialect order of its own; the sequential reference is computed
// afterwards. (A warm-up pass would initialise lazily built per-dialect tables and hide unsynchronised initialisation.)
func c10DialectsCold(a *ChildArgs) {
	dialects := []keywords.SQLDialect{keywords.DialectMySQL, keywords.DialectPostgreSQL, keywords.DialectSQLite, keywords.DialectSQLServer, keywords.DialectOracle, keywords.DialectGeneric,
		keywords.DialectSnowflake, keywords.DialectBigQuery, keywords.DialectRedshift}
	inputs := []string{"SELECT a FROM t LIMIT 1, 2", "SELECT a FROM t WHERE b = 1", "SELECT `q` FROM t", "SELECT TOP 5 a FROM t", "SELECT a FROM t FETCH FIRST 3 ROWS ONLY", "SELECT FROM"}
	type res struct {
		d   keywords.SQLDialect
		in  int
		out string
	}
	call := func(d keywords.SQLDialect, sql string) string {
		t, err := parser.ParseWithDialect(sql, d)
		out := errDigest(err) + "|" + errDigest(parser.ValidateWithDialect(sql, d))
		tk, terr := tokenizer.NewWithDialect(d)
		if terr == nil {
			toks, e := tk.Tokenize([]byte(sql))
			out += "|" + fmt.Sprint(len(toks)) + errDigest(e)
			tk.SetDialect(d)
		}
		if t != nil {
			out += "|" + dump.Dump(t)
		}
		return out
	}
	workers := 16
	var wg sync.WaitGroup
	results := make([][]res, workers)
	start := make(chan struct{})
	for w := 0; w < workers; w++ {
		wg.Add(1)
		go func(w int) {
			defer wg.Done()
			<-start
			for k := 0; k < len(dialects)*len(inputs); k++ {
				d := dialects[(k+w)%len(dialects)]
				in := (k/len(dialects) + w) % len(inputs)
				results[w] = append(results[w], res{d, in, call(d, inputs[in])})
			}
		}(w)
	}
	close(start)
	wg.Wait()
	ref := map[string]string{}
	for _, d := range dialects {
		for i, in := range inputs {
			ref[string(d)+"|"+fmt.Sprint(i)] = call(d, in)
		}
	}
	for w := range results {
		for _, r := range results[w] {
			a.Rec.Count("evaluations", 1)
			a.Rec.Distinct("cases", fmt.Sprintf("dialects-cold/%s/%d", r.d, r.in))
			if want := ref[string(r.d)+"|"+fmt.Sprint(r.in)]; r.out != want {
				a.Rec.Viol("C10/result/dialect-cold/"+string(r.d), "every call returns exactly what it returns when run alone", fmt.Sprintf("dialect %s input %q under %d goroutines from a cold start: got %s want %s", r.d, inputs[r.in], workers, trunc(r.out, 200), trunc(want, 200)), map[string]interface{}{"dialect": r.d, "input": inputs[r.in]})
			}
		}
	}
}
