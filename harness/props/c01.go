package props

import (
	"encoding/json"
	"fmt"
	"math/rand"
	"os"
	"runtime/debug"
	"strings"
	"sync/atomic"
	"syscall"
	"time"

	"github.com/ajitpratap0/GoSQLX/pkg/models"
	"github.com/ajitpratap0/GoSQLX/pkg/sql/parser"
	"github.com/ajitpratap0/GoSQLX/pkg/sql/token"
	"github.com/ajitpratap0/GoSQLX/pkg/sql/tokenizer"
	"verifharness/gen"
	"verifharness/mon"
)

func init() {
	Registry["C01"] = &Prop{Level: "exploration", Parent: c01Parent, Child: c01Child}
}

const c01CPUBudget = 60 * time.Second // per (input, entry point) call; inputs of the text phases are <= 64 KiB

func c01Parent(c *mon.Ctx) {
	c.Rule = "inputs: every model statement truncated after every token; corpus files under token/byte mutators; repetition families (NOT, '(', comments, lists, UNION chains, signs, CASE, casts, brackets, ...) at sizes up to 64 KiB; cheap shapes at the size limit; for the low-level parser, token sequences no tokenizer run produces (nil, empty, no EOF, EOF in the middle, zero-Type tokens, truncations and single-token mutations of real converted streams). Every input goes through every public entry point (27 text entry points incl. all dialects, strict mode, formatters, extractors, scanners, linter with fixes; 8 token entry points). Each input is logged and flushed before the calls; panics are recovered at the call boundary; process deaths (fatal errors) are attributed by the parent from the log and stderr and the child is restarted after the fatal input; a call consuming more than 60 s CPU, or more parser cursor advances than 4*tokens+64 (verif hook), is a hang. distinct_nontrivial = distinct inputs"
	c.DistinctSet = "inputs"
	c.Assumptions = []string{"gosqlx.MustParse is documented to panic and is excluded", "which error is returned is not judged here (C13)", "inputs above 64 KiB are limited to shapes whose cost is linear (the rest of the range is C20's subject)"}
	nText, nTok := 14, 2
	phases := []struct {
		name string
		n    int
	}{{"trunc", nText}, {"mutants", nText}, {"families", 4}, {"tokens", nTok}, {"big", 1}}
	var wg chan struct{} = make(chan struct{}, 16)
	done := make(chan bool)
	total := 0
	for _, ph := range phases {
		for sh := 0; sh < ph.n; sh++ {
			total++
			go func(phase string, sh, n int) {
				wg <- struct{}{}
				c01RunShard(c, phase, sh, n)
				<-wg
				done <- true
			}(ph.name, sh, ph.n)
		}
	}
	for i := 0; i < total; i++ {
		<-done
	}
}

// c01RunShard runs one shard, restarting the child after each fatal input.
func c01RunShard(c *mon.Ctx, phase string, sh, n int) { runShardWithRestart(c, "C01", phase, sh, n) }

// runShardWithRestart runs one shard whose child takes -n <skip>; after an abnormal end the death is attributed to the last
// logged input and the child is restarted after it.
func runShardWithRestart(c *mon.Ctx, prop, phase string, sh, n int) {
	skip := 0
	for attempt := 0; attempt < 25; attempt++ {
		s := mon.Shard{Variant: "plain", Phase: phase, Name: fmt.Sprintf("%s-%03d-a%02d", phase, sh, attempt), Timeout: 25 * time.Minute,
			Args: []string{"-shard", fmt.Sprint(sh), "-nshards", fmt.Sprint(n), "-n", fmt.Sprint(skip)}}
		res := c.RunShards([]mon.Shard{s}, 1)
		if len(res) == 0 {
			return
		}
		r := res[0]
		if r.Ended && r.ExitCode == 0 {
			return
		}
		if r.TimedOut {
			c.AddInc(fmt.Sprintf("watchdog fired on %s shard %d (last input seq %v)", phase, sh, seqOf(r)))
			return
		}
		// abnormal end: attribute to the last logged input
		banner := mon.DeathBanner(r.Stderr)
		frame := mon.TopLibFrame(r.Stderr)
		last := ""
		var wit json.RawMessage
		if r.LastBegin != nil {
			last = r.LastBegin.EP
			wit, _ = json.Marshal(map[string]interface{}{"case": r.LastBegin.EP, "input": string(r.LastBegin.In), "phase": phase})
		}
		hang := strings.Contains(r.Stderr, "VERIF-HANG")
		id := fmt.Sprintf("%s/death/%s@%s/%s", prop, shortBanner(banner, r), frame, caseFamily(last))
		clause := "the process is never killed by a runtime fatal error"
		if hang {
			id = fmt.Sprintf("%s/hang/%s/%s", prop, hangEP(r.Stderr), caseFamily(last))
			clause = "the call completes"
		}
		c.AddViol(mon.Viol{ID: id, Clause: clause, Detail: fmt.Sprintf("child died (exit=%d signal=%q) banner=%q on input %s\n%s", r.ExitCode, r.Signal, banner, last, tailStr(r.Stderr, 1200)), Witness: wit, Phase: phase})
		if r.LastBegin == nil {
			return
		}
		skip = int(r.LastBegin.Seq) + 1
	}
	c.AddInc(fmt.Sprintf("%s shard %d: more than 25 fatal inputs, remaining inputs not run", phase, sh))
}

func seqOf(r mon.ShardResult) interface{} {
	if r.LastBegin != nil {
		return r.LastBegin.Seq
	}
	return "none"
}

func tailStr(s string, n int) string {
	if len(s) > n {
		return s[len(s)-n:]
	}
	return s
}

func shortBanner(b string, r mon.ShardResult) string {
	if b == "" {
		if r.Signal != "" {
			return "signal " + r.Signal
		}
		return fmt.Sprintf("exit %d", r.ExitCode)
	}
	b = quotedRe.ReplaceAllString(b, "_")
	if len(b) > 60 {
		b = b[:60]
	}
	return b
}

func hangEP(stderr string) string {
	i := strings.Index(stderr, "VERIF-HANG ep=")
	if i < 0 {
		return "?"
	}
	s := stderr[i+len("VERIF-HANG ep="):]
	if j := strings.IndexAny(s, " \n"); j > 0 {
		s = s[:j]
	}
	return s
}

// caseFamily reduces a case id like "family/NOT/n=4096" or "trunc/seed=12/k=7" to its family.
func caseFamily(id string) string {
	parts := strings.Split(id, "/")
	if len(parts) >= 2 && (parts[0] == "family" || parts[0] == "tokens" || parts[0] == "big") {
		return parts[0] + "/" + parts[1]
	}
	return parts[0]
}

// ---------- child ----------

type c01Case struct {
	ID   string
	Text func() string
	Toks func() []token.Token
	Pre  string // text every entry point is given first (same pooled instances): the call on Text must survive whatever that left behind
}

var (
	c01CurEP    atomic.Value
	c01CallSeq  int64
	c01Adv      int64
	c01AdvLimit int64
)

type stepBudgetExceeded struct{ adv, limit int64 }

func cpuNow() time.Duration {
	var ru syscall.Rusage
	syscall.Getrusage(syscall.RUSAGE_SELF, &ru)
	return time.Duration(ru.Utime.Sec)*time.Second + time.Duration(ru.Utime.Usec)*time.Microsecond
}

func c01Child(a *ChildArgs) {
	debug.SetMaxStack(32 << 20)
	parser.VerifAdvanceHook = func(pos, ntokens, depth int) {
		c01Adv++
		if c01AdvLimit > 0 && c01Adv > c01AdvLimit {
			panic(stepBudgetExceeded{c01Adv, c01AdvLimit})
		}
	}
	// CPU watchdog: a call that burns more than the budget is declared a hang and the process exits
	go func() {
		var lastSeq int64 = -1
		var startCPU time.Duration
		for {
			time.Sleep(500 * time.Millisecond)
			seq := atomic.LoadInt64(&c01CallSeq)
			now := cpuNow()
			if seq != lastSeq {
				lastSeq, startCPU = seq, now
				continue
			}
			if now-startCPU > c01CPUBudget {
				ep, _ := c01CurEP.Load().(string)
				fmt.Fprintf(os.Stderr, "VERIF-HANG ep=%s cpu=%s\n", strings.ReplaceAll(ep, " ", "_"), now-startCPU)
				os.Exit(7)
			}
		}
	}()
	cases := c01Cases(a)
	skip := a.N
	textEPs := TextEntryPoints()
	tokEPs := TokenEntryPoints()
	for i, cs := range cases {
		if i%a.NShards != a.Shard || i/a.NShards < skip {
			continue
		}
		seq := int64(i / a.NShards)
		if cs.Text != nil {
			in := cs.Text()
			a.Rec.Begin(seq, cs.ID, []byte(in))
			a.Rec.Distinct("inputs", in)
			ntok := int64(len(in))/1 + 64
			for _, ep := range textEPs {
				if cs.Pre != "" {
					pre := cs.Pre
					c01Call(a, cs.ID, ep.Name, pre, 4*int64(len(pre))+2064, func() { ep.F(pre) })
				}
				c01Call(a, cs.ID, ep.Name, in, 4*ntok+2064, func() { ep.F(in) })
			}
		} else {
			toks := cs.Toks()
			b, _ := json.Marshal(toks)
			a.Rec.Begin(seq, cs.ID, b)
			a.Rec.Distinct("inputs", string(b))
			for _, ep := range tokEPs {
				// each call gets its own copy: the parser may keep the slice
				cp := append([]token.Token(nil), toks...)
				if toks == nil {
					cp = nil
				}
				c01Call(a, cs.ID, ep.Name, string(b), int64(4*len(toks)+2064), func() { ep.F(cp) })
			}
		}
		if i < 40 && i%13 == 0 {
			a.Rec.Sample(a.Phase, 2, map[string]string{"case": cs.ID})
		}
	}
}

func c01Call(a *ChildArgs, caseID, ep, input string, advLimit int64, f func()) {
	a.Rec.Count("evaluations", 1)
	atomic.AddInt64(&c01CallSeq, 1)
	c01CurEP.Store(ep + " " + caseFamily(caseID))
	c01Adv, c01AdvLimit = 0, advLimit
	t0 := cpuNow()
	defer func() {
		c01AdvLimit = 0
		if r := recover(); r != nil {
			wit := map[string]interface{}{"case": caseID, "entry_point": ep, "input": trunc(input, 600)}
			if sb, ok := r.(stepBudgetExceeded); ok {
				a.Rec.Viol("C01/step-budget/"+ep+"/"+caseFamily(caseID), "the call completes (bounded progress per token)", fmt.Sprintf("%d parser cursor advances, budget %d", sb.adv, sb.limit), wit)
				return
			}
			stack := string(debug.Stack())
			frame := mon.TopLibFrame(stack[strings.Index(stack, "panic("):])
			a.Rec.Viol("C01/panic/"+frame, "no panic escapes", fmt.Sprintf("panic in %s: %v\n%s", ep, r, trunc(stack, 1500)), wit)
		}
		if d := cpuNow() - t0; d > 5*time.Second {
			a.Rec.Max("slowest_call_cpu_ms", int64(d/time.Millisecond))
		}
	}()
	f()
}

func repeat(s string, n int) string { return strings.Repeat(s, n) }

type family = Family

// Family is a repetition family of inputs.
type Family struct {
	Name string
	F    func(n int) string // n = number of repetitions
}

func c01Families() []family {
	return []family{
		{"NOT", func(n int) string { return "SELECT a FROM t WHERE " + repeat("NOT ", n) + "a" }},
		{"paren", func(n int) string { return "SELECT " + repeat("(", n) + "1" + repeat(")", n) }},
		{"paren-open", func(n int) string { return "SELECT " + repeat("(", n) }},
		{"paren-close", func(n int) string { return "SELECT 1" + repeat(")", n) }},
		{"line-comments", func(n int) string { return repeat("-- c\n", n) + "SELECT 1" }},
		{"block-comments", func(n int) string { return repeat("/**/", n) + "SELECT 1" }},
		{"block-open", func(n int) string { return "SELECT 1 " + repeat("/*", n) }},
		{"list", func(n int) string { return "SELECT " + repeat("a, ", n) + "a FROM t" }},
		{"union", func(n int) string { return "SELECT 1" + repeat(" UNION SELECT 1", n) }},
		{"sign", func(n int) string { return "SELECT " + repeat("- ", n) + "1" }},
		{"case", func(n int) string { return "SELECT " + repeat("CASE WHEN a THEN ", n) + "1" + repeat(" END", n) }},
		{"cast-chain", func(n int) string { return "SELECT a" + repeat("::int", n) }},
		{"subscript", func(n int) string { return "SELECT a" + repeat("[1]", n) }},
		{"bracket-open", func(n int) string { return "SELECT a" + repeat("[", n) }},
		{"derived", func(n int) string { return "SELECT * FROM " + repeat("(SELECT * FROM ", n) + "t" + repeat(") x", n) }},
		{"in-subquery", func(n int) string { return "SELECT 1 WHERE a IN " + repeat("(SELECT a FROM t WHERE a IN ", n) + "(1)" + repeat(")", n) }},
		{"func-nest", func(n int) string { return "SELECT " + repeat("f(", n) + "1" + repeat(")", n) }},
		{"and-chain", func(n int) string { return "SELECT a FROM t WHERE a = 1" + repeat(" AND a = 1", n) }},
		{"concat-chain", func(n int) string { return "SELECT 'a'" + repeat(" || 'a'", n) }},
		{"semicolons", func(n int) string { return repeat(";", n) + "SELECT 1" + repeat(";", n) }},
		{"statements", func(n int) string { return repeat("SELECT 1;", n) }},
		{"quotes", func(n int) string { return "SELECT " + repeat("'", n) }},
		{"dollar", func(n int) string { return "SELECT " + repeat("$", n) }},
		{"dots", func(n int) string { return "SELECT a" + repeat(".a", n) }},
		{"joins", func(n int) string { return "SELECT * FROM t" + repeat(" JOIN t ON 1=1", n) }},
		{"ctes", func(n int) string { return "WITH c AS (SELECT 1)" + repeat(", c AS (SELECT 1)", n) + " SELECT 1" }},
		{"cte-nest", func(n int) string { return repeat("WITH c AS (", n) + "SELECT 1" + repeat(") SELECT 1", n) }},
		{"values-rows", func(n int) string { return "INSERT INTO t VALUES (1)" + repeat(", (1)", n) }},
		{"when-arms", func(n int) string { return "SELECT CASE" + repeat(" WHEN a THEN 1", n) + " END" }},
		{"columns", func(n int) string { return "CREATE TABLE t (a INT" + repeat(", a INT", n) + ")" }},
		{"interval", func(n int) string { return "SELECT " + repeat("INTERVAL 3 ", n) }},
		{"array-nest", func(n int) string { return "SELECT " + repeat("ARRAY[", n) + "1" + repeat("]", n) }},
		{"between-nest", func(n int) string { return "SELECT 1 WHERE a BETWEEN " + repeat("(1 BETWEEN 2 AND ", n) + "3" + repeat(")", n) + " AND 4" }},
		{"exists-nest", func(n int) string { return "SELECT 1 WHERE " + repeat("EXISTS (SELECT 1 WHERE ", n) + "1=1" + repeat(")", n) }},
		{"nul-bytes", func(n int) string { return "SELECT " + repeat("\x00", n) }},
		{"bad-utf8", func(n int) string { return "SELECT " + repeat("\xff\xfe", n) }},
		{"unicode-ident", func(n int) string { return "SELECT " + repeat("é", n) + " FROM t" }},
		{"backslashes", func(n int) string { return "SELECT '" + repeat("\\\\", n) + "'" }},
		{"tabs-crlf", func(n int) string { return "SELECT 1" + repeat("\t\r\n", n) }},
	}
}

func convertedTokens(sql string) []token.Token {
	_, toks, err := parser.ParseBytesWithTokens([]byte(sql))
	if err != nil {
		return nil
	}
	return toks
}

func c01Cases(a *ChildArgs) []c01Case {
	var cs []c01Case
	quick := a.Quick()
	avoid := mon.AvoidFeatures()
	switch a.Phase {
	case "trunc":
		n := 90
		if !quick {
			n = 3000
		}
		for s := 0; s < n; s++ {
			seed := a.Seed*7919 + int64(s)*15485863
			g := gen.New(rand.New(rand.NewSource(seed)), avoid)
			x := g.Statement(3)
			for k := 1; k <= len(x.Toks); k++ {
				k, toks := k, x.Toks
				cs = append(cs, c01Case{ID: fmt.Sprintf("trunc/seed=%d/k=%d", seed, k), Text: func() string { return gen.Plain(toks[:k]) }})
			}
		}
	case "mutants":
		files := CorpusFiles()
		per := 12
		if !quick {
			per = 300
		}
		for fi, f := range files {
			f := f
			cs = append(cs, c01Case{ID: "corpus/" + f.Name, Text: func() string { return f.SQL }})
			for m := 0; m < per; m++ {
				seed := a.Seed*31 + int64(fi)*1009 + int64(m)
				cs = append(cs, c01Case{ID: fmt.Sprintf("corpus-mutant/%s/%d", f.Name, seed), Text: func() string { return byteMutate(rand.New(rand.NewSource(seed)), f.SQL) }})
			}
		}
	case "families":
		// a small exhaustive grid the random generator rarely hits: every pair of literal kinds under every comparison,
		// in the positions consumers look at (WHERE, OR chain, JOIN ON, sub-query, CASE, HAVING, function argument)
		lits := []string{"1", "0", "1.5", "'x'", "''", "NULL", "TRUE", "FALSE", "$1", "-1", "(1)", "'1'", "X'ff'", "INTERVAL '1 day'", "ARRAY[1]", "(SELECT 1)"}
		cmps := []string{"=", "<>", "<", ">=", "IS NOT DISTINCT FROM", "LIKE", "IN"}
		ctxs := []string{"SELECT a FROM t WHERE %s", "SELECT a FROM t WHERE a = 1 OR %s", "SELECT a FROM t JOIN u ON %s", "SELECT a FROM t WHERE a IN (SELECT b FROM u WHERE %s)",
			"SELECT CASE WHEN %s THEN 1 END FROM t", "SELECT a FROM t GROUP BY a HAVING %s", "SELECT f(%s) FROM t", "UPDATE t SET a = 1 WHERE %s", "DELETE FROM t WHERE NOT (%s)"}
		for li, l1 := range lits {
			for ri, l2 := range lits {
				for ci, cmp := range cmps {
					ctx := ctxs[(li+ri+ci)%len(ctxs)]
					l1, l2, cmp := l1, l2, cmp
					if cmp == "IN" {
						l2 = "(" + l2 + ", " + l1 + ")"
					}
					cs = append(cs, c01Case{ID: fmt.Sprintf("litpair/%d-%d-%d", li, ri, ci), Text: func() string { return fmt.Sprintf(ctx, l1+" "+cmp+" "+l2) }})
				}
			}
		}
		// pairs of calls on the same pooled instances: a short or oddly laid-out text right after an ordinary one
		for pi, pre := range []string{"SELECT 1", "SELECT\t1,\t2\t/* tabs */", "\t\t\tSELECT a FROM t", "SELECT a /* c */ FROM t -- x", "SELECT 'abc", "SELECT a FROM t WHERE a = 1 AND b = 2 ORDER BY c", "SELECT 1;\nSELECT 2;\nSELECT 3"} {
			for ti, text := range []string{"      ", " ", "\t", "\t\t\t\t", "    SELECT 1", strings.Repeat(" ", 20) + "x", strings.Repeat(" ", 30) + "/* c */", "", ";", "\n", "  \n  ", strings.Repeat(" ", 12) + "'x", "-- c", "      -- c"} {
				pre, text := pre, text
				cs = append(cs, c01Case{ID: fmt.Sprintf("after/%d/%d", pi, ti), Pre: pre, Text: func() string { return text }})
			}
		}
		// ... and statements made of the node kinds the parser draws from its pools (subscripts, slices, tuples, array
		// constructors), right after a call that released a tree holding such nodes inside each other
		for pi, pre := range []string{"SELECT a[b[1]:c[2]] FROM t", "SELECT a[(1, 2)[1]:ARRAY[3][1]] FROM t", "SELECT ARRAY[a[1:2], b[3]], (c[1], d[2:3]) FROM t", "SELECT x[y[z[1]]] FROM t; SELECT FROM"} {
			for ti, text := range []string{"SELECT m[1][2] FROM t", "SELECT m[1:2][3], (a, b) FROM t", "SELECT ARRAY[ARRAY[1, 2], ARRAY[3]] FROM t", "SELECT (a, (b, c)) IN ((1, (2, 3))) FROM t", "SELECT a[1][2][3][4] FROM t WHERE b[1:2][1] = ARRAY[1][1]"} {
				pre, text := pre, text
				cs = append(cs, c01Case{ID: fmt.Sprintf("afterpool/%d/%d", pi, ti), Pre: pre, Text: func() string { return text }})
			}
		}
		sizes := []int{1, 2, 3, 50, 99, 100, 101, 150, 1000, 4000}
		if !quick {
			sizes = append(sizes, 9000, 16000)
		}
		for _, fam := range c01Families() {
			for _, n := range sizes {
				fam, n := fam, n
				cs = append(cs, c01Case{ID: fmt.Sprintf("family/%s/n=%d", fam.Name, n), Text: func() string {
					s := fam.F(n)
					if len(s) > 64<<10 {
						s = fam.F(n * (64 << 10) / len(s))
					}
					return s
				}})
			}
		}
	case "big":
		sz := tokenizer.MaxInputSize
		cs = append(cs,
			c01Case{ID: "big/blanks", Text: func() string { return "SELECT 1" + strings.Repeat(" ", sz-8) }},
			c01Case{ID: "big/one-string", Text: func() string { return "SELECT '" + strings.Repeat("x", sz-9) + "'" }},
			c01Case{ID: "big/one-identifier", Text: func() string { return "SELECT " + strings.Repeat("x", sz-7) }},
			c01Case{ID: "big/over-limit", Text: func() string { return strings.Repeat(" ", sz+1) }},
			c01Case{ID: "big/one-comment", Text: func() string { return "SELECT 1 /*" + strings.Repeat("c", sz-14) + "*/" }},
		)
	case "tokens":
		eof := token.Token{Type: models.TokenTypeEOF}
		base := []string{"SELECT a, b FROM t WHERE a = 1 AND b IN (1, 2) ORDER BY a", "INSERT INTO t (a) VALUES (1), (2) ON CONFLICT (a) DO NOTHING RETURNING a",
			"WITH c AS (SELECT 1) SELECT CASE WHEN a THEN 1 ELSE 2 END, f(x) OVER (PARTITION BY y) FROM c JOIN d ON c.a = d.a UNION SELECT 3, 4",
			"UPDATE t SET a = 1 WHERE b = 2", "DELETE FROM t WHERE a BETWEEN 1 AND 2", "MERGE INTO t USING s ON t.a = s.a WHEN MATCHED THEN UPDATE SET a = 1 WHEN NOT MATCHED THEN INSERT (a) VALUES (1)",
			"CREATE TABLE t (a INT PRIMARY KEY, b TEXT DEFAULT 'x', CONSTRAINT c CHECK (a > 0))", "SELECT a[1:2], ARRAY[1,2], x::int, INTERVAL '1 day' FROM t FETCH FIRST 5 ROWS ONLY FOR UPDATE",
			"SHOW TABLES", "DESCRIBE t", "ALTER TABLE t ADD COLUMN c INT", "DROP TABLE IF EXISTS t CASCADE", "TRUNCATE TABLE t", "CREATE INDEX i ON t (a)", "REFRESH MATERIALIZED VIEW v", "CREATE VIEW v AS SELECT 1"}
		cs = append(cs, c01Case{ID: "tokens/nil", Toks: func() []token.Token { return nil }},
			c01Case{ID: "tokens/empty", Toks: func() []token.Token { return []token.Token{} }},
			c01Case{ID: "tokens/only-eof", Toks: func() []token.Token { return []token.Token{eof} }},
			c01Case{ID: "tokens/zero-token", Toks: func() []token.Token { return []token.Token{{}} }},
			c01Case{ID: "tokens/zero-tokens", Toks: func() []token.Token { return []token.Token{{}, {}, {}} }})
		for bi, b := range base {
			bi, b := bi, b
			full := convertedTokens(b)
			if full == nil {
				continue
			}
			noEOF := full
			if n := len(full); n > 0 && full[n-1].Type == models.TokenTypeEOF {
				noEOF = full[:n-1]
			}
			for k := 0; k <= len(noEOF); k++ {
				k := k
				cs = append(cs, c01Case{ID: fmt.Sprintf("tokens/no-eof-prefix/%d/k=%d", bi, k), Toks: func() []token.Token { return append([]token.Token(nil), noEOF[:k]...) }})
				cs = append(cs, c01Case{ID: fmt.Sprintf("tokens/eof-in-middle/%d/k=%d", bi, k), Toks: func() []token.Token {
					out := append([]token.Token(nil), noEOF[:k]...)
					out = append(out, eof)
					return append(out, noEOF[k:]...)
				}})
				cs = append(cs, c01Case{ID: fmt.Sprintf("tokens/typeless/%d/k=%d", bi, k), Toks: func() []token.Token {
					out := append([]token.Token(nil), full...)
					if k < len(out) {
						out[k].Type = 0
					}
					return out
				}})
				cs = append(cs, c01Case{ID: fmt.Sprintf("tokens/delete/%d/k=%d", bi, k), Toks: func() []token.Token {
					out := append([]token.Token(nil), full[:k]...)
					if k+1 <= len(full) {
						out = append(out, full[min(k+1, len(full)):]...)
					}
					return out
				}})
				cs = append(cs, c01Case{ID: fmt.Sprintf("tokens/dup/%d/k=%d", bi, k), Toks: func() []token.Token {
					out := append([]token.Token(nil), full[:min(k+1, len(full))]...)
					return append(out, full[k:]...)
				}})
			}
		}
		// deep repetition at token level (no tokenizer cost): sizes beyond what text inputs reach
		// every corpus file as a converted stream without its EOF, cut after every token (and with one zero-Type
		// token appended): statement kinds the fixed list above does not contain (table options, MATCH ... AGAINST,
		// dialect statements) reach the low-level parser this way
		for ci, cf := range CorpusFiles() {
			ci := ci
			full := convertedTokens(cf.SQL)
			if full == nil {
				continue
			}
			noEOF := full
			if n := len(full); n > 0 && full[n-1].Type == models.TokenTypeEOF {
				noEOF = full[:n-1]
			}
			step := 1
			if quick && len(noEOF) > 120 {
				step = len(noEOF)/120 + 1
			}
			for k := 1; k <= len(noEOF); k += step {
				k := k
				cs = append(cs, c01Case{ID: fmt.Sprintf("tokens/corpus-no-eof-prefix/%d/k=%d", ci, k), Toks: func() []token.Token { return append([]token.Token(nil), noEOF[:k]...) }})
			}
		}
		for _, n := range []int{1000, 30000, 150000, 900000} {
			n := n
			if quick && n > 150000 {
				continue
			}
			cheap := n <= 30000 // constructs whose cost is linear in n even when accepted
			rep := func(name string, pre []token.Token, unit []token.Token, post []token.Token) {
				cs = append(cs, c01Case{ID: fmt.Sprintf("tokens/deep-%s/n=%d", name, n), Toks: func() []token.Token {
					out := append([]token.Token(nil), pre...)
					for i := 0; i < n; i++ {
						out = append(out, unit...)
					}
					out = append(out, post...)
					return append(out, eof)
				}})
			}
			sel := token.Token{Type: models.TokenTypeSelect, Literal: "SELECT"}
			one := token.Token{Type: models.TokenTypeNumber, Literal: "1"}
			rep("not", []token.Token{sel}, []token.Token{{Type: models.TokenTypeNot, Literal: "NOT"}}, []token.Token{one})
			rep("lparen", []token.Token{sel}, []token.Token{{Type: models.TokenTypeLParen, Literal: "("}}, []token.Token{one})
			rep("minus", []token.Token{sel}, []token.Token{{Type: models.TokenTypeMinus, Literal: "-"}}, []token.Token{one})
			rep("derived", []token.Token{sel, {Type: models.TokenTypeAsterisk, Literal: "*"}, {Type: models.TokenTypeFrom, Literal: "FROM"}},
				[]token.Token{{Type: models.TokenTypeLParen, Literal: "("}, sel, {Type: models.TokenTypeAsterisk, Literal: "*"}, {Type: models.TokenTypeFrom, Literal: "FROM"}}, []token.Token{{Type: models.TokenTypeIdentifier, Literal: "t"}})
			if !cheap {
				continue // the remaining constructs build trees of n nodes: kept at sizes whose consumers stay within the CPU budget
			}
			rep("with", nil, []token.Token{{Type: models.TokenTypeWith, Literal: "WITH"}, {Type: models.TokenTypeIdentifier, Literal: "c"}, {Type: models.TokenTypeAs, Literal: "AS"}, {Type: models.TokenTypeLParen, Literal: "("}}, []token.Token{sel, one})
			rep("case", []token.Token{sel}, []token.Token{{Type: models.TokenTypeCase, Literal: "CASE"}, {Type: models.TokenTypeWhen, Literal: "WHEN"}}, []token.Token{one})
			rep("lbracket", []token.Token{sel, {Type: models.TokenTypeIdentifier, Literal: "a"}}, []token.Token{{Type: models.TokenTypeLBracket, Literal: "["}}, []token.Token{one})
			rep("union", []token.Token{sel, one}, []token.Token{{Type: models.TokenTypeUnion, Literal: "UNION"}, sel, one}, nil)
		}
	}
	return cs
}

func min(a, b int) int {
	if a < b {
		return a
	}
	return b
}

func byteMutate(r *rand.Rand, s string) string {
	if len(s) == 0 {
		return s
	}
	b := []byte(s)
	nm := 1 + r.Intn(3)
	for i := 0; i < nm; i++ {
		if len(b) == 0 {
			break
		}
		k := r.Intn(len(b))
		switch r.Intn(9) {
		case 0:
			b = b[:k]
		case 1:
			b = append(b[:k], b[min(k+1+r.Intn(5), len(b)):]...)
		case 2:
			b[k] = []byte{0, 0xff, '\'', '"', '`', '(', ')', '[', ']', ';', '\\', '$', '-', '/', '*', '\n', '\r', 0x80, 0xc3}[r.Intn(19)]
		case 3:
			ins := []string{"'", "\"", "/*", "*/", "--", "((", "))", "\\", "$$", "$t$", "NOT ", "SELECT ", " UNION ", "::", "[", "]", "\x00", "\xe2\x80\x98", "INTERVAL 3", "CASE ", " END", ";"}[r.Intn(22)]
			b = append(b[:k], append([]byte(ins), b[k:]...)...)
		case 4:
			j := r.Intn(len(b))
			b[k], b[j] = b[j], b[k]
		case 5:
			// duplicate a span
			j := min(k+1+r.Intn(20), len(b))
			b = append(b[:j], append(append([]byte(nil), b[k:j]...), b[j:]...)...)
		case 6:
			b = b[k:]
		case 7:
			// swap case
			if b[k] >= 'a' && b[k] <= 'z' {
				b[k] -= 32
			} else if b[k] >= 'A' && b[k] <= 'Z' {
				b[k] += 32
			}
		case 8:
			b = append(b[:k], append([]byte(" "), b[k:]...)...)
		}
	}
	return string(b)
}

// C01FamiliesExported exposes the repetition families (developer tooling).
func C01FamiliesExported() []family { return c01Families() }
