package props

import (
	"bufio"
	"bytes"
	"fmt"
	"github.com/ajitpratap0/GoSQLX/pkg/formatter"
	"math"
	"os"
	"os/exec"
	"path/filepath"
	"runtime"
	"strconv"
	"strings"
	"time"

	"github.com/ajitpratap0/GoSQLX/pkg/gosqlx"
	"github.com/ajitpratap0/GoSQLX/pkg/linter"
	textsec "github.com/ajitpratap0/GoSQLX/pkg/security"
	"github.com/ajitpratap0/GoSQLX/pkg/sql/ast"
	"github.com/ajitpratap0/GoSQLX/pkg/sql/parser"
	"github.com/ajitpratap0/GoSQLX/pkg/sql/security"
	"github.com/ajitpratap0/GoSQLX/pkg/sql/tokenizer"
	"verifharness/mon"
)

func init() {
	Registry["C20"] = &Prop{Level: "exploration", Parent: c20Parent, Child: c20Child}
}

func c20Parent(c *mon.Ctx) {
	c.Rule = "for each input family (parameter n) x entry point, the call is measured on a geometric ladder n, 2n, 4n, ... in a binary built with -cover -covermode=atomic: work = sum over library basic blocks of (execution count x statements), read from the coverage counters (deterministic for a single-goroutine call), and bytes allocated (MemStats.TotalAlloc delta). The ladder climbs until a rung costs more than the CPU allowance or the input reaches the size cap; the growth factor per doubling on the top two rungs must be <= 2.6 for both measures (n log n gives <= 2.2, quadratic gives 4). distinct_nontrivial = distinct (family, entry point, n) measurements"
	c.DistinctSet = "measurements"
	c.Assumptions = []string{"constants are free, only growth is judged", "CPU seconds are recorded as evidence only", "a family whose ladder has fewer than 3 rungs is inconclusive"}
	sh := shards("cover", "measure", 16)
	covdir := filepath.Join(c.RunDir, "gocoverdir")
	os.MkdirAll(covdir, 0o755)
	for i := range sh {
		sh[i].Timeout = 40 * time.Minute
		sh[i].Env = []string{"GOCOVERDIR=" + covdir} // where the runtime writes its at-exit dump (not used)
	}
	res := c.RunShards(sh, 16)
	c.ClassifyDeaths(res, "measured calls return")
	os.RemoveAll(covdir)
}

type costFamily struct {
	Name string
	Gen  func(n int) string
	Base int // first rung
}

func c20Families() []costFamily {
	rep := strings.Repeat
	nest := "(" + rep("(", 88) + "1" + rep(")", 88) + ")"
	return []costFamily{
		{"list-one-line", func(n int) string { return "SELECT " + rep("a, ", n) + "a FROM t" }, 1000},
		{"list-per-line", func(n int) string { return "SELECT " + rep("a,\n", n) + "a FROM t" }, 1000},
		{"line-comments", func(n int) string { return rep("-- c\n", n) + "SELECT 1" }, 1000},
		{"block-comments-one-line", func(n int) string { return rep("/* c */ ", n) + "SELECT 1" }, 1000},
		{"trailing-comments", func(n int) string { return "SELECT " + rep("a, -- c\n", n) + "a FROM t" }, 1000},
		{"one-string", func(n int) string { return "SELECT '" + rep("x", n*8) + "'" }, 1000},
		{"blank-lines", func(n int) string { return "SELECT 1" + rep("\n", n*8) }, 1000},
		{"call-args", func(n int) string { return "SELECT f(" + rep("a, ", n) + "a) FROM t" }, 1000},
		{"chain-plus", func(n int) string { return "SELECT a" + rep(" + a", n) + " FROM t" }, 500},
		{"chain-and", func(n int) string { return "SELECT a FROM t WHERE a = 1" + rep(" AND a = 1", n) }, 500},
		{"chain-or", func(n int) string { return "SELECT a FROM t WHERE a = 1" + rep(" OR a = 1", n) }, 500},
		{"chain-concat", func(n int) string { return "SELECT 'a'" + rep(" || 'a'", n) }, 500},
		{"chain-cast", func(n int) string { return "SELECT a" + rep("::int", n) }, 500},
		{"chain-subscript", func(n int) string { return "SELECT a" + rep("[1]", n) }, 500},
		{"union", func(n int) string { return "SELECT 1" + rep(" UNION SELECT 1", n) }, 500},
		{"statements", func(n int) string { return rep("SELECT a FROM t WHERE a = 1;\n", n) }, 500},
		{"values-rows", func(n int) string { return "INSERT INTO t VALUES (1, 'x')" + rep(", (1, 'x')", n) }, 500},
		{"ctes", func(n int) string { return "WITH c0 AS (SELECT 1)" + rep(", c AS (SELECT 1)", n) + " SELECT 1" }, 500},
		{"joins", func(n int) string { return "SELECT * FROM t" + rep(" JOIN t ON a = b", n) }, 500},
		{"when-arms", func(n int) string { return "SELECT CASE" + rep(" WHEN a THEN 1", n) + " END" }, 500},
		{"create-columns", func(n int) string { return "CREATE TABLE t (a INT" + rep(", a INT NOT NULL", n) + ")" }, 500},
		{"in-list", func(n int) string { return "SELECT a FROM t WHERE a IN (1" + rep(", 1", n) + ")" }, 1000},
		{"nest90-terms", func(n int) string { return "SELECT " + nest + rep(" + "+nest, n) }, 20},
		{"group-by-list", func(n int) string { return "SELECT a FROM t GROUP BY a" + rep(", a", n) }, 1000},
		{"order-by-list", func(n int) string { return "SELECT a FROM t ORDER BY a" + rep(", a DESC", n) }, 1000},
		{"update-set", func(n int) string { return "UPDATE t SET a = 1" + rep(", a = 1", n) }, 500},
		{"dollar-tags", func(n int) string { return "SELECT 1 " + rep("$t$ ", n) }, 500},
		{"dollar-tags-distinct", func(n int) string {
			var sb strings.Builder
			sb.WriteString("SELECT 1")
			for i := 0; i < n; i++ {
				sb.WriteString(" $t")
				sb.WriteString(strconv.Itoa(i))
				sb.WriteString("$")
			}
			return sb.String()
		}, 1000},
		{"dollar-quoted-bodies", func(n int) string { return "SELECT " + rep("$q$ body $q$, ", n) + "1" }, 500},
		{"string-escapes", func(n int) string { return "SELECT '" + rep("it''s \\n ", n) + "'" }, 1000},
		{"quoted-idents", func(n int) string { return "SELECT " + rep("\"a\", ", n) + "\"a\" FROM t" }, 1000},
		// combinations of two dimensions (added after the second and third rounds of seeded changes)
		{"dollar-string-per-line", func(n int) string { return rep("SELECT $$x$$ , a;\n", n) }, 500},
		{"comments-on-one-long-line", func(n int) string { return "SELECT 1" + rep(" /*c*/ + 1", n) }, 500},
		{"compound-opener-then-comment", func(n int) string { return "SELECT " + rep("LEFT /*c*/ x ", n) }, 500},
		{"blanks-then-comments", func(n int) string { return "SELECT 1\n" + rep("    ", n) + rep("/**/", n) }, 500},
		{"blanks-code-then-comments", func(n int) string { return "SELECT 1\n" + rep("    ", n) + "x " + rep("/**/", n) }, 500},
		{"opener-calls-one-line", func(n int) string { return "SELECT " + rep("LEFT(a,1), ", n) + "1 FROM t" }, 500},
		{"opener-words-one-line", func(n int) string { return "SELECT " + rep("natural, full, ", n) + "1 FROM t" }, 500},
		{"dollar-words-one-line", func(n int) string { return "SELECT 1 " + rep("$abc ", n) }, 500},
		{"long-dollar-tag", func(n int) string { tag := "$" + rep("t", n) + "$"; return "SELECT " + tag + rep(" $", n) + " " + tag }, 500},
		{"qualified-name-parts", func(n int) string { return "SELECT * FROM a" + rep(".a", n) }, 500},
		{"chain-slice", func(n int) string { return "SELECT a" + rep("[1:2]", n) + " FROM t" }, 500},
		{"chain-json-cast", func(n int) string { return "SELECT a" + rep("->'b'::int", n) + " FROM t" }, 300},
		{"or-tautologies", func(n int) string { return "SELECT a FROM t WHERE c = 0" + rep(" OR 1 = 1", n) }, 500},
		{"tautology-statements", func(n int) string { return rep("SELECT * FROM t WHERE a = 1 OR 1=1;\n", n) }, 500},
		{"match-against-nest", func(n int) string { return "SELECT " + rep("MATCH(a) AGAINST (", n) + "'x'" + rep(")", n) + " FROM t" }, 200},
		{"setop-alternating", func(n int) string {
			return "SELECT 1" + rep(" UNION SELECT 1 EXCEPT SELECT 1 UNION ALL SELECT 1 INTERSECT SELECT 1", n)
		}, 200},
		// one malformed statement with a long tail of parenthesised sub-queries before its terminator (what recovery has
		// to skip), and well-formed statements with many comments behind code (what the formatters have to place)
		{"broken-then-subqueries", func(n int) string {
			return "SELECT a FROM t WHERE a = = 1" + rep(" OR a IN (SELECT 1)", n) + " ; SELECT 2"
		}, 300},
		{"broken-then-nested-parens", func(n int) string {
			return "SELECT a FROM t WHERE ] " + rep("(", 40) + rep(" (WITH c AS (SELECT 1) SELECT 2) ,", n) + " 1" + rep(")", 40) + " ; SELECT 2"
		}, 300},
		{"long-name-many-joins", func(n int) string { return "SELECT * FROM " + rep("t", 8*n) + rep(" CROSS JOIN b", n) }, 200},
		{"inline-comments-per-item", func(n int) string { return "SELECT " + rep("c /*x*/, ", n) + "c FROM t" }, 500},
		{"inline-line-comments-per-item", func(n int) string { return "SELECT " + rep("c, -- x\n", n) + "c FROM t -- end" }, 500},
		{"many-ctes", func(n int) string {
			var sb strings.Builder
			sb.WriteString("WITH c0 AS (SELECT 1)")
			for i := 1; i <= n; i++ {
				sb.WriteString(", c")
				sb.WriteString(strconv.Itoa(i))
				sb.WriteString(" AS (SELECT 1)")
			}
			sb.WriteString(" SELECT * FROM c0")
			return sb.String()
		}, 300},
		{"many-distinct-columns", func(n int) string {
			var sb strings.Builder
			sb.WriteString("CREATE TABLE t (c0 INT")
			for i := 1; i <= n; i++ {
				sb.WriteString(", c")
				sb.WriteString(strconv.Itoa(i))
				sb.WriteString(" INT")
			}
			sb.WriteString(")")
			return sb.String()
		}, 500},
		{"many-distinct-aliases", func(n int) string {
			var sb strings.Builder
			sb.WriteString("SELECT a AS x0")
			for i := 1; i <= n; i++ {
				sb.WriteString(", a AS x")
				sb.WriteString(strconv.Itoa(i))
			}
			sb.WriteString(" FROM t")
			return sb.String()
		}, 500},
		{"open-comment-blank-lines", func(n int) string { return "SELECT 1 /*" + rep("\n", 4*n) }, 500},
		{"open-string-blank-lines", func(n int) string { return "SELECT 'a" + rep("\n  \n", 2*n) }, 500},
		{"many-blank-lines-at-end", func(n int) string { return "SELECT 1" + rep("\n", 4*n) }, 500},
		{"cast-type-params", func(n int) string { return "SELECT CAST(x AS DECIMAL(1" + rep(",1", n) + ")) FROM t" }, 500},
		{"match-mode-words", func(n int) string { return "SELECT MATCH(a) AGAINST ('x'" + rep(" w", n) + ") FROM t" }, 500},
		{"sign-chain-not", func(n int) string { return "SELECT a FROM t WHERE a = 1" + rep(" AND NOT a = 1", n) }, 500},
	}
}

type costEP struct {
	Name string
	// Prep runs outside the measured region (e.g. parsing for tree consumers); Run is measured.
	Prep func(sql string) (interface{}, bool)
	Run  func(sql string, prepared interface{})
}

func c20EPs() []costEP {
	parse := func(sql string) (interface{}, bool) {
		a, err := gosqlx.Parse(sql)
		return a, err == nil
	}
	none := func(sql string) (interface{}, bool) { return nil, true }
	return []costEP{
		{"Tokenize", none, func(s string, _ interface{}) {
			tk := tokenizer.GetTokenizer()
			_, _ = tk.Tokenize([]byte(s))
			tokenizer.PutTokenizer(tk)
		}},
		{"Parse", none, func(s string, _ interface{}) { _, _ = gosqlx.Parse(s) }},
		{"parser.Validate", none, func(s string, _ interface{}) { _ = parser.Validate(s) }},
		{"ParseWithRecovery", none, func(s string, _ interface{}) { _, _ = gosqlx.ParseWithRecovery(s) }},
		{"AST.SQL", parse, func(s string, p interface{}) { _ = p.(*ast.AST).SQL() }},
		{"AST.Format", parse, func(s string, p interface{}) {
			_ = p.(*ast.AST).Format(ast.FormatOptions{IndentWidth: 2, NewlinePerClause: true, KeywordCase: ast.KeywordUpper})
		}},
		{"formatter.Format", none, func(s string, _ interface{}) { _, _ = formatter.New(formatter.Options{}).Format(s) }}, // the formatter that carries comments
		{"ExtractTables", parse, func(s string, p interface{}) { _ = gosqlx.ExtractTables(p.(*ast.AST)) }},
		{"ExtractColumns", parse, func(s string, p interface{}) { _ = gosqlx.ExtractColumns(p.(*ast.AST)) }},
		{"ExtractFunctions", parse, func(s string, p interface{}) { _ = gosqlx.ExtractFunctions(p.(*ast.AST)) }},
		{"ast.Inspect", parse, func(s string, p interface{}) { ast.Inspect(p.(*ast.AST), func(ast.Node) bool { return true }) }},
		{"Scanner.Scan", parse, func(s string, p interface{}) { _ = security.NewScanner().Scan(p.(*ast.AST)) }},
		{"Scanner.ScanSQL", none, func(s string, _ interface{}) { _ = security.NewScanner().ScanSQL(s) }},
		{"textsecurity.Scan", none, func(s string, _ interface{}) { _ = textsec.NewScanner().Scan(s) }},
		{"linter.LintString", none, func(s string, _ interface{}) { _ = linter.New(AllRules()...).LintString(s, "f.sql") }},
		{"linter.Fix-chain", none, func(s string, _ interface{}) {
			// the text rewriters, in the order the CLI applies them
			for _, r := range AllRules() {
				if r.CanAutoFix() {
					if out, err := r.Fix(s, nil); err == nil {
						s = out
					}
				}
			}
		}},
	}
}

// coverSteps converts a coverage dump directory to the work measure.
func coverSteps(dir string) (int64, error) {
	cmd := exec.Command("go", "tool", "covdata", "textfmt", "-i="+dir, "-o=/dev/stdout")
	cmd.Env = mon.Env()
	out, err := cmd.Output()
	if err != nil {
		return 0, fmt.Errorf("covdata: %v", err)
	}
	var steps int64
	sc := bufio.NewScanner(bytes.NewReader(out))
	sc.Buffer(make([]byte, 1<<20), 1<<26)
	for sc.Scan() {
		ln := sc.Text()
		if !strings.HasPrefix(ln, "github.com/ajitpratap0/GoSQLX/") {
			continue
		}
		f := strings.Fields(ln)
		if len(f) != 3 {
			continue
		}
		ns, _ := strconv.ParseInt(f[1], 10, 64)
		cnt, _ := strconv.ParseInt(f[2], 10, 64)
		steps += ns * cnt
	}
	return steps, nil
}

type rung struct {
	N     int
	Bytes int
	Steps int64
	Alloc int64
	CPU   time.Duration
}

func c20Measure(a *ChildArgs, fam costFamily, ep costEP, scratch string) {
	maxBytes := 2 << 20
	cpuCap := 4 * time.Second
	maxRungs := 6
	if !a.Quick() {
		maxBytes = tokenizer.MaxInputSize - 1024
		cpuCap = 25 * time.Second
		maxRungs = 12
	}
	var rungs []rung
	n := fam.Base
	for len(rungs) < maxRungs {
		sql := fam.Gen(n)
		if len(sql) > maxBytes {
			break
		}
		prep, ok := ep.Prep(sql)
		if !ok {
			a.Rec.Count("not_applicable_pairs", 1)
			return // the family is rejected by the parser: this entry point has nothing to measure
		}
		// warm up once so that lazily initialised tables are not billed to the first rung
		if len(rungs) == 0 {
			ep.Run(fam.Gen(fam.Base/2+1), func() interface{} { p, _ := ep.Prep(fam.Gen(fam.Base/2 + 1)); return p }())
		}
		runtime.GC()
		var m0, m1 runtime.MemStats
		runtime.ReadMemStats(&m0)
		if !coverReset() {
			a.Rec.Inconclusive("C20", "coverage counters unavailable (binary not built with -cover -covermode=atomic)")
			return
		}
		t0 := cpuNow()
		ep.Run(sql, prep)
		cpu := cpuNow() - t0
		runtime.ReadMemStats(&m1)
		dir := filepath.Join(scratch, fmt.Sprintf("cov-%d", len(rungs)))
		os.RemoveAll(dir)
		if err := coverDump(dir); err != nil {
			a.Rec.Inconclusive("C20", "cannot dump coverage counters: "+err.Error())
			return
		}
		steps, err := coverSteps(dir)
		os.RemoveAll(dir)
		if err != nil {
			a.Rec.Inconclusive("C20", err.Error())
			return
		}
		rungs = append(rungs, rung{N: n, Bytes: len(sql), Steps: steps, Alloc: int64(m1.TotalAlloc - m0.TotalAlloc), CPU: cpu})
		a.Rec.Count("evaluations", 1)
		a.Rec.Distinct("measurements", fmt.Sprintf("%s|%s|%d", fam.Name, ep.Name, n))
		if cpu > cpuCap {
			break
		}
		n *= 2
	}
	id := fam.Name + "/" + ep.Name
	if len(rungs) < 3 {
		a.Rec.Inconclusive("C20/"+id, fmt.Sprintf("ladder has only %d rungs", len(rungs)))
		return
	}
	// growth per doubling: geometric mean over the top two doublings, so that a one-off step (a slice that
	// happens to double its capacity on the last rung) is not mistaken for super-linear growth
	top, prev, prev2 := rungs[len(rungs)-1], rungs[len(rungs)-2], rungs[len(rungs)-3]
	ratioSteps := math.Sqrt(float64(top.Steps) / float64(max64(prev2.Steps, 1)))
	ratioAlloc := math.Sqrt(float64(top.Alloc) / float64(max64(prev2.Alloc, 1)))
	_ = prev
	desc := describeLadder(rungs)
	a.Rec.Max("ratio_steps_x100", int64(ratioSteps*100))
	wit := map[string]interface{}{"family": fam.Name, "entry_point": ep.Name, "ladder": desc, "sample_input": trunc(fam.Gen(3), 120)}
	if ratioSteps > 2.6 && top.Steps > 200000 {
		a.Rec.Viol("C20/"+id+"/steps", "doubling an input roughly doubles the cost",
			fmt.Sprintf("executed statements grow x%.2f per doubling (geometric mean of the top two doublings): %s", ratioSteps, desc), wit)
	}
	if ratioAlloc > 2.6 && top.Alloc > 4<<20 {
		a.Rec.Viol("C20/"+id+"/alloc", "doubling an input roughly doubles the cost",
			fmt.Sprintf("allocated bytes grow x%.2f per doubling (geometric mean of the top two doublings): %s", ratioAlloc, desc), wit)
	}
	// CPU time is a supplementary, coarser measure for work done inside the standard library (which the library's
	// coverage counters do not see): only a sustained growth of >= x3.2 per doubling over two doublings, with at
	// least 0.5 s on the top rung, is reported.
	if top.CPU >= 500*time.Millisecond && prev2.CPU > 0 {
		ratioCPU := math.Sqrt(float64(top.CPU) / float64(prev2.CPU))
		a.Rec.Max("ratio_cpu_x100", int64(ratioCPU*100))
		if ratioCPU > 3.2 && ratioSteps <= 2.6 && ratioAlloc <= 2.6 {
			a.Rec.Viol("C20/"+id+"/cpu", "doubling an input roughly doubles the cost",
				fmt.Sprintf("CPU time grows x%.2f per doubling (geometric mean of the top two doublings) although executed library statements and allocations grow linearly: %s", ratioCPU, desc), wit)
		}
	}
	if fam.Name == "chain-plus" || fam.Name == "line-comments" {
		a.Rec.Sample("ladder", 4, wit)
	}
}

func max64(a, b int64) int64 {
	if a > b {
		return a
	}
	return b
}

func describeLadder(rs []rung) string {
	var parts []string
	for _, r := range rs {
		parts = append(parts, fmt.Sprintf("n=%d(%dB): steps=%d alloc=%d cpu=%s", r.N, r.Bytes, r.Steps, r.Alloc, r.CPU.Round(time.Millisecond)))
	}
	return strings.Join(parts, "; ")
}

func c20Child(a *ChildArgs) {
	scratch, err := os.MkdirTemp("", "vh-c20-")
	if err != nil {
		a.Rec.Inconclusive("C20", "no scratch dir")
		return
	}
	defer os.RemoveAll(scratch)
	i := 0
	for _, fam := range c20Families() {
		for _, ep := range c20EPs() {
			i++
			if i%a.NShards != a.Shard {
				continue
			}
			a.Rec.Begin(int64(i), fam.Name+"/"+ep.Name, nil)
			c20Measure(a, fam, ep, scratch)
		}
	}
}
