package props

import (
	"context"
	"errors"
	"fmt"
	"github.com/ajitpratap0/GoSQLX/pkg/sql/ast"
	"github.com/ajitpratap0/GoSQLX/pkg/sql/parser"
	"math/rand"
	"regexp"
	"strings"
	"time"

	goerrors "github.com/ajitpratap0/GoSQLX/pkg/errors"
	"github.com/ajitpratap0/GoSQLX/pkg/gosqlx"
	"verifharness/dump"
	"verifharness/gen"
	"verifharness/mon"
)

func init() {
	Registry["C03"] = &Prop{Level: "exploration", Parent: c03Parent, Child: c03Child}
}

func c03Parent(c *mon.Ctx) {
	c.Rule = "bounded-exhaustive catalogue (operator pairs x nesting shapes x parenthesisation, unary/predicate forms, SELECT clause subsets, join kinds, frame bounds, statement kinds) plus seeded random model statements; each model is rendered with minimal / full / random tree-preserving parentheses and several layouts, parsed with gosqlx.Parse and compared with the model tree in neutral form. distinct_nontrivial = distinct model trees (non-trivial: at least one operator, clause or modifier beyond SELECT col FROM t)"
	c.DistinctSet = "models"
	c.Assumptions = []string{"the model grammar is the documented surface (docs/SQL_COMPATIBILITY.md, pkg/gosqlx doc comment)", "representation idioms of the library AST are encoded in harness/gen builders", "composed layer avoids features listed under 'avoid' of open known findings; those features are exercised by catalogue cases"}
	n := 16
	per := 1500
	if c.Tier == "thorough" {
		per = 40000
	}
	sh := shards("plain", "random", n, "-n", fmt.Sprint(per))
	sh = append(sh, shards("plain", "catalogue", 1)...)
	res := c.RunShards(sh, 16)
	c.ClassifyDeaths(res, "no statement of the surface crashes the parser")
}

// parseCode extracts the structured error code and a normalised message.
var quotedRe = regexp.MustCompile(`'[^']*'|"[^"]*"|\d+`)

func errIdentity(err error) string {
	var ge *goerrors.Error
	if errors.As(err, &ge) {
		msg := ge.Message
		msg = quotedRe.ReplaceAllString(msg, "_")
		if len(msg) > 70 {
			msg = msg[:70]
		}
		return string(ge.Code) + ":" + msg
	}
	msg := quotedRe.ReplaceAllString(err.Error(), "_")
	if len(msg) > 70 {
		msg = msg[:70]
	}
	return "unstructured:" + msg
}

type c03Case struct {
	ID    string
	SQL   string
	Want  *dump.T
	Feats []string
}

// c03Check parses sql and compares it with want. Returns (identity, clause, detail) or "".
func c03Check(sql string, want *dump.T) (string, string, string) {
	a, err := gosqlx.Parse(sql)
	if err != nil {
		return "reject/" + errIdentity(err), "a statement of the documented surface is never rejected", "error: " + firstLine(err.Error())
	}
	got := dump.Tree(a)
	if d := dump.Diff(want, got); d != "" {
		return "tree" + dump.DiffKey(d), "the returned tree is the one the grammar prescribes", d
	}
	return "", "", ""
}

type c03Door struct {
	Name string
	F    func(sql string) (*ast.AST, error)
}

// c03OtherDoors are further entry points a statement of the documented surface comes in by.
func c03OtherDoors() []c03Door {
	strict := func(ctx bool) func(string) (*ast.AST, error) {
		return func(sql string) (*ast.AST, error) {
			toks, err := mustTokenizer().Tokenize([]byte(sql + " ;"))
			if err != nil {
				return nil, err
			}
			p := parser.NewParser(parser.WithStrictMode())
			if ctx {
				return p.ParseContextFromModelTokens(context.Background(), toks)
			}
			return p.ParseFromModelTokens(toks)
		}
	}
	return []c03Door{
		{"gosqlx.ParseWithContext", func(sql string) (*ast.AST, error) { return gosqlx.ParseWithContext(context.Background(), sql) }},
		{"strict:Parser.Parse", strict(false)},
		{"strict:Parser.ParseContext", strict(true)},
	}
}

func firstLine(s string) string {
	if i := strings.IndexByte(s, '\n'); i >= 0 {
		return s[:i]
	}
	return s
}

func c03Child(a *ChildArgs) {
	switch a.Phase {
	case "catalogue":
		c03Catalogue(a)
	case "random":
		c03Random(a)
	}
}

func c03Random(a *ChildArgs) {
	avoid := mon.AvoidFeatures()
	n := a.N
	base := a.Seed*7919 + int64(a.Shard)*104729
	for i := 0; i < n; i++ {
		seed := base + int64(i)*15485863
		var wantStr string
		for pol := 0; pol < 3; pol++ {
			g := gen.New(rand.New(rand.NewSource(seed)), avoid)
			g.ParenPol = pol
			x := g.Statement(3)
			want := gen.AST(x)
			if pol == 0 {
				wantStr = want.String()
				a.Rec.Distinct("models", wantStr)
				if nontrivial(wantStr) {
					a.Rec.Count("nontrivial", 1)
				}
			} else if want.String() != wantStr {
				a.Rec.Inconclusive("harness", "model differs between paren policies (generator bug) seed="+fmt.Sprint(seed))
				break
			}
			lay := gen.Layout{R: rand.New(rand.NewSource(seed + int64(pol)))}
			if pol > 0 {
				lay.KwCase = (i + pol) % 3
				lay.Sep = (i/3 + pol) % 4
			}
			sql := gen.Render(x.Toks, lay)
			a.Rec.Count("evaluations", 1)
			if id, clause, detail := c03Check(sql, want); id != "" {
				a.Rec.Viol("C03/composed/"+id, clause, detail, map[string]interface{}{"sql": sql, "want": wantStr, "seed": seed, "pol": pol, "features": gen.Keys(g.Feat)})
			} else if pol == 0 {
				// the same statement through the context entry point, and with its terminator through a strict parser's
				// plain and context entry points: the documented surface does not depend on the door
				for _, ep := range c03OtherDoors() {
					a.Rec.Count("evaluations", 1)
					tree, err := ep.F(sql)
					if err != nil {
						a.Rec.Viol("C03/composed/"+ep.Name+"/reject/"+errIdentity(err), "a statement of the documented surface is never rejected", ep.Name+": "+firstLine(err.Error()), map[string]interface{}{"sql": sql, "entry_point": ep.Name, "seed": seed})
					} else if d := dump.Diff(want, dump.Tree(tree)); d != "" {
						a.Rec.Viol("C03/composed/"+ep.Name+"/tree"+dump.DiffKey(d), "the returned tree is the one the grammar prescribes", ep.Name+": "+d, map[string]interface{}{"sql": sql, "entry_point": ep.Name, "seed": seed})
					}
				}
			} else if i < 3 && pol == 2 {
				a.Rec.Sample("random", 3, map[string]string{"sql": sql, "model": trunc(wantStr, 400)})
			}
		}
	}
	_ = time.Now
}

func trunc(s string, n int) string {
	if len(s) > n {
		return s[:n] + "…"
	}
	return s
}

func nontrivial(model string) bool {
	return strings.Count(model, "(") > 6
}

func starT(tbl string) *dump.T { return dump.N("Identifier", "Name", "*", "Table", tbl) }

// c03Catalogue runs every catalogue case under the three parenthesisation policies and four layouts.
func c03Catalogue(a *ChildArgs) {
	cases := C03Catalogue()
	for _, cc := range cases {
		var wantStr string
		failed := false
		for pol := 0; pol < 3 && !failed; pol++ {
			for lay := 0; lay < 2 && !failed; lay++ {
				g := gen.New(rand.New(rand.NewSource(42)), nil)
				g.PR = rand.New(rand.NewSource(int64(mon.Hash(cc.ID)%1000) + int64(lay)))
				g.ParenPol = pol
				x := cc.Build(g)
				want := gen.AST(x)
				if wantStr == "" {
					wantStr = want.String()
					a.Rec.Distinct("models", wantStr)
					if nontrivial(wantStr) {
						a.Rec.Count("nontrivial", 1)
					}
				}
				l := gen.Layout{R: rand.New(rand.NewSource(int64(pol*2 + lay))), KwCase: (pol + lay) % 3, Sep: lay * (1 + pol)}
				sql := gen.Render(x.Toks, l)
				a.Rec.Count("evaluations", 1)
				a.Rec.Count("catalogue_evaluations", 1)
				if id, clause, detail := c03Check(sql, want); id != "" {
					// identity: the catalogue ID and the failing clause kind (reject / tree); layouts and paren policies share it
					kind := "tree"
					if strings.HasPrefix(id, "reject/") {
						kind = "reject"
					}
					a.Rec.Viol(cc.ID+"#"+kind, clause, detail, map[string]interface{}{"sql": sql, "want": wantStr, "id": cc.ID, "pol": pol, "sub": id})
					failed = true
				}
			}
		}
		if !failed {
			a.Rec.Count("catalogue_pass", 1)
		}
		a.Rec.Count("catalogue_cases", 1)
	}
	c03RowCounts(a)
	c03Boundaries(a)
	g := gen.New(rand.New(rand.NewSource(1)), nil)
	x := cases[len(cases)/2].Build(g)
	a.Rec.Sample("catalogue", 2, map[string]string{"id": cases[len(cases)/2].ID, "sql": gen.Plain(x.Toks)})
}

// c03RowCounts: "every literal appears in the tree with its written value" for the counts of LIMIT / OFFSET /
// FETCH, which the tree stores as machine integers: a count is either carried exactly or the statement is
// refused; a tree with another number in it is a violation.
func c03RowCounts(a *ChildArgs) {
	lits := []string{"0", "1", "2147483647", "2147483648", "4294967297", "9007199254740993", "9223372036854775807",
		"9223372036854775808", "18446744073709551616", "99999999999999999999", "1.5", "1e3", "0.0", "007"}
	forms := []struct{ name, pre, suf, field string }{
		{"limit", "SELECT a FROM t LIMIT ", "", "Limit"},
		{"offset", "SELECT a FROM t LIMIT 5 OFFSET ", "", "Offset"},
		{"offset-rows", "SELECT a FROM t ORDER BY a OFFSET ", " ROWS", "Offset"},
		{"fetch", "SELECT a FROM t ORDER BY a FETCH FIRST ", " ROWS ONLY", "FetchValue"},
	}
	for _, f := range forms {
		for _, lit := range lits {
			sql := f.pre + lit + f.suf
			a.Rec.Count("evaluations", 1)
			a.Rec.Count("row_count_cases", 1)
			tree, err := gosqlx.Parse(sql)
			if err != nil {
				a.Rec.Count("row_count_refused", 1)
				continue
			}
			dumped := dump.Tree(tree).String()
			// the written value as the integer it denotes (leading zeros are not a different number)
			want := strings.TrimLeft(lit, "0")
			if want == "" {
				want = "0"
			}
			if !strings.Contains(dumped, f.field+"=&"+want+")") && !strings.Contains(dumped, f.field+"=&"+want+" ") {
				a.Rec.Viol("C03/row-count/"+f.name+"/"+lit+"#value", "every literal appears in the tree with its written value",
					fmt.Sprintf("%s is accepted and the tree does not carry %s=%s: %s", sql, f.field, lit, trunc(dumped, 300)), map[string]interface{}{"sql": sql, "tree": dumped})
			}
		}
	}
}

// c03Boundaries: statements in which one clause ends exactly where an optional clause of the enclosing statement
// begins with the same keyword (WITH, RETURNING ...). They are written by hand, with the fields the tree must carry.
func c03Boundaries(a *ChildArgs) {
	for _, b := range []struct {
		sql  string
		want []string
	}{
		{"CREATE VIEW v AS SELECT a, COUNT(*) FROM t GROUP BY a WITH CHECK OPTION", []string{`WithOption="CHECK OPTION"`, "GroupBy="}},
		{"CREATE VIEW v AS SELECT a FROM t GROUP BY a, b WITH CASCADED CHECK OPTION", []string{`WithOption="CASCADED CHECK OPTION"`}},
		{"CREATE VIEW v AS SELECT a FROM t GROUP BY a WITH LOCAL CHECK OPTION", []string{`WithOption="LOCAL CHECK OPTION"`}},
		{"CREATE MATERIALIZED VIEW v AS SELECT a FROM t GROUP BY a WITH NO DATA", []string{"WithData=&false"}},
		{"CREATE MATERIALIZED VIEW v AS SELECT a FROM t GROUP BY a WITH DATA", []string{"WithData=&true"}},
		{"CREATE VIEW v AS SELECT a FROM t ORDER BY a WITH CHECK OPTION", []string{`WithOption="CHECK OPTION"`}},
		{"SELECT a FROM t GROUP BY a WITH ROLLUP", []string{"GroupBy="}},
		{"SELECT a FROM t GROUP BY a WITH CUBE", []string{"GroupBy="}},
		{"INSERT INTO t (a) SELECT b FROM u RETURNING a", []string{"Returning=", `(TableReference Name="u")`}},
		{"INSERT INTO t (a) SELECT b FROM u, w RETURNING a, b", []string{"Returning=", `(TableReference Name="w")`}},
		{"INSERT INTO t SELECT b FROM u NATURAL JOIN v RETURNING a", []string{"Returning="}},
		{"INSERT INTO t SELECT b FROM u CROSS JOIN v RETURNING *", []string{"Returning="}},
		{"INSERT INTO t SELECT b FROM u AS x RETURNING a", []string{"Returning=", `Alias="x"`}},
		{"WITH d AS (DELETE FROM u WHERE a = 1 RETURNING b) SELECT b FROM d", []string{"Returning="}},
		{"SELECT MODE() WITHIN GROUP (ORDER BY salary) FROM emp", []string{"WithinGroup=", `Name="salary"`}},
		{"SELECT COUNT(*) FILTER (WHERE a > 1), f() FILTER (WHERE b) FROM t", []string{"Filter="}},
		{"SELECT a FROM t UNION SELECT b FROM u EXCEPT SELECT c FROM v UNION ALL SELECT d FROM w", []string{`Operator="EXCEPT"`, "All=true"}},
	} {
		for v, sql := range []string{b.sql, strings.ToLower(b.sql), strings.ReplaceAll(b.sql, " ", "\n  ")} {
			a.Rec.Count("evaluations", 1)
			a.Rec.Count("boundary_cases", 1)
			tree, err := gosqlx.Parse(sql)
			if err != nil {
				a.Rec.Viol("C03/boundary/"+b.sql+"#reject", "a statement of the documented surface is never rejected", "error: "+firstLine(err.Error()), map[string]interface{}{"sql": sql})
				break
			}
			if v > 0 {
				continue // the field spellings below are those of the upper-case text
			}
			dumped := dump.Tree(tree).String()
			for _, w := range b.want {
				if !strings.Contains(dumped, w) {
					a.Rec.Viol("C03/boundary/"+b.sql+"#tree", "the returned tree is the one the grammar prescribes", "the tree does not carry "+w+": "+trunc(dumped, 400), map[string]interface{}{"sql": sql})
					break
				}
			}
		}
	}
}
