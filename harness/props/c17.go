package props

import (
	"fmt"
	"math/rand"
	"sort"
	"strings"
	"unicode/utf8"

	"github.com/ajitpratap0/GoSQLX/pkg/linter"
	"github.com/ajitpratap0/GoSQLX/pkg/linter/rules/keywords"
	"github.com/ajitpratap0/GoSQLX/pkg/linter/rules/whitespace"
	"github.com/ajitpratap0/GoSQLX/pkg/models"
	"verifharness/lexgen"
	"verifharness/mon"
)

func init() {
	Registry["C17"] = &Prop{Level: "exploration", Parent: c17Parent, Child: c17Child}
}

func c17Parent(c *mon.Ctx) {
	c.Rule = "texts are built line by line from lexemes (keywords in random case, identifiers, numbers, operators, strings / quoted identifiers / back-ticked names / dollar-quoted strings / line and block comments whose bodies contain keywords, repeated spaces, quotes, blank lines and trailing blanks, some spanning lines) with layout defects injected at known places (trailing blanks, tab/space indentation, blank-line runs, repeated spaces, over-long lines); every auto-fix (each fixable rule alone, the CLI chain of all of them, the language server's format action) is applied and the library tokenizer compares token (kind, value) sequences and comment texts before and after (keyword case folded), the fix is applied again (must be a fixed point) and the result re-linted (no violation of a rule whose fix ran); each layout rule's reports are compared line by line with the construction record (must-report / must-not-report sets) and every Violation.Location must lie inside the text. distinct_nontrivial = distinct generated texts"
	c.DistinctSet = "texts"
	c.Assumptions = []string{"the tokenizer is the judge of token equality (its faithfulness is C04's business)", "comment texts are compared modulo blanks at the end of each comment line (removing them is the trailing-blank rule's purpose)",
		"lines whose start, end or blank run lies inside a multi-line literal or comment, comment-only long lines, and repeated spaces that are only trailing or only inside comments are not asserted either way for the reporting clause"}
	per := 1200
	if c.Tier == "thorough" {
		per = 40000
	}
	sh := shards("plain", "catalogue", 1)
	sh = append(sh, shards("plain", "random", 12, "-n", fmt.Sprint(per))...)
	sh = append(sh, shards("plain", "lspformat", 2, "-n", fmt.Sprint(per/4))...)
	res := c.RunShards(sh, 16)
	c.ClassifyDeaths(res, "linting and fixing return")
}

// ---- text builder -------------------------------------------------------------------------

type c17Span struct {
	start, end int
	kind       string // string qident backtick dollar line-comment block-comment
}

type c17Text struct {
	S        string
	spans    []c17Span    // literal / comment extents (byte offsets)
	kwBad    map[int]bool // lines (1-based) with a keyword lexeme not in upper case, in code
	kwAny    map[int]bool // lines with any word outside literals/comments that looks like a rule keyword in non-upper case
	interior map[int]bool // lines with >=2 spaces strictly between two code lexemes
	features []string
}

var c17Tricky = []struct{ text, kind string }{
	{"'select  from'", "string"}, {"'it''s  x'", "string"}, {"'a -- b'", "string"}, {"'x \"select\" y'", "string"}, {"'/* no  comment */'", "string"},
	{"'q\\'select  from'", "string"}, {"'multi  \n\n\n  \tline  \nend'", "string"}, {"'trail   '", "string"}, {"''", "string"}, {"'where'", "string"},
	{"\"select\"", "qident"}, {"\"two  spaces\"", "qident"}, {"\"from 'x'\"", "qident"}, {"\"a\"\"select  b\"", "qident"},
	{"`select`", "backtick"}, {"`a  b`", "backtick"},
	{"$$select  from$$", "dollar"}, {"$t$ it's  select $t$", "dollar"}, {"$$\n  select  \n\n\n\twhere $$", "dollar"},
	{"'''tri  select 'x' from'''", "string"}, {"'''tri  \n\n\n\t select  \n'''", "string"},
	{"/* select  from */", "block-comment"}, {"/* it's */", "block-comment"}, {"/* multi  \n\n\n \tselect  \n end */", "block-comment"}, {"/**/", "block-comment"}, {"/* \"open */", "block-comment"},
	// bytes that are not valid UTF-8 inside literals and comments (data from another encoding): copied, never re-encoded
	{"'a\xffb select'", "string"}, {"\"q\xfe from\"", "qident"}, {"/* \xc3 select */", "block-comment"}, {"$$\xe9t\xe9 where$$", "dollar"}, // typographic quotes delimit literals and names for the tokenizer, also mixed with the ASCII ones
	{"\u2018select  from\u2019", "string"}, {"\u2018it\u2019\u2019s  select\u2019", "string"}, {"'it'\u2019s  where'", "string"}, {"\u00abfrom  x\u00bb", "string"}, {"\u201cmy  select\u201d", "qident"},
}

var c17LineComments = []string{"-- select  from", "-- it's", "--", "-- \"open", "-- /* where", "-- trailing note", "--select", "-- voil\u00e0", "-- \u00c5", "-- caf\xe9 select"}

var c17Idents = []string{"a", "b1", "col_2", "tbl", "x", "users", "_tmp", "selectx", "fromage", "a1b2", "naïve", "voilà", "\u00c5", "@from", ":limit", "@Where", "\u017fet", "l\u0131ke", "\u0131n"}

// c17Backslash is the one tricky lexeme with a backslash-escaped quote (feature "backslash-escaped-quote").
const c17Backslash = "'q\\'select  from'"

func c17Build(r *rand.Rand, defects bool, avoid map[string]bool) c17Text {
	t := c17Text{kwBad: map[int]bool{}, kwAny: map[int]bool{}, interior: map[int]bool{}}
	var sb strings.Builder
	line := 1
	write := func(s string) {
		sb.WriteString(s)
		line += strings.Count(s, "\n")
	}
	nlines := 2 + r.Intn(10)
	feat := map[string]bool{}
	for li := 0; li < nlines; li++ {
		// blank-line run
		if defects && r.Intn(6) == 0 {
			k := 1 + r.Intn(3)
			for j := 0; j < k; j++ {
				if r.Intn(4) == 0 {
					write("  ")
				}
				write("\n")
			}
			feat["blank-run"] = true
		}
		// indentation
		switch r.Intn(8) {
		case 0:
			write("    ")
		case 1:
			if defects {
				write("\t")
				feat["tab-indent"] = true
			}
		case 2:
			if defects {
				write(" \t ")
				feat["mixed-indent"] = true
			}
		case 3:
			write("  ")
		}
		nlex := 1 + r.Intn(8)
		if defects && r.Intn(15) == 0 {
			nlex = 30 + r.Intn(10)
			feat["long-line"] = true
		}
		prevCode := false
		prevWordLike := false // previous piece ends in a letter, digit or closing quote: a quote or comment may follow it directly
		for k := 0; k < nlex; k++ {
			tight := false
			if k > 0 && prevWordLike && r.Intn(4) == 0 {
				tight = true // decided now, honoured only if the next piece opens with a quote, back-tick or /*
			}
			pieceStart := sb.Len()
			if k > 0 && tight {
				// separator written after the piece is known (see below)
			} else if k > 0 {
				if defects && r.Intn(5) == 0 {
					write(strings.Repeat(" ", 2+r.Intn(3)))
					// interior only if both neighbours are code lexemes on this line: decided after the next lexeme
					feat["repeated-spaces"] = true
					prevCode = prevCode && true
					if prevCode {
						// mark tentatively; cleared below if the next lexeme is not code
						t.interior[line] = true
					}
				} else {
					write(" ")
				}
			}
			switch c := r.Intn(20); {
			case c < 6:
				kw := lexgen.Keywords[r.Intn(len(lexgen.Keywords))]
				switch r.Intn(3) {
				case 1:
					if defects {
						kw = strings.ToLower(kw)
					}
				case 2:
					if defects {
						kw = kw[:1] + strings.ToLower(kw[1:])
					}
				}
				if kw != strings.ToUpper(kw) {
					t.kwBad[line] = true
					t.kwAny[line] = true
					feat["keyword-case"] = true
				}
				write(kw)
				prevCode = true
			case c < 10:
				write(c17Idents[r.Intn(len(c17Idents))])
				prevCode = true
			case c < 12:
				write(lexgen.Numbers[r.Intn(len(lexgen.Numbers))])
				prevCode = true
			case c < 15:
				ops := []string{"(", ")", ",", "=", "<>", "+", "*", ".", "||", "::", "->>", ";", "<="}
				write(ops[r.Intn(len(ops))])
				prevCode = true
			default:
				tr := c17Tricky[r.Intn(len(c17Tricky))]
				if !defects && (strings.Contains(tr.text, "\n")) {
					tr = c17Tricky[0]
				}
				if tr.text == c17Backslash && avoid["backslash-escaped-quote"] {
					tr = c17Tricky[1]
				}
				st := sb.Len()
				write(tr.text)
				t.spans = append(t.spans, c17Span{st, sb.Len(), tr.kind})
				feat[tr.kind] = true
				if strings.Contains(tr.text, "\n") {
					feat["multi-line-"+tr.kind] = true
				}
				prevCode = false
			}
			if k > 0 && tight {
				piece := sb.String()[pieceStart:]
				prevLast := sb.String()[pieceStart-1]
				if !(strings.HasPrefix(piece, "'") || strings.HasPrefix(piece, "\"") || strings.HasPrefix(piece, "`") || strings.HasPrefix(piece, "/*")) || prevLast == piece[0] {
					// (a quote directly after the same quote would merge the two literals, or open a triple-quoted string)
					// re-write with a blank in between
					whole := sb.String()
					sb.Reset()
					sb.WriteString(whole[:pieceStart] + " " + piece)
					if n := len(t.spans); n > 0 && t.spans[n-1].start >= pieceStart {
						t.spans[n-1].start++
						t.spans[n-1].end++
					}
				} else {
					feat["tight-quote"] = true
				}
			}
			last := sb.String()[sb.Len()-1]
			prevWordLike = last == '\'' || last == '"' || last == '`' || last == '_' || last >= 'a' && last <= 'z' || last >= 'A' && last <= 'Z' || last >= '0' && last <= '9'
		}
		// trailing line comment
		if r.Intn(6) == 0 {
			write(" ")
			c := c17LineComments[r.Intn(len(c17LineComments))]
			st := sb.Len()
			write(c)
			t.spans = append(t.spans, c17Span{st, sb.Len(), "line-comment"})
			feat["line-comment"] = true
		}
		if defects && r.Intn(6) == 0 {
			write([]string{" ", "   ", "\t", " \t"}[r.Intn(4)])
			feat["trailing-blanks"] = true
		}
		if li < nlines-1 || r.Intn(2) == 0 {
			write("\n")
		}
	}
	t.S = sb.String()
	// recompute the interior-repeated-spaces record exactly from the mask (the tentative marks above are too coarse)
	t.interior = map[int]bool{}
	mask := t.mask()
	ln := 1
	lineStart := 0
	for i := 0; i <= len(t.S); i++ {
		if i == len(t.S) || t.S[i] == '\n' {
			seg := t.S[lineStart:i]
			// find runs of >=2 spaces with code on both sides within the line
			for j := 0; j < len(seg); j++ {
				if seg[j] == ' ' && j+1 < len(seg) && seg[j+1] == ' ' && !mask[lineStart+j] {
					k := j
					for k < len(seg) && seg[k] == ' ' && !mask[lineStart+k] {
						k++
					}
					left := strings.TrimLeft(seg[:j], " \t") != "" && j > 0 && !mask[lineStart+j-1] && seg[j-1] != '\t'
					right := k < len(seg) && !mask[lineStart+k] && seg[k] != '\t'
					if left && right {
						t.interior[ln] = true
					}
					j = k
				}
			}
			ln++
			lineStart = i + 1
		}
	}
	for f := range feat {
		t.features = append(t.features, f)
	}
	sort.Strings(t.features)
	return t
}

// c17ToCRLF returns t with every line break written as CR LF (also inside literals and comments); the
// line-indexed records stay valid, span offsets move with the inserted bytes.
func c17ToCRLF(t c17Text) c17Text {
	shift := make([]int, len(t.S)+1)
	n := 0
	for i := 0; i < len(t.S); i++ {
		shift[i] = n
		if t.S[i] == '\n' {
			n++
		}
	}
	shift[len(t.S)] = n
	out := t
	out.S = strings.ReplaceAll(t.S, "\n", "\r\n")
	out.spans = nil
	for _, sp := range t.spans {
		out.spans = append(out.spans, c17Span{sp.start + shift[sp.start], sp.end + shift[sp.end], sp.kind})
	}
	out.features = append(append([]string{}, t.features...), "crlf")
	return out
}

// mask[i] is true where byte i lies inside a literal or comment.
func (t c17Text) mask() []bool {
	m := make([]bool, len(t.S)+1)
	for _, sp := range t.spans {
		for i := sp.start; i < sp.end; i++ {
			m[i] = true
		}
	}
	return m
}

// maskKind: like mask but only for the given kinds.
func (t c17Text) maskKind(kinds ...string) []bool {
	m := make([]bool, len(t.S)+1)
	for _, sp := range t.spans {
		for _, k := range kinds {
			if sp.kind == k {
				for i := sp.start; i < sp.end; i++ {
					m[i] = true
				}
			}
		}
	}
	return m
}

// ---- token-preservation oracle -------------------------------------------------------------------------

type c17Toks struct {
	seq      []string
	comments []string
	err      error
}

func c17Tokenize(s string) c17Toks {
	tk := mustTokenizer()
	toks, err := tk.Tokenize([]byte(s))
	if err != nil {
		return c17Toks{err: err}
	}
	var out c17Toks
	for _, t := range toks {
		v := t.Token.Value
		cl := tokClass(t.Token)
		if cl == lexgen.Word {
			v = strings.ToUpper(strings.Join(strings.Fields(v), " "))
		}
		out.seq = append(out.seq, fmt.Sprintf("%s:%q", cl, v))
	}
	for _, c := range tk.Comments {
		lines := strings.Split(c.Text, "\n")
		for i := range lines {
			lines[i] = strings.TrimRight(strings.TrimSuffix(lines[i], "\r"), " \t")
		}
		out.comments = append(out.comments, strings.Join(lines, "\n"))
	}
	return out
}

// c17Preserved compares the token sequences of before and after. Returns "" or a description.
func c17Preserved(before, after string) (string, string) {
	b := c17Tokenize(before)
	if b.err != nil {
		return "", "" // not tokenizable: outside "any SQL text" that has a token sequence
	}
	a := c17Tokenize(after)
	if a.err != nil {
		return "untokenizable", "fixed text is rejected by the tokenizer: " + firstLine(a.err.Error())
	}
	if len(a.seq) != len(b.seq) {
		return "token-count", fmt.Sprintf("%d tokens before, %d after", len(b.seq), len(a.seq))
	}
	for i := range b.seq {
		if a.seq[i] != b.seq[i] {
			kind := strings.SplitN(b.seq[i], ":", 2)[0]
			return "token/" + kind, fmt.Sprintf("token %d: %s became %s", i, b.seq[i], a.seq[i])
		}
	}
	if len(a.comments) != len(b.comments) {
		return "comment-count", fmt.Sprintf("%d comments before, %d after", len(b.comments), len(a.comments))
	}
	for i := range b.comments {
		if a.comments[i] != b.comments[i] {
			return "comment-text", fmt.Sprintf("comment %d: %q became %q", i, b.comments[i], a.comments[i])
		}
	}
	return "", ""
}

// ---- rules -------------------------------------------------------------------------

type c17Rule struct {
	name string
	rule linter.Rule
}

const c17MaxLen = 100

func c17Rules() []c17Rule {
	return []c17Rule{
		{"L001-trailing", whitespace.NewTrailingWhitespaceRule()},
		{"L002-mixed-indent", whitespace.NewMixedIndentationRule()},
		{"L003-blank-lines", whitespace.NewConsecutiveBlankLinesRule(1)},
		{"L005-long-lines", whitespace.NewLongLinesRule(c17MaxLen)},
		{"L010-redundant-space", whitespace.NewRedundantWhitespaceRule()},
		{"L007-keyword-case", keywords.NewKeywordCaseRule(keywords.CaseUpper)},
	}
}

func c17Lint(r linter.Rule, s string) ([]linter.Violation, error) {
	l := linter.New(r)
	res := l.LintString(s, "t.sql")
	return res.Violations, res.Error
}

// c17Repeatable lints the text four times with each of the ten rules on a fresh linter and compares the findings
// (rule, line, column, message, line text) with those of the first time.
func c17Repeatable(a *ChildArgs, s, layer string, wit map[string]interface{}) {
	for _, r := range AllRules() {
		first := ""
		for k := 0; k < 4; k++ {
			res := linter.New(r).LintString(s, "t.sql")
			var sb strings.Builder
			for _, v := range res.Violations {
				fmt.Fprintf(&sb, "%s@%d:%d %q %q;", v.Rule, v.Location.Line, v.Location.Column, v.Message, v.Line)
			}
			if res.Error != nil {
				sb.WriteString("error " + res.Error.Error())
			}
			a.Rec.Count("repeat_lints", 1)
			if k == 0 {
				first = sb.String()
				if first != "" {
					a.Rec.Distinct("repeat_nonempty", r.ID()+"|"+s)
				}
				continue
			}
			if sb.String() != first {
				layerKind := layer
				if i := strings.Index(layerKind, "/"); i >= 0 {
					layerKind = layerKind[:i]
				}
				a.Rec.Viol("C17/"+layerKind+"/"+r.ID()+"/not-repeatable", "a rule flags exactly what it names: the same text gives the same findings on every call",
					fmt.Sprintf("call 1: %s | call %d: %s", trunc(first, 200), k+1, trunc(sb.String(), 200)), wit)
				break
			}
		}
	}
}

func c17CheckText(a *ChildArgs, t c17Text, layer string) {
	a.Rec.Count("evaluations", 1)
	a.Rec.Distinct("texts", t.S)
	wit := map[string]interface{}{"text": t.S, "features": t.features}
	rules := c17Rules()
	lines := strings.Split(t.S, "\n")
	mask := t.mask()
	// line offsets
	offs := make([]int, len(lines))
	o := 0
	for i, l := range lines {
		offs[i] = o
		o += len(l) + 1
	}
	insideAtStart := func(li int) bool { return offs[li] < len(mask) && offs[li] > 0 && mask[offs[li]] && mask[offs[li]-1] }
	insideAtEnd := func(li int) bool {
		e := offs[li] + len(lines[li])
		return e < len(t.S) && e > 0 && mask[e] && mask[e-1]
	}
	// every rule, reference oracle or not: the same text gives the same findings each time it is linted (a rule that
	// ranges over a map to pick "the most common" layout answers differently from call to call on a tie)
	c17Repeatable(a, t.S, layer, wit)
	for _, cr := range rules {
		viols, err := c17Lint(cr.rule, t.S)
		if err != nil {
			a.Rec.Viol("C17/"+layer+"/"+cr.name+"/check-error", "linting returns", err.Error(), wit)
			continue
		}
		reported := map[int]bool{}
		for _, v := range viols {
			reported[v.Location.Line] = true
			if v.Location.Line < 1 || v.Location.Line > len(lines) || v.Location.Column < 1 || v.Location.Column > len(lines[v.Location.Line-1])+1 {
				a.Rec.Viol("C17/"+layer+"/"+cr.name+"/location-outside", "at an existing line and column", fmt.Sprintf("violation at %d:%d in a text of %d lines", v.Location.Line, v.Location.Column, len(lines)), wit)
			}
		}
		// reference sets
		must := map[int]bool{}
		mustNot := map[int]bool{}
		switch cr.name {
		case "L001-trailing":
			for i, l := range lines {
				if insideAtEnd(i) {
					continue
				}
				l = strings.TrimSuffix(l, "\r") // CR LF is the line terminator, not content
				if strings.HasSuffix(l, " ") || strings.HasSuffix(l, "\t") {
					must[i+1] = true
				} else {
					mustNot[i+1] = true
				}
			}
		case "L002-mixed-indent":
			for i, l := range lines {
				if insideAtStart(i) {
					continue
				}
				lead := l[:len(l)-len(strings.TrimLeft(l, " \t"))]
				if strings.TrimSpace(l) == "" {
					continue // blank lines: indentation of nothing
				}
				if strings.Contains(lead, " ") && strings.Contains(lead, "\t") {
					must[i+1] = true
				} else if lead == "" {
					mustNot[i+1] = true
				}
			}
		case "L003-blank-lines":
			n := len(lines)
			if n > 0 && lines[n-1] == "" {
				n-- // the empty piece after the final newline is not a line
			}
			for i := 0; i < n; {
				if strings.TrimSpace(lines[i]) != "" {
					mustNot[i+1] = true
					i++
					continue
				}
				j := i
				inLit := false
				for j < n && strings.TrimSpace(lines[j]) == "" {
					if insideAtStart(j) || insideAtEnd(j) {
						inLit = true
					}
					j++
				}
				if !inLit {
					if j-i > 1 {
						must[i+1] = true
					} else {
						mustNot[i+1] = true
					}
				}
				i = j
			}
		case "L005-long-lines":
			for i, l := range lines {
				tr := strings.TrimSpace(l)
				if strings.HasPrefix(tr, "--") || strings.HasPrefix(tr, "/*") {
					continue // comment-only lines are exempt (a line that merely continues a literal or a comment is not)
				}
				l = strings.TrimSuffix(l, "\r")
				if strings.Contains(l, "\t") {
					continue // the width of a tab is not defined by the rule
				}
				// documented as a length in characters
				if utf8.RuneCountInString(l) > c17MaxLen {
					must[i+1] = true
				} else {
					mustNot[i+1] = true
				}
			}
		case "L010-redundant-space":
			cm := t.maskKind("line-comment", "block-comment")
			for i, l := range lines {
				if insideAtStart(i) || insideAtEnd(i) {
					continue
				}
				if t.interior[i+1] {
					must[i+1] = true
					continue
				}
				// any run of two spaces outside literals, not leading?
				body := strings.TrimLeft(l, " \t")
				base := offs[i] + len(l) - len(body)
				any := false
				for k := 0; k+1 < len(body); k++ {
					if body[k] == ' ' && body[k+1] == ' ' && (!mask[base+k] || cm[base+k]) {
						any = true
					}
				}
				if !any {
					mustNot[i+1] = true
				}
			}
		case "L007-keyword-case":
			for i, l := range lines {
				if insideAtStart(i) {
					continue
				}
				if t.kwBad[i+1] {
					must[i+1] = true
				} else if !c17HasLowerKeywordOutside(l, offs[i], mask) {
					mustNot[i+1] = true
				}
			}
		}
		for ln := range must {
			if !reported[ln] {
				a.Rec.Viol("C17/"+layer+"/"+cr.name+"/missed", "each layout rule reports a line exactly when the line has the defect the rule names", fmt.Sprintf("line %d %q has the defect but is not reported", ln, trunc(lines[ln-1], 120)), wit)
				break
			}
		}
		for ln := range reported {
			if mustNot[ln] {
				a.Rec.Viol("C17/"+layer+"/"+cr.name+"/spurious/"+c17LineClass(t, lines, offs, ln), "each layout rule reports a line exactly when the line has the defect the rule names", fmt.Sprintf("line %d %q does not have the defect but is reported", ln, trunc(lines[ln-1], 120)), wit)
				break
			}
		}
		if !cr.rule.CanAutoFix() {
			continue
		}
		// fix: token preservation, fixed point, re-lint
		fixed, ferr := cr.rule.Fix(t.S, viols)
		if ferr != nil {
			continue
		}
		if k, d := c17Preserved(t.S, fixed); k != "" {
			a.Rec.Viol("C17/"+layer+"/"+cr.name+"/fix-changes/"+k+"/"+c17Blame(t, fixed), "the token sequence after fixing equals the original's except for keyword letter case; literals, quoted identifiers and comments keep their exact content", d, map[string]interface{}{"text": t.S, "fixed": fixed, "features": t.features})
		}
		again, _ := cr.rule.Fix(fixed, viols)
		if again != fixed {
			a.Rec.Viol("C17/"+layer+"/"+cr.name+"/not-idempotent", "applying the same fixes again changes nothing", firstDiff(fixed, again), map[string]interface{}{"text": t.S, "fixed": fixed, "fixed_twice": again})
		}
		rv, _ := c17Lint(cr.rule, fixed)
		if len(rv) > 0 {
			fl := strings.Split(fixed, "\n")
			ln := rv[0].Location.Line
			lt := ""
			if ln >= 1 && ln <= len(fl) {
				lt = fl[ln-1]
			}
			a.Rec.Viol("C17/"+layer+"/"+cr.name+"/remains-after-fix", "re-linting reports no remaining violation of a rule whose fix was applied", fmt.Sprintf("%d violations remain, first at line %d %q: %s", len(rv), ln, trunc(lt, 100), rv[0].Message), map[string]interface{}{"text": t.S, "fixed": fixed, "features": t.features})
		}
	}
	// the CLI chain: every fixable rule in sequence
	fixed := t.S
	for _, cr := range rules {
		if cr.rule.CanAutoFix() {
			if f, err := cr.rule.Fix(fixed, nil); err == nil {
				fixed = f
			}
		}
	}
	if k, d := c17Preserved(t.S, fixed); k != "" {
		a.Rec.Viol("C17/"+layer+"/chain/fix-changes/"+k+"/"+c17Blame(t, fixed), "the token sequence after fixing equals the original's except for keyword letter case", d, map[string]interface{}{"text": t.S, "fixed": fixed, "features": t.features})
	}
	again := fixed
	for _, cr := range rules {
		if cr.rule.CanAutoFix() {
			if f, err := cr.rule.Fix(again, nil); err == nil {
				again = f
			}
		}
	}
	if again != fixed {
		a.Rec.Viol("C17/"+layer+"/chain/not-idempotent", "applying the same fixes again changes nothing", firstDiff(fixed, again), map[string]interface{}{"text": t.S, "fixed": fixed, "fixed_twice": again})
	}
	for _, cr := range rules {
		if cr.rule.CanAutoFix() {
			if rv, _ := c17Lint(cr.rule, fixed); len(rv) > 0 {
				a.Rec.Viol("C17/"+layer+"/chain/remains-after-fix/"+cr.name, "re-linting reports no remaining violation of a rule whose fix was applied", fmt.Sprintf("%d violations of %s remain: line %d: %s", len(rv), cr.name, rv[0].Location.Line, rv[0].Message), map[string]interface{}{"text": t.S, "fixed": fixed, "features": t.features})
			}
		}
	}
}

// c17HasLowerKeywordOutside: does the line contain, outside literals and comments, a word of the rule's keyword vocabulary that is not upper case?
func c17HasLowerKeywordOutside(l string, off int, mask []bool) bool {
	i := 0
	for i < len(l) {
		c := l[i]
		isW := c == '_' || c >= 'a' && c <= 'z' || c >= 'A' && c <= 'Z' || c >= 0x80
		if !isW {
			i++
			continue
		}
		j := i
		for j < len(l) && (l[j] == '_' || l[j] >= 'a' && l[j] <= 'z' || l[j] >= 'A' && l[j] <= 'Z' || l[j] >= '0' && l[j] <= '9' || l[j] >= 0x80) {
			j++
		}
		if !mask[off+i] {
			w := l[i:j]
			if w != strings.ToUpper(w) {
				for _, k := range lexgen.Keywords {
					if strings.EqualFold(k, w) {
						return true
					}
				}
			}
		}
		i = j
	}
	return false
}

// c17LineClass names what the spuriously reported line contains (for identities).
func c17LineClass(t c17Text, lines []string, offs []int, ln int) string {
	if ln < 1 || ln > len(lines) {
		return "no-such-line"
	}
	s, e := offs[ln-1], offs[ln-1]+len(lines[ln-1])
	kinds := map[string]bool{}
	for _, sp := range t.spans {
		if sp.start < e && sp.end > s {
			kinds[sp.kind] = true
		}
	}
	if len(kinds) == 0 {
		if ln == len(lines) && lines[ln-1] == "" {
			return "end-of-text"
		}
		return "plain"
	}
	var ks []string
	for k := range kinds {
		ks = append(ks, k)
	}
	sort.Strings(ks)
	return strings.Join(ks, "+")
}

// c17Blame names the kind of the first literal/comment whose bytes no longer occur in the fixed text.
func c17Blame(t c17Text, fixed string) string {
	for _, sp := range t.spans {
		if !strings.Contains(fixed, t.S[sp.start:sp.end]) {
			k := sp.kind
			if strings.Contains(t.S[sp.start:sp.end], "\n") {
				k = "multi-line-" + k
			}
			return k
		}
	}
	return "code"
}

func firstDiff(a, b string) string {
	i := 0
	for i < len(a) && i < len(b) && a[i] == b[i] {
		i++
	}
	lo := i - 20
	if lo < 0 {
		lo = 0
	}
	return fmt.Sprintf("first difference at byte %d: %q vs %q", i, trunc(a[lo:], 60), trunc(b[lo:], 60))
}

func c17Child(a *ChildArgs) {
	switch a.Phase {
	case "catalogue":
		// every tricky lexeme alone between two keywords in lower case, with each defect
		for i, tr := range c17Tricky {
			for v := 0; v < 4; v++ {
				var sb strings.Builder
				t := c17Text{kwBad: map[int]bool{}, kwAny: map[int]bool{}, interior: map[int]bool{}}
				pre := []string{"SELECT ", "select ", "  SELECT  a,  ", "\tselect "}[v]
				sb.WriteString(pre)
				st := sb.Len()
				sb.WriteString(tr.text)
				t.spans = append(t.spans, c17Span{st, sb.Len(), tr.kind})
				sb.WriteString([]string{" FROM t\n", " from t  \n", "  FROM  t\n\n\nWHERE x\n", " from t"}[v])
				t.S = sb.String()
				if v == 1 || v == 3 {
					t.kwBad[1] = true
					if strings.Contains(tr.text, "\n") {
						t.kwBad[1+strings.Count(tr.text, "\n")] = true
					}
				}
				if v == 2 {
					t.interior[1] = true
					if !strings.Contains(tr.text, "\n") {
						// "  FROM  t" after the literal on the same line
					} else {
						t.interior[1+strings.Count(tr.text, "\n")] = true
					}
				}
				t.features = []string{tr.kind, fmt.Sprintf("tricky-%d", i)}
				c17CheckText(a, t, fmt.Sprintf("catalogue/lexeme-%02d", i))
				if (v == 1 || v == 2) && tr.text != c17Backslash { // (the backslash lexeme is a listed finding under its LF identity)
					c17CheckText(a, c17ToCRLF(t), fmt.Sprintf("catalogue-crlf/lexeme-%02d", i))
				}
			}
		}
		for i, lc := range c17LineComments {
			for v := 0; v < 2; v++ {
				t := c17Text{kwBad: map[int]bool{}, kwAny: map[int]bool{}, interior: map[int]bool{}}
				pre := []string{"SELECT a ", "select  a "}[v]
				t.S = pre + lc + []string{"\nFROM t\n", "  \n\tfrom t"}[v]
				t.spans = []c17Span{{len(pre), len(pre) + len(lc), "line-comment"}}
				if v == 1 {
					t.kwBad[1], t.kwBad[2], t.interior[1] = true, true, true
				}
				t.features = []string{"line-comment", fmt.Sprintf("lc-%d", i)}
				c17CheckText(a, t, fmt.Sprintf("catalogue/line-comment-%02d", i))
				c17CheckText(a, c17ToCRLF(t), fmt.Sprintf("catalogue-crlf/line-comment-%02d", i))
			}
		}
		// select lists whose continuation lines tie between indentation levels (L006 picks "the most common" one), with
		// line breaks inside literals and comments counted as lines by the rule
		for i, s := range []string{
			"SELECT a,\n  b,\n    c\nFROM t\n", "SELECT\n  a,\n    b\nFROM t\n", "SELECT a,\n\tb,\n  c,\n\td,\n  e\nFROM t\n",
			"SELECT 'x\n y' , 'first\nsecond' FROM t\n", "select a,\n b,\n  c,\n   d,\n    e\nfrom t", "SELECT a,\n  b,\n    c\nFROM t;\nSELECT d,\n      e,\n f\nFROM u\n",
			"SELECT DISTINCT a,\n    b,\n  c\nFROM t\n", "SELECT a, /* x\n y */ b,\n   c\nFROM t\n", "SELECT a,\n  b,\n    c",
		} {
			t := c17Text{S: s, kwBad: map[int]bool{}, kwAny: map[int]bool{}, interior: map[int]bool{}, features: []string{"indent-tie"}}
			wit := map[string]interface{}{"text": s, "features": t.features}
			a.Rec.Count("evaluations", 1)
			c17Repeatable(a, s, fmt.Sprintf("catalogue/indent-tie-%02d", i), wit)
			c17Repeatable(a, strings.ReplaceAll(s, "\n", "\r\n"), fmt.Sprintf("catalogue-crlf/indent-tie-%02d", i), wit)
		}
		// end-of-text shapes
		for _, s := range []string{"SELECT a\n", "SELECT a", "SELECT a\n\n", "SELECT a\n\n\n", "SELECT a\n\nFROM t\n", "\nSELECT a\n", "\n\nSELECT a\n", "SELECT a \n", ""} {
			t := c17Text{S: s, kwBad: map[int]bool{}, kwAny: map[int]bool{}, interior: map[int]bool{}, features: []string{"end-shape"}}
			c17CheckText(a, t, "catalogue/end-shape")
			c17CheckText(a, c17ToCRLF(t), "catalogue-crlf/end-shape")
		}
	case "random":
		avoid := mon.AvoidFeatures()
		base := a.Seed*7919 + int64(a.Shard)*104729
		for i := 0; i < a.N; i++ {
			r := rand.New(rand.NewSource(base + int64(i)*15485863))
			t := c17Build(r, i%5 != 0, avoid)
			c17CheckText(a, t, "random")
			if i%4 == 1 {
				c17CheckText(a, c17ToCRLF(t), "random-crlf")
			}
			if i < 2 {
				a.Rec.Sample("random", 2, map[string]interface{}{"text": t.S, "features": t.features})
			}
		}
	case "lspformat":
		c17LSP(a)
	}
}

var _ = models.Location{}

// c17LSP drives the language server's format action over generated texts.
func c17LSP(a *ChildArgs) {
	base := a.Seed*7919 + int64(a.Shard)*104729 + 77
	run := func(t c17Text, layer string) {
		a.Rec.Count("evaluations", 1)
		a.Rec.Distinct("texts", t.S)
		uri := "file:///t.sql"
		opts := map[string]interface{}{"tabSize": 4, "insertSpaces": true}
		format := func(text string) (string, bool) {
			var in []byte
			in = append(in, lspReq(1, "initialize", map[string]interface{}{})...)
			in = append(in, lspNotif("textDocument/didOpen", map[string]interface{}{"textDocument": map[string]interface{}{"uri": uri, "languageId": "sql", "version": 1, "text": text}})...)
			in = append(in, lspReq(2, "textDocument/formatting", map[string]interface{}{"textDocument": map[string]interface{}{"uri": uri}, "options": opts})...)
			s := lspRun(in)
			if s.Panic != "" || s.FrameErr != "" {
				return "", false // C18
			}
			for _, f := range s.Frames {
				if f.HasID && f.ID == "2" {
					if len(f.Error) > 0 && string(f.Error) != "null" {
						return "", false
					}
					var edits []struct {
						Range struct {
							Start, End struct{ Line, Character int }
						}
						NewText string
					}
					if err := jsonUnmarshal(f.Result, &edits); err != nil {
						return "", false
					}
					out := text
					for i := len(edits) - 1; i >= 0; i-- {
						e := edits[i]
						out = lspApply(out, false, e.Range.Start.Line, e.Range.Start.Character, e.Range.End.Line, e.Range.End.Character, e.NewText)
					}
					return out, true
				}
			}
			return "", false
		}
		if !utf8.ValidString(t.S) {
			a.Rec.Count("lsp_skipped_not_utf8", 1) // the protocol carries text as JSON strings: such bytes cannot reach the server
			return
		}
		f1, ok := format(t.S)
		if !ok {
			a.Rec.Count("lsp_no_answer", 1)
			return
		}
		wit := map[string]interface{}{"text": t.S, "formatted": f1, "features": t.features}
		if k, d := c17Preserved(t.S, f1); k != "" {
			a.Rec.Viol("C17/"+layer+"/lsp-format/changes/"+k+"/"+c17Blame(t, f1), "the language server's format action yields text whose token sequence equals the original's except for keyword letter case", d, wit)
		}
		f2, ok := format(f1)
		if ok && f2 != f1 {
			a.Rec.Viol("C17/"+layer+"/lsp-format/not-idempotent", "applying the same action again changes nothing", firstDiff(f1, f2), map[string]interface{}{"text": t.S, "formatted": f1, "formatted_twice": f2})
		}
	}
	if a.Shard == 0 {
		for i, tr := range c17Tricky {
			for v := 0; v < 2; v++ {
				pre := []string{"SELECT ", "  select\n   "}[v]
				t := c17Text{S: pre + tr.text + []string{" FROM t\n", "\n\n  from t  \n"}[v], spans: []c17Span{{len(pre), len(pre) + len(tr.text), tr.kind}}, features: []string{tr.kind, fmt.Sprintf("tricky-%d", i)}}
				run(t, fmt.Sprintf("catalogue/lexeme-%02d", i))
				if strings.Contains(tr.text, "\n") {
					run(c17ToCRLF(t), fmt.Sprintf("catalogue-crlf/lexeme-%02d", i))
				}
			}
		}
	}
	if a.Shard == 0 {
		// characters outside the basic plane on the last line (two UTF-16 units, four bytes, one rune each): the edit
		// range of the whole-document replacement is expressed in UTF-16 units
		for i, txt := range []string{"select  a  from t -- \U0001F389 fertig", "select 'x\U0001F600y'  as   x", "select a\nfrom  t /* \U0001F600\U0001F600 */", "select  a\n  from t\n-- \U0001F389\U0001F389\U0001F389",
			"select  na\u00efve,  \"\U0001F600\"  from t", "select  a  from t -- \U0001F389\n"} {
			sp := []c17Span{}
			if k := strings.Index(txt, "--"); k >= 0 {
				e := len(txt)
				if j := strings.IndexByte(txt[k:], '\n'); j >= 0 {
					e = k + j
				}
				sp = append(sp, c17Span{k, e, "line-comment"})
			}
			run(c17Text{S: txt, spans: sp, features: []string{"astral-last-line"}}, fmt.Sprintf("catalogue/astral-%d", i))
		}
	}
	for i := 0; i < a.N; i++ {
		r := rand.New(rand.NewSource(base + int64(i)*15485863))
		t := c17Build(r, true, mon.AvoidFeatures())
		run(t, "random")
		if i%3 == 1 {
			run(c17ToCRLF(t), "random-crlf") // CR LF documents: line ends inside literals are content like any other byte
		}
	}
}
