package props

import (
	"os"
	"runtime/coverage"
)

// coverReset clears the coverage counters (requires a -cover -covermode=atomic build); returns false when unavailable.
func coverReset() bool { return coverage.ClearCounters() == nil }

// coverDump writes meta + counters into dir.
func coverDump(dir string) error {
	if err := os.MkdirAll(dir, 0o755); err != nil {
		return err
	}
	if err := coverage.WriteMetaDir(dir); err != nil {
		return err
	}
	return coverage.WriteCountersDir(dir)
}
