// Package props holds one file per property: the parent orchestration and the
// child workloads with their oracles.
package props

import (
	"encoding/json"
	"fmt"
	"math/rand"
	"os"

	"verifharness/mon"
)

type ChildArgs struct {
	Prop, Phase, Tier, Out, Arg string
	Seed                        int64
	Shard, NShards, N           int
	Rest                        []string
	Rec                         *mon.Recorder
}

func (a *ChildArgs) Quick() bool { return a.Tier != "thorough" }

// Rng returns the shard's PRNG, a pure function of (seed, phase, shard).
func (a *ChildArgs) Rng() *rand.Rand {
	return rand.New(rand.NewSource(a.Seed*1000003 + int64(mon.Hash(a.Phase)%100000)*131 + int64(a.Shard)))
}

type Prop struct {
	Level  string
	Parent func(*mon.Ctx)
	Child  func(*ChildArgs)
	Replay func(witness json.RawMessage, phase string) int
}

var Registry = map[string]*Prop{}

// Replay re-runs the case stored in a replay file and prints what happens.
func Replay(path string) int {
	b, err := os.ReadFile(path)
	if err != nil {
		fmt.Println(err)
		return 3
	}
	var r struct {
		Property, Identity, Clause, Detail, Phase string
		Witness                                   json.RawMessage
	}
	if err := json.Unmarshal(b, &r); err != nil {
		fmt.Println(err)
		return 3
	}
	fmt.Printf("property=%s identity=%s\nclause=%s\nrecorded detail: %s\nwitness: %s\n", r.Property, r.Identity, r.Clause, r.Detail, r.Witness)
	p := Registry[r.Property]
	if p == nil || p.Replay == nil {
		fmt.Println("(no live replay for this property: the witness above is self-contained)")
		return 0
	}
	return p.Replay(r.Witness, r.Phase)
}

// shards builds n shards of a phase.
func shards(variant, phase string, n int, extra ...string) []mon.Shard {
	out := make([]mon.Shard, n)
	for i := 0; i < n; i++ {
		args := append([]string{"-shard", fmt.Sprint(i), "-nshards", fmt.Sprint(n)}, extra...)
		out[i] = mon.Shard{Variant: variant, Phase: phase, Args: args, Name: fmt.Sprintf("%s-%03d", phase, i)}
	}
	return out
}
