package props

import (
	"fmt"
	"sort"
	"strings"

	"github.com/ajitpratap0/GoSQLX/pkg/gosqlx"
	textsec "github.com/ajitpratap0/GoSQLX/pkg/security"
	"github.com/ajitpratap0/GoSQLX/pkg/sql/security"
	"verifharness/dump"
	"verifharness/mon"
)

func init() {
	Registry["C16"] = &Prop{Level: "exploration", Parent: c16Parent, Child: c16Child}
}

func c16Parent(c *mon.Ctx) {
	c.Rule = "exhaustive grid: every documented payload (tautologies, time-delay and dangerous calls, UNION probes) x every condition / call position of the position catalogue (top-level WHERE of SELECT/UPDATE/DELETE, AND/OR operands, parenthesised, HAVING, JOIN ON, derived table, IN / EXISTS / scalar sub-query, CTE body, INSERT...SELECT, CASE, function argument, set-operation operand, ...) x layouts (letter case, spacing, redundant parentheses) x the four severity thresholds, for Scanner.Scan(tree), Scanner.ScanSQL(text) and pkg/security.Scan: (absolute) the payload as top-level WHERE is reported with its documented class and severity by the union of the entry points; (relative) each entry point reports, at every position and layout, at least the (class, severity) pairs it reports for the payload at top-level WHERE; thresholds remove exactly the findings below them; counts equal listed findings; scanning leaves the tree unchanged and does not depend on earlier scans. distinct_nontrivial = distinct (payload, position, layout) statements scanned"
	c.DistinctSet = "cases"
	c.Exhaustive = true
	c.Assumptions = []string{"extra findings are allowed (the statement is a superset claim)", "an entry point is never required to detect a class it does not report for the top-level WHERE base case"}
	sh := shards("plain", "grid", 8)
	res := c.RunShards(sh, 8)
	c.ClassifyDeaths(res, "scanning returns")
}

type payload struct {
	Name  string
	Kind  string // cond | call | union
	Texts []string // layouts of the payload text itself
	Class security.PatternType
	Sev   security.Severity
}

func c16Payloads() []payload {
	return []payload{
		{"taut-num", "cond", []string{"1=1", "1 = 1", "(1=1)", "((1) = (1))", "1\n=\n1"}, security.PatternTautology, security.SeverityCritical},
		{"taut-str", "cond", []string{"'a'='a'", "'a' = 'a'", "('a'='a')"}, security.PatternTautology, security.SeverityCritical},
		{"taut-col", "cond", []string{"x=x", "x = x", "(x=x)"}, security.PatternTautology, security.SeverityCritical},
		{"sleep", "call", []string{"SLEEP(5)", "sleep(5)", "Sleep ( 5 )", "(SLEEP(5))"}, security.PatternTimeBased, security.SeverityHigh},
		{"pg_sleep", "call", []string{"PG_SLEEP(5)", "pg_sleep(5)", "pg_sleep ( 5 )"}, security.PatternTimeBased, security.SeverityHigh},
		{"benchmark", "call", []string{"BENCHMARK(1000000, 1)", "benchmark(1000000, 1)"}, security.PatternTimeBased, security.SeverityHigh},
		{"load_file", "call", []string{"LOAD_FILE('/etc/passwd')", "load_file('/etc/passwd')", "Load_File ( '/etc/passwd' )"}, security.PatternOutOfBand, security.SeverityCritical},
		{"xp_cmdshell", "call", []string{"XP_CMDSHELL('dir')", "xp_cmdshell('dir')"}, security.PatternOutOfBand, security.SeverityCritical},
		{"union-null", "union", []string{"UNION SELECT NULL, NULL", "union select null, null", "UNION ALL SELECT NULL, NULL, NULL", "UNION\nSELECT\tNULL ,NULL"}, security.PatternUnionBased, ""},
		{"union-infoschema", "union", []string{"UNION SELECT table_name FROM information_schema.tables", "union select table_name from information_schema.tables", "UNION  ALL\nSELECT table_name FROM INFORMATION_SCHEMA.TABLES", "UNION SELECT table_name\nFROM information_schema.tables", "UNION SELECT table_name\tFROM\tinformation_schema.tables", "UNION SELECT i.table_name FROM u JOIN information_schema.tables i ON 1 = 2", "UNION SELECT i.table_name FROM u LEFT JOIN v ON u.a = v.a JOIN information_schema.columns i ON i.table_name = u.b",
			"UNION SELECT x FROM (SELECT table_name AS x FROM information_schema.tables) s", "UNION SELECT s.x FROM u JOIN (SELECT table_name AS x FROM (SELECT table_name FROM information_schema.tables) q) s ON 1 = 1"}, security.PatternUnionBased, security.SeverityCritical},
		{"union-null-named", "union", []string{"UNION SELECT NULL AS x, NULL AS y", "union select null as x, null as y", "UNION ALL SELECT NULL x, NULL y, NULL z", "UNION SELECT CAST(NULL AS INT), CAST(NULL AS TEXT)", "UNION SELECT NULL::int, NULL::text AS t", "UNION SELECT CAST(NULL AS INT) AS a, CAST(NULL AS TEXT) AS b", "UNION SELECT NULL::int::bigint, NULL::text::varchar AS c"}, security.PatternUnionBased, ""},
		{"union-null-infoschema", "union", []string{"UNION SELECT NULL, NULL FROM information_schema.tables", "union select null, null from information_schema.tables", "UNION ALL SELECT NULL, NULL, NULL FROM information_schema.columns", "UNION SELECT NULL, table_name, NULL FROM information_schema.tables"}, security.PatternUnionBased, security.SeverityCritical},
		{"union-null-pgcatalog", "union", []string{"UNION SELECT NULL, NULL FROM pg_catalog.pg_tables", "union all select null, null, null from pg_catalog.pg_tables"}, security.PatternUnionBased, security.SeverityCritical},
		{"union-pgcatalog", "union", []string{"UNION SELECT name FROM pg_catalog.pg_tables", "union select name from pg_catalog.pg_tables", "UNION ALL SELECT name FROM PG_CATALOG.pg_tables"}, security.PatternUnionBased, security.SeverityCritical},
	}
}

type position struct {
	Name string
	Kind string // cond | call | union : which payload kind fits the hole
	Tmpl string // %s is the hole
	Base bool   // the top-level WHERE base case
}

func c16Positions() []position {
	return []position{
		{"select-where", "cond", "SELECT a FROM t WHERE %s", true},
		{"update-where", "cond", "UPDATE t SET a = 1 WHERE %s", true},
		{"delete-where", "cond", "DELETE FROM t WHERE %s", true},
		{"and-right", "cond", "SELECT a FROM t WHERE b = 2 AND %s", false},
		{"and-left", "cond", "SELECT a FROM t WHERE %s AND b = 2", false},
		{"or-right", "cond", "SELECT a FROM t WHERE b = 2 OR %s", false},
		{"or-left", "cond", "SELECT a FROM t WHERE %s OR b = 2", false},
		{"nested-paren", "cond", "SELECT a FROM t WHERE (b = 2 AND (c = 3 OR (%s)))", false},
		{"not", "cond", "SELECT a FROM t WHERE NOT (%s)", false},
		{"having", "cond", "SELECT a FROM t GROUP BY a HAVING %s", false},
		{"join-on", "cond", "SELECT a FROM t JOIN u ON %s", false},
		{"join-on-and", "cond", "SELECT a FROM t LEFT JOIN u ON t.a = u.a AND %s", false},
		{"derived-table", "cond", "SELECT a FROM (SELECT b FROM u WHERE %s) d", false},
		{"in-subquery", "cond", "SELECT a FROM t WHERE a IN (SELECT b FROM u WHERE %s)", false},
		{"exists-subquery", "cond", "SELECT a FROM t WHERE EXISTS (SELECT 1 FROM u WHERE %s)", false},
		{"not-exists-subquery", "cond", "SELECT a FROM t WHERE NOT EXISTS (SELECT 1 FROM u WHERE %s)", false},
		{"and-not-exists-subquery", "cond", "DELETE FROM t WHERE b = 2 AND NOT EXISTS (SELECT 1 FROM u WHERE u.a = t.a AND (%s))", false},
		{"not-in-subquery", "cond", "SELECT a FROM t WHERE a NOT IN (SELECT b FROM u WHERE %s)", false},
		{"scalar-subquery", "cond", "SELECT (SELECT MAX(b) FROM u WHERE %s) FROM t", false},
		{"cte-body", "cond", "WITH c AS (SELECT b FROM u WHERE %s) SELECT a FROM c", false},
		{"insert-select", "cond", "INSERT INTO t (a) SELECT b FROM u WHERE %s", false},
		{"case-when", "cond", "SELECT CASE WHEN %s THEN 1 ELSE 0 END FROM t", false},
		{"case-first-of-three-arms", "cond", "SELECT CASE WHEN %s THEN 1 WHEN b = 2 THEN 2 WHEN c = 3 THEN 3 ELSE 0 END FROM t", false},
		{"case-middle-arm", "cond", "SELECT CASE WHEN b = 2 THEN 1 WHEN %s THEN 2 WHEN c = 3 THEN 3 END FROM t", false},
		{"and-chain-head-of-150", "cond", "SELECT a FROM t WHERE %s" + strings.Repeat(" AND b = 2", 150), false},
		{"or-chain-head-of-400", "cond", "SELECT a FROM t WHERE %s" + strings.Repeat(" OR c = 3", 400), false},
		{"and-chain-tail-of-150", "cond", "SELECT a FROM t WHERE b = 2" + strings.Repeat(" AND b = 2", 150) + " AND %s", false},
		{"insert-ragged-row", "cond", "INSERT INTO t (a) VALUES (1), (2, (SELECT b FROM u WHERE %s))", false},
		{"cte-delete-body", "cond", "WITH d AS (DELETE FROM u WHERE %s RETURNING b) SELECT b FROM d", false},
		{"between-dollar-pair-strings", "cond", "SELECT a FROM t WHERE b = '$$' AND %s AND c = '$$'", false},
		{"after-tagged-dollar-in-string", "cond", "SELECT a FROM t WHERE b = '$x$' AND (%s) AND c = \"$x$\"", false},
		{"between-dollar-pair-line-comments", "cond", "SELECT a FROM t WHERE b = 2 -- $$\n AND %s -- $$\n", false},
		{"between-dollar-pair-block-comments", "cond", "SELECT a FROM t WHERE b = 2 /* $$ */ AND %s /* $$ */", false},
		{"after-tagged-dollar-in-comment", "cond", "SELECT a /* $x$ */ FROM t WHERE (%s) AND c = 3 -- $x$", false},
		{"setop-right", "cond", "SELECT a FROM t UNION SELECT b FROM u WHERE %s", false},
		{"setop-left", "cond", "SELECT a FROM t WHERE %s UNION SELECT b FROM u", false},
		{"update-subquery", "cond", "UPDATE t SET a = 1 WHERE b IN (SELECT c FROM u WHERE %s)", false},
		{"delete-subquery", "cond", "DELETE FROM t WHERE EXISTS (SELECT 1 FROM u WHERE %s)", false},
		{"lowercase-stmt", "cond", "select a from t where %s", false},
		{"lowercase-and", "cond", "select a from t where b = 2 and %s", false},
		{"lowercase-or", "cond", "select a from t where b = 2 or %s", false},
		{"mixedcase-and-nested", "cond", "Select a From t Where (b = 2 And (c = 3 Or %s))", false},
		{"multiline-stmt", "cond", "SELECT a\nFROM t\nWHERE\n  %s", false},
		// conditions of the other statement kinds
		{"index-where", "cond", "CREATE INDEX i ON t (a) WHERE %s", false},
		{"unique-index-where", "cond", "CREATE UNIQUE INDEX i ON t (a, b) WHERE b = 2 AND %s", false},
		{"view-where", "cond", "CREATE VIEW v AS SELECT a FROM t WHERE %s", false},
		{"matview-where", "cond", "CREATE MATERIALIZED VIEW v AS SELECT a FROM t WHERE %s", false},
		{"table-check", "cond", "CREATE TABLE t (a INT, CHECK (%s))", false},
		{"column-check", "cond", "CREATE TABLE t (a INT CHECK (%s))", false},
		{"merge-on", "cond", "MERGE INTO t USING s ON %s WHEN MATCHED THEN DELETE", false},
		{"merge-when-and", "cond", "MERGE INTO t USING s ON t.a = s.a WHEN MATCHED AND %s THEN DELETE", false},
		{"on-conflict-where", "cond", "INSERT INTO t (a) VALUES (1) ON CONFLICT (a) DO UPDATE SET a = 2 WHERE %s", false},
		{"filter-where", "cond", "SELECT COUNT(*) FILTER (WHERE %s) FROM t", false},
		{"batch-second", "cond", "SELECT 1; SELECT a FROM t WHERE %s", false},
		{"batch-after-ddl", "cond", "DROP TABLE x; TRUNCATE TABLE y; DELETE FROM t WHERE %s", false},
		// OR delimited by something other than blanks
		{"or-newline", "cond", "SELECT a FROM t WHERE b = 2\nOR\n%s", false},
		{"or-tab", "cond", "SELECT a FROM t WHERE b = 2\tOR\t%s", false},
		{"or-paren", "cond", "SELECT a FROM t WHERE (b = 2)OR(%s)", false},
		{"or-crlf", "cond", "SELECT a FROM t WHERE b = 2\r\nOR %s", false},
		{"or-comment", "cond", "SELECT a FROM t WHERE b = 2/**/OR/**/%s", false},

		{"select-where-eq", "call", "SELECT a FROM t WHERE a = %s", true},
		{"update-where-eq", "call", "UPDATE t SET a = 1 WHERE b = %s", true},
		{"delete-where-eq", "call", "DELETE FROM t WHERE b = %s", true},
		{"where-bare", "call", "SELECT a FROM t WHERE %s", false},
		{"where-and", "call", "SELECT a FROM t WHERE b = 2 AND a = %s", false},
		{"where-or", "call", "SELECT a FROM t WHERE b = 2 OR %s > 0", false},
		{"select-list", "call", "SELECT %s FROM t", false},
		{"select-list-alias", "call", "SELECT a, %s AS x FROM t", false},
		{"func-arg", "call", "SELECT COALESCE(%s, 1) FROM t", false},
		{"arith", "call", "SELECT a FROM t WHERE a = 1 + %s", false},
		{"case-result", "call", "SELECT CASE WHEN a = 1 THEN %s ELSE 0 END FROM t", false},
		{"call-between-dollar-pair-strings", "call", "SELECT a FROM t WHERE b = '$$' AND a = %s AND c = '$$'", false},
		{"call-between-dollar-pair-comments", "call", "SELECT a -- $$\n FROM t WHERE a = %s /* $$ */", false},
		{"case-first-result-of-three", "call", "SELECT CASE WHEN a = 1 THEN %s WHEN a = 2 THEN 2 WHEN a = 3 THEN 3 END FROM t", false},
		{"concat-chain-head-of-200", "call", "SELECT %s" + strings.Repeat(" || 'x'", 200) + " FROM t", false},
		{"plus-chain-head-of-600", "call", "SELECT a FROM t WHERE a = %s" + strings.Repeat(" + 1", 600), false},
		{"call-in-not-exists", "call", "SELECT a FROM t WHERE NOT EXISTS (SELECT 1 FROM u WHERE b = %s)", false},
		{"in-list", "call", "SELECT a FROM t WHERE a IN (1, %s)", false},
		{"between", "call", "SELECT a FROM t WHERE a BETWEEN 1 AND %s", false},
		{"having-call", "call", "SELECT a FROM t GROUP BY a HAVING COUNT(*) > %s", false},
		{"order-by", "call", "SELECT a FROM t ORDER BY %s", false},
		{"join-on-call", "call", "SELECT a FROM t JOIN u ON t.a = %s", false},
		{"subquery-where", "call", "SELECT a FROM t WHERE a IN (SELECT b FROM u WHERE b = %s)", false},
		{"derived-call", "call", "SELECT a FROM (SELECT %s AS b FROM u) d", false},
		{"cte-call", "call", "WITH c AS (SELECT %s AS b) SELECT b FROM c", false},
		{"insert-values", "call", "INSERT INTO t (a) VALUES (%s)", false},
		{"update-set", "call", "UPDATE t SET a = %s WHERE b = 1", false},
		{"lowercase-stmt-call", "call", "select a from t where a = %s", false},
		{"index-where-call", "call", "CREATE INDEX i ON t (a) WHERE a = %s", false},
		{"column-default", "call", "CREATE TABLE t (a INT DEFAULT %s)", false},
		{"returning-call", "call", "DELETE FROM t WHERE b = 1 RETURNING %s", false},
		{"merge-insert-values", "call", "MERGE INTO t USING s ON t.a = s.a WHEN NOT MATCHED THEN INSERT (a) VALUES (%s)", false},
		{"on-conflict-set", "call", "INSERT INTO t (a) VALUES (1) ON CONFLICT (a) DO UPDATE SET a = %s", false},
		{"window-partition", "call", "SELECT SUM(a) OVER (PARTITION BY %s) FROM t", false},
		{"group-by-call", "call", "SELECT a FROM t GROUP BY %s", false},
		{"limit-call", "call", "SELECT a FROM t LIMIT %s", false},

		{"select-union", "union", "SELECT a, b FROM t WHERE a = 1 %s", true},
		{"union-in-subquery", "union", "SELECT a FROM t WHERE a IN (SELECT b FROM u %s)", false},
		{"union-in-cte", "union", "WITH c AS (SELECT a, b FROM u %s) SELECT a FROM c", false},
		{"union-in-insert", "union", "INSERT INTO t (a, b) SELECT a, b FROM u %s", false},
		{"union-after-where-lower", "union", "select a, b from t where a = 1 %s", false},
		{"union-chain", "union", "SELECT a, b FROM t UNION SELECT c, d FROM v %s", false},
		{"union-in-view", "union", "CREATE VIEW v AS SELECT a, b FROM t %s", false},
		{"union-newline", "union", "SELECT a, b FROM t WHERE a = 1\n%s", false},
	}
}

type pairSet map[string]int // "Pattern/Severity" -> count

func pairsOfTree(r *security.ScanResult) pairSet {
	m := pairSet{}
	for _, f := range r.Findings {
		m[string(f.Pattern)+"/"+string(f.Severity)]++
	}
	return m
}

func pairsOfText(fs []textsec.Finding) pairSet {
	m := pairSet{}
	for _, f := range fs {
		m[f.RuleID+"/"+f.Severity.String()]++
	}
	return m
}

func (p pairSet) keys() []string {
	var out []string
	for k := range p {
		out = append(out, k)
	}
	sort.Strings(out)
	return out
}

// minus returns the pairs of p not present in q (set difference on keys).
func (p pairSet) minus(q pairSet) pairSet {
	out := pairSet{}
	for k, v := range p {
		if q[k] == 0 {
			out[k] = v
		}
	}
	return out
}

type scanEP struct {
	Name string
	F    func(sql string, min security.Severity) (pairSet, *security.ScanResult, error)
}

func c16EPs() []scanEP {
	return []scanEP{
		{"Scanner.Scan", func(sql string, min security.Severity) (pairSet, *security.ScanResult, error) {
			tree, err := gosqlx.Parse(sql)
			if err != nil {
				return nil, nil, err
			}
			sc, err := security.NewScannerWithSeverity(min)
			if err != nil {
				return nil, nil, err
			}
			before := dump.Dump(tree)
			r := sc.Scan(tree)
			if dump.Dump(tree) != before {
				return nil, r, fmt.Errorf("TREE-MODIFIED")
			}
			return pairsOfTree(r), r, nil
		}},
		{"Scanner.ScanSQL", func(sql string, min security.Severity) (pairSet, *security.ScanResult, error) {
			sc, err := security.NewScannerWithSeverity(min)
			if err != nil {
				return nil, nil, err
			}
			r := sc.ScanSQL(sql)
			return pairsOfTree(r), r, nil
		}},
		{"textsecurity.Scan", func(sql string, min security.Severity) (pairSet, *security.ScanResult, error) {
			return pairsOfText(textsec.NewScanner().Scan(sql)), nil, nil
		}},
	}
}

var sevLevels = []security.Severity{security.SeverityLow, security.SeverityMedium, security.SeverityHigh, security.SeverityCritical}
var sevRank = map[security.Severity]int{security.SeverityLow: 0, security.SeverityMedium: 1, security.SeverityHigh: 2, security.SeverityCritical: 3}

func c16CountsConsistent(r *security.ScanResult) string {
	if r == nil {
		return ""
	}
	crit, high, med, low := 0, 0, 0, 0
	for _, f := range r.Findings {
		switch f.Severity {
		case security.SeverityCritical:
			crit++
		case security.SeverityHigh:
			high++
		case security.SeverityMedium:
			med++
		case security.SeverityLow:
			low++
		}
	}
	if r.TotalCount != len(r.Findings) || r.CriticalCount != crit || r.HighCount != high || r.MediumCount != med || r.LowCount != low {
		return fmt.Sprintf("counts total=%d crit=%d high=%d med=%d low=%d but findings listed: %d (crit %d high %d med %d low %d)",
			r.TotalCount, r.CriticalCount, r.HighCount, r.MediumCount, r.LowCount, len(r.Findings), crit, high, med, low)
	}
	return ""
}

// c16NestedPositions composes every condition position with condition wrappers that bury the hole one level deeper.
func c16NestedPositions() []position {
	wrappers := []struct{ name, tmpl string }{
		{"exists", "EXISTS (SELECT 1 FROM w WHERE %s)"},
		{"in-sub", "z IN (SELECT y FROM w WHERE %s)"},
		{"scalar-cmp", "(SELECT COUNT(*) FROM w WHERE %s) > 0"},
		{"case", "CASE WHEN %s THEN TRUE ELSE FALSE END"},
		{"and-or", "(p = 1 OR (q = 2 AND %s))"},
		{"derived", "z IN (SELECT y FROM (SELECT y FROM w WHERE %s) dd)"},
	}
	var out []position
	for _, pos := range c16Positions() {
		if pos.Kind != "cond" || pos.Base {
			continue
		}
		for _, w := range wrappers {
			out = append(out, position{Name: pos.Name + "+" + w.name, Kind: "cond", Tmpl: strings.Replace(pos.Tmpl, "%s", w.tmpl, 1)})
		}
	}
	return out
}

func c16Child(a *ChildArgs) {
	payloads := c16Payloads()
	positions := append(c16Positions(), c16NestedPositions()...)
	eps := c16EPs()
	caseNo := 0
	for _, pl := range payloads {
		// base findings per entry point: payload (first layout) at the base positions of its kind, minus the benign template
		benign := map[string]string{"cond": "q = 7", "call": "7", "union": ""}[pl.Kind]
		base := map[string]pairSet{}
		unionAbs := pairSet{}
		for _, pos := range positions {
			if !pos.Base || pos.Kind != pl.Kind {
				continue
			}
			for _, ep := range eps {
				with, _, err1 := ep.F(fmt.Sprintf(pos.Tmpl, pl.Texts[0]), security.SeverityLow)
				without, _, err2 := ep.F(fmt.Sprintf(pos.Tmpl, benign), security.SeverityLow)
				if err1 != nil || err2 != nil {
					continue
				}
				d := with.minus(without)
				if base[ep.Name] == nil {
					base[ep.Name] = d
				} else {
					// keep only what every base position reports (intersection)
					for k := range base[ep.Name] {
						if d[k] == 0 {
							delete(base[ep.Name], k)
						}
					}
				}
				for k, v := range d {
					unionAbs[k] += v
				}
			}
		}
		if caseNo%a.NShards == a.Shard {
			a.Rec.Count("evaluations", 1)
			// absolute clause on the union of the documented entry points
			want := string(pl.Class) + "/" + string(pl.Sev)
			ok := false
			for k := range unionAbs {
				if pl.Sev == "" && strings.HasPrefix(k, string(pl.Class)+"/") || k == want {
					ok = true
				}
			}
			if !ok {
				a.Rec.Viol("C16/absolute/"+pl.Name, "each documented payload is reported with its documented class and severity as the WHERE condition of a top-level statement",
					fmt.Sprintf("no entry point reports %s for the payload at top level; union of findings: %v", want, unionAbs.keys()), map[string]interface{}{"payload": pl.Texts[0]})
			}
			// the tree scanner documents every one of these classes itself: it must not rely on the text scanners for any of them
			okTree := false
			for k := range base["Scanner.Scan"] {
				if pl.Sev == "" && strings.HasPrefix(k, string(pl.Class)+"/") || k == want {
					okTree = true
				}
			}
			if ok && !okTree {
				a.Rec.Viol("C16/absolute-tree-scanner/"+pl.Name, "each documented payload is reported with its documented class and severity as the WHERE condition of a top-level statement",
					fmt.Sprintf("Scanner.Scan on the parsed tree does not report %s for the payload at top level (only the text scanners do); it reports: %v", want, base["Scanner.Scan"].keys()), map[string]interface{}{"payload": pl.Texts[0]})
			}
		}
		// layout groups: the same context written with other separators or letter case; an entry point that reports
		// the payload in the reference spelling must report it in every other spelling of that context
		if pl.Kind == "cond" && caseNo%a.NShards == a.Shard {
			groups := [][]string{{"or-right", "or-newline", "or-tab", "or-crlf", "or-paren", "lowercase-or"}, {"and-right", "lowercase-and"}, {"select-where", "lowercase-stmt", "multiline-stmt"}}
			byName := map[string]position{}
			for _, pos := range positions {
				byName[pos.Name] = pos
			}
			for _, grp := range groups {
				for _, text := range pl.Texts[:1] {
					for _, ep := range eps {
						ref, _, err := ep.F(fmt.Sprintf(byName[grp[0]].Tmpl, text), security.SeverityLow)
						if err != nil {
							continue
						}
						benignRef, _, _ := ep.F(fmt.Sprintf(byName[grp[0]].Tmpl, "q = 7"), security.SeverityLow)
						need := ref.minus(benignRef)
						for _, other := range grp[1:] {
							a.Rec.Count("evaluations", 1)
							sql := fmt.Sprintf(byName[other].Tmpl, text)
							got, _, err := ep.F(sql, security.SeverityLow)
							if err != nil {
								continue
							}
							for k := range need {
								if got[k] == 0 {
									a.Rec.Viol(fmt.Sprintf("C16/%s/%s/layout-group/%s~%s", ep.Name, pl.Name, grp[0], other), "the payload is reported equally wherever it occurs, regardless of letter case, whitespace or redundant parentheses",
										fmt.Sprintf("%s reports %s in the spelling %q but not in %q; got %v", ep.Name, k, fmt.Sprintf(byName[grp[0]].Tmpl, text), sql, got.keys()), map[string]interface{}{"sql": sql, "entry_point": ep.Name})
									break
								}
							}
						}
					}
				}
			}
		}
		for _, pos := range positions {
			if pos.Kind != pl.Kind {
				continue
			}
			for li, text := range pl.Texts {
				caseNo++
				if caseNo%a.NShards != a.Shard {
					continue
				}
				sql := fmt.Sprintf(pos.Tmpl, text)
				a.Rec.Distinct("cases", sql)
				for _, ep := range eps {
					a.Rec.Count("evaluations", 1)
					wit := map[string]interface{}{"sql": sql, "entry_point": ep.Name, "payload": pl.Name, "position": pos.Name, "layout": li}
					got, res, err := ep.F(sql, security.SeverityLow)
					if err != nil {
						if err.Error() == "TREE-MODIFIED" {
							a.Rec.Viol("C16/"+ep.Name+"/tree-modified", "scanning does not modify the tree", "tree differs after Scan", wit)
						} else {
							a.Rec.Count("rejected_by_parser", 1)
						}
						continue
					}
					// relative clause
					for k := range base[ep.Name] {
						if got[k] == 0 {
							a.Rec.Viol(fmt.Sprintf("C16/%s/%s/%s/missing", ep.Name, pl.Name, pos.Name), "the payload is reported equally wherever it occurs, regardless of letter case, whitespace or redundant parentheses",
								fmt.Sprintf("%s reports %s for this payload at top-level WHERE but not here (layout %d); got %v", ep.Name, k, li, got.keys()), wit)
							break
						}
					}
					if msg := c16CountsConsistent(res); msg != "" {
						a.Rec.Viol("C16/"+ep.Name+"/counts", "total and per-severity counts equal the findings listed", msg, wit)
					}
					if res == nil {
						continue
					}
					// thresholds remove exactly the findings below them
					all := res.Findings
					for _, min := range sevLevels[1:] {
						_, rmin, err := ep.F(sql, min)
						if err != nil || rmin == nil {
							continue
						}
						a.Rec.Count("evaluations", 1)
						var want []string
						for _, f := range all {
							if sevRank[f.Severity] >= sevRank[min] {
								want = append(want, string(f.Pattern)+"/"+string(f.Severity)+"/"+f.Description)
							}
						}
						var gotl []string
						for _, f := range rmin.Findings {
							gotl = append(gotl, string(f.Pattern)+"/"+string(f.Severity)+"/"+f.Description)
						}
						sort.Strings(want)
						sort.Strings(gotl)
						if strings.Join(want, "|") != strings.Join(gotl, "|") {
							a.Rec.Viol("C16/"+ep.Name+"/threshold/"+string(min), "raising the minimum severity removes exactly the findings below it",
								fmt.Sprintf("min=%s want %v got %v", min, want, gotl), wit)
						}
						if msg := c16CountsConsistent(rmin); msg != "" {
							a.Rec.Viol("C16/"+ep.Name+"/counts", "total and per-severity counts equal the findings listed", msg, wit)
						}
					}
					// independence of earlier scans: scan(A), scan(B), scan(A)
					other := "SELECT a FROM t WHERE name = 'x' OR 2=2 UNION SELECT NULL, NULL FROM information_schema.tables; DROP TABLE t --"
					_, _, _ = ep.F(other, security.SeverityLow)
					again, _, err := ep.F(sql, security.SeverityLow)
					if err == nil && strings.Join(again.keys(), ",") != strings.Join(got.keys(), ",") {
						a.Rec.Viol("C16/"+ep.Name+"/depends-on-earlier-scan", "scanning does not depend on previous scans", fmt.Sprintf("first %v, after another scan %v", got.keys(), again.keys()), wit)
					}
				}
				if caseNo%97 == 0 {
					a.Rec.Sample("grid", 3, map[string]string{"payload": pl.Name, "position": pos.Name, "sql": sql})
				}
			}
		}
	}
	// the same payload written more than once, spelled identically: every occurrence is reported (the findings of a
	// text holding two occurrences are at least those of the two texts holding one each)
	if a.Shard == 1%a.NShards {
		c16Repeated(a)
	}
	// multi-statement scripts: counts must stay consistent
	if a.Shard == 0 {
		for _, sql := range []string{"SELECT a FROM t WHERE 1=1; SELECT b FROM u WHERE b = 7", "SELECT a FROM t WHERE 1=1; SELECT SLEEP(5); DELETE FROM t WHERE 'a'='a'", "SELECT a FROM t; SELECT b FROM u WHERE x=x; UPDATE t SET a = LOAD_FILE('f') WHERE 1=1"} {
			for _, ep := range c16EPs()[:2] {
				for _, min := range sevLevels {
					a.Rec.Count("evaluations", 1)
					_, r, err := ep.F(sql, min)
					if err == nil {
						if msg := c16CountsConsistent(r); msg != "" {
							a.Rec.Viol("C16/"+ep.Name+"/counts", "total and per-severity counts equal the findings listed", msg, map[string]interface{}{"sql": sql, "min": string(min)})
						}
					}
				}
			}
		}
	}
	// several findings of different severities in one text: a raised threshold removes exactly those below it, however
	// many of them stand next to each other in the result
	if a.Shard == 0 {
		for _, sql := range []string{
			"SELECT a FROM t WHERE SLEEP(5) = 0 AND BENCHMARK(10, 1) = 0", "SELECT pg_sleep(5), SLEEP(5), BENCHMARK(1, 1) FROM t", "SELECT a FROM t WHERE b = 1 AND SLEEP(5) = 0 -- c",
			"SELECT a FROM t WHERE x = 1 OR 1=1 OR SLEEP(1) = 0 OR BENCHMARK(1, 1) = 0 OR 'a'='a' -- c", "SELECT SLEEP(1), pg_sleep(2), LOAD_FILE('f'), BENCHMARK(3, 4) FROM t WHERE 1=1 /* c */ -- d",
			"SELECT a FROM t WHERE SLEEP(1) = 0; SELECT b FROM u WHERE pg_sleep(2) = 0; SELECT c FROM v WHERE 1=1", "EXEC('x'); EXEC sp_executesql N'y'",
		} {
			for _, ep := range c16EPs() {
				_, all, err := ep.F(sql, security.SeverityLow)
				if err != nil || all == nil {
					continue
				}
				for _, min := range sevLevels[1:] {
					_, rmin, err := ep.F(sql, min)
					if err != nil || rmin == nil {
						continue
					}
					a.Rec.Count("evaluations", 1)
					var want, gotl []string
					for _, f := range all.Findings {
						if sevRank[f.Severity] >= sevRank[min] {
							want = append(want, string(f.Pattern)+"/"+string(f.Severity)+"/"+f.Description)
						}
					}
					for _, f := range rmin.Findings {
						gotl = append(gotl, string(f.Pattern)+"/"+string(f.Severity)+"/"+f.Description)
					}
					sort.Strings(want)
					sort.Strings(gotl)
					if strings.Join(want, "|") != strings.Join(gotl, "|") {
						a.Rec.Viol("C16/"+ep.Name+"/threshold-many/"+string(min), "raising the minimum severity removes exactly the findings below it",
							fmt.Sprintf("min=%s want %v got %v", min, want, gotl), map[string]interface{}{"sql": sql, "findings_at_low": len(all.Findings)})
					}
					if msg := c16CountsConsistent(rmin); msg != "" {
						a.Rec.Viol("C16/"+ep.Name+"/counts", "total and per-severity counts equal the findings listed", msg, map[string]interface{}{"sql": sql, "min": string(min)})
					}
				}
			}
		}
	}
	_ = mon.Hash
}

// c16Repeated: occurrences of one payload do not hide each other.
func c16Repeated(a *ChildArgs) {
	type combo struct {
		name  string
		whole string
		parts []string
	}
	for _, pl := range c16Payloads() {
		for ti, tx := range pl.Texts {
			var cs []combo
			switch pl.Kind {
			case "cond":
				one := "SELECT a FROM t WHERE b = 2 OR " + tx
				cs = append(cs, combo{"script-2", one + ";\n" + one, []string{one, one}},
					combo{"script-2-update", one + "; UPDATE t SET a = 1 WHERE b = 2 OR " + tx, []string{one, "UPDATE t SET a = 1 WHERE b = 2 OR " + tx}},
					combo{"outer-and-in-subquery", "SELECT a FROM t WHERE c IN (SELECT c FROM u WHERE d = 4 OR " + tx + ") AND (b = 2 OR " + tx + ")",
						[]string{"SELECT a FROM t WHERE c IN (SELECT c FROM u WHERE d = 4 OR " + tx + ") AND (b = 2 OR e = 5)", "SELECT a FROM t WHERE c IN (SELECT c FROM u WHERE d = 4 OR e = 5) AND (b = 2 OR " + tx + ")"}},
					combo{"where-and-having", "SELECT a FROM t WHERE b = 2 OR " + tx + " GROUP BY a HAVING a > 1 OR " + tx,
						[]string{"SELECT a FROM t WHERE b = 2 OR " + tx + " GROUP BY a HAVING a > 1 OR e = 5", "SELECT a FROM t WHERE b = 2 OR e = 5 GROUP BY a HAVING a > 1 OR " + tx}})
				var many, parts []string
				for i := 0; i < 40; i++ {
					many = append(many, one)
					parts = append(parts, one)
				}
				cs = append(cs, combo{"script-40", strings.Join(many, ";\n"), parts})
			case "call":
				one := "SELECT a FROM t WHERE a = " + tx
				cs = append(cs, combo{"script-2", one + ";\n" + one, []string{one, one}},
					combo{"outer-and-in-subquery", "SELECT a FROM t WHERE c IN (SELECT c FROM u WHERE d = " + tx + ") AND b = " + tx,
						[]string{"SELECT a FROM t WHERE c IN (SELECT c FROM u WHERE d = " + tx + ") AND b = 7", "SELECT a FROM t WHERE c IN (SELECT c FROM u WHERE d = 7) AND b = " + tx}},
					combo{"select-list-twice", "SELECT " + tx + ", b, " + tx + " FROM t", []string{"SELECT " + tx + ", b, 7 FROM t", "SELECT 7, b, " + tx + " FROM t"}})
			case "union":
				one := "SELECT a, b FROM t WHERE a = 1 " + tx
				cs = append(cs, combo{"script-2", one + ";\n" + one, []string{one, one}},
					combo{"outer-and-in-cte", "WITH c AS (SELECT a, b FROM u " + tx + ") SELECT a, b FROM c " + tx,
						[]string{"WITH c AS (SELECT a, b FROM u " + tx + ") SELECT a, b FROM c", "WITH c AS (SELECT a, b FROM u) SELECT a, b FROM c " + tx}})
			}
			for _, c := range cs {
				for _, ep := range c16EPs() {
					if ep.Name == "Scanner.ScanSQL" {
						continue // reports a pattern once per text, without a location: occurrences are not its unit
					}
					whole, _, err := ep.F(c.whole, security.SeverityLow)
					if err != nil {
						continue
					}
					sum := pairSet{}
					bad := false
					for _, p := range c.parts {
						ps, _, err := ep.F(p, security.SeverityLow)
						if err != nil {
							bad = true
							break
						}
						for k, v := range ps {
							sum[k] += v
						}
					}
					if bad {
						continue
					}
					a.Rec.Count("evaluations", 1)
					a.Rec.Distinct("cases", fmt.Sprintf("repeated/%s/%d/%s/%s", pl.Name, ti, c.name, ep.Name))
					for _, k := range sum.keys() {
						if whole[k] < sum[k] {
							a.Rec.Viol("C16/"+ep.Name+"/repeated/"+pl.Name+"/"+c.name+"/"+k, "reported equally wherever it occurs in that or any nested statement",
								fmt.Sprintf("%s: %d findings %s for the text with every occurrence, %d for its occurrences scanned one at a time", ep.Name, whole[k], k, sum[k]),
								map[string]interface{}{"sql": c.whole, "parts": c.parts, "whole": whole, "sum_of_parts": sum})
							break
						}
					}
				}
			}
		}
	}
}
