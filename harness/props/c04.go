package props

import (
	"context"
	"errors"
	"fmt"
	"math/rand"
	"strings"

	goerrors "github.com/ajitpratap0/GoSQLX/pkg/errors"
	"github.com/ajitpratap0/GoSQLX/pkg/gosqlx"
	"github.com/ajitpratap0/GoSQLX/pkg/models"
	"github.com/ajitpratap0/GoSQLX/pkg/sql/tokenizer"
	"verifharness/dump"
	"verifharness/gen"
	"verifharness/lexgen"
	"verifharness/mon"
)

func init() {
	Registry["C04"] = &Prop{Level: "exploration", Parent: c04Parent, Child: c04Child}
}

func c04Parent(c *mon.Ctx) {
	c.Rule = "lexeme sequences from a reference lexical grammar (every operator and every ordered pair of operators, numbers, strings with every escape, identifiers incl. Unicode, all quoting styles, placeholders, dollar-quoted strings) are joined by every separator class (nothing where a reference max-munch lexer says juxtaposition is unambiguous, blanks, tabs, newlines, CRLF, line / block / empty / mixed comments); the token stream must equal the by-construction list (class, decoded value), end in exactly one EOF, and Tokenizer.Comments must hold the comment texts in order; the same lexeme list under different separator and keyword-case choices must give the same (type, value) sequence, and model statements under different layouts the same parse; ill-formed texts (unterminated comment / string) must be rejected. distinct_nontrivial = distinct generated texts"
	c.DistinctSet = "texts"
	c.Assumptions = []string{"only lexemes of the documented lexical grammar are expected to be accepted; numeric forms the documentation does not define (.5, 1.) are not asserted", "compound keywords (GROUP BY, LEFT JOIN, ...) are kept out of the lexeme lists: their merged token is layout-dependent by design of the token model and judged through the parse-equality clause instead"}
	per := 1500
	if c.Tier == "thorough" {
		per = 60000
	}
	sh := shards("plain", "pairs", 2)
	sh = append(sh, shards("plain", "catalogue", 2)...)
	sh = append(sh, shards("plain", "compound", 1)...)
	sh = append(sh, shards("plain", "soup", 2, "-n", fmt.Sprint(per*4))...)
	sh = append(sh, shards("plain", "random", 10, "-n", fmt.Sprint(per))...)
	sh = append(sh, shards("plain", "statements", 2, "-n", fmt.Sprint(per/2))...)
	res := c.RunShards(sh, 16)
	c.ClassifyDeaths(res, "tokenizing returns")
}

func tokClass(t models.Token) lexgen.Class {
	switch t.Type {
	case models.TokenTypeNumber:
		return lexgen.Number
	case models.TokenTypeString, models.TokenTypeSingleQuotedString, models.TokenTypeTripleSingleQuotedString, models.TokenTypeTripleDoubleQuotedString:
		return lexgen.String
	case models.TokenTypeDoubleQuotedString:
		return lexgen.QIdent
	case models.TokenTypePlaceholder:
		return lexgen.Placeholder
	case models.TokenTypeDollarQuotedString:
		return lexgen.DollarStr
	}
	if t.Quote == '`' {
		return lexgen.Backtick
	}
	if t.Value != "" {
		r := t.Value[0]
		if r == '_' || r >= 'a' && r <= 'z' || r >= 'A' && r <= 'Z' || r >= 0x80 {
			return lexgen.Word
		}
	}
	return lexgen.Op
}

// c04CheckText compares the token stream of one generated text with its construction record.
// ctx is a short context label for identities.
func c04CheckText(a *ChildArgs, idBase string, t lexgen.Text) []models.TokenWithSpan {
	a.Rec.Count("evaluations", 1)
	a.Rec.Distinct("texts", t.S)
	tk := mustTokenizer()
	toks, err := tk.Tokenize([]byte(t.S))
	wit := map[string]interface{}{"text": t.S, "lexemes": lexTexts(t)}
	// the context-aware entry point reads the same text the same way (kinds, values, spans, comments, verdict)
	{
		tk2 := mustTokenizer()
		toks2, err2 := tk2.TokenizeContext(context.Background(), []byte(t.S))
		if (err == nil) != (err2 == nil) || (err == nil && (dump.Dump(toks) != dump.Dump(toks2) || dump.Dump(tk.Comments) != dump.Dump(tk2.Comments))) {
			what := "tokens or comments differ"
			if (err == nil) != (err2 == nil) {
				what = fmt.Sprintf("Tokenize: %v; TokenizeContext: %v", err, err2)
			} else {
				for i := range toks {
					if i >= len(toks2) || dump.Dump(toks[i]) != dump.Dump(toks2[i]) {
						what = fmt.Sprintf("first difference at token %d: %s", i, trunc(dump.Dump(toks[i]), 120))
						if i < len(toks2) {
							what += " vs " + trunc(dump.Dump(toks2[i]), 120)
						}
						break
					}
				}
			}
			a.Rec.Viol(idBase+"/context-entry-differs", "exactly the lexical elements of the input, whichever tokenizing entry point reads it", what, wit)
		}
	}
	if err != nil {
		a.Rec.Viol(idBase+"/rejected/"+errIdentity(err), "every lexeme sequence of the documented lexical grammar is tokenized", "error: "+firstLine(err.Error()), wit)
		return nil
	}
	// exactly one EOF, at the end
	neof := 0
	for _, tw := range toks {
		if tw.Token.Type == models.TokenTypeEOF {
			neof++
		}
	}
	if neof != 1 || len(toks) == 0 || toks[len(toks)-1].Token.Type != models.TokenTypeEOF {
		a.Rec.Viol(idBase+"/eof", "followed by exactly one end-of-input marker", fmt.Sprintf("%d EOF tokens in %d tokens", neof, len(toks)), wit)
	}
	body := toks
	if len(body) > 0 && body[len(body)-1].Token.Type == models.TokenTypeEOF {
		body = body[:len(body)-1]
	}
	// strip any further EOFs for the element-wise comparison
	var elems []models.TokenWithSpan
	for _, tw := range body {
		if tw.Token.Type != models.TokenTypeEOF {
			elems = append(elems, tw)
		}
	}
	if len(elems) != len(t.Lexemes) {
		a.Rec.Viol(idBase+"/count", "exactly the lexical elements of the input, in source order",
			fmt.Sprintf("%d tokens for %d lexemes: got %s", len(elems), len(t.Lexemes), tokTexts(elems)), wit)
		return toks
	}
	for i, lx := range t.Lexemes {
		got := elems[i].Token
		gc := tokClass(got)
		if gc != lx.Class {
			a.Rec.Viol(fmt.Sprintf("%s/class/%s-as-%s", idBase, lx.Class, gc), "each element with its kind (quoted identifiers kept distinct from strings and from keywords)",
				fmt.Sprintf("lexeme %d %q (%s) came back as %s %q (type %s)", i, lx.Text, lx.Class, gc, got.Value, got.Type.String()), wit)
			continue
		}
		want := lx.Value
		eq := got.Value == want
		if lx.Class == lexgen.Word && lx.Keyword {
			eq = strings.EqualFold(got.Value, want)
		}
		if !eq {
			sub := lx.Class.String()
			if lx.Class == lexgen.Op {
				sub = "op:" + lx.Text
			}
			a.Rec.Viol(fmt.Sprintf("%s/value/%s", idBase, sub), "each element with its decoded value",
				fmt.Sprintf("lexeme %d %q: want value %q got %q", i, lx.Text, want, got.Value), wit)
		}
	}
	// comments captured separately with their exact text
	if len(tk.Comments) != len(t.Comments) {
		a.Rec.Viol(idBase+"/comments/count", "each comment captured separately with its exact text", fmt.Sprintf("%d comments captured, %d written", len(tk.Comments), len(t.Comments)), wit)
	} else {
		for i, c := range t.Comments {
			if tk.Comments[i].Text != c.Text {
				a.Rec.Viol(idBase+"/comments/text", "each comment captured separately with its exact text", fmt.Sprintf("comment %d: want %q got %q", i, c.Text, tk.Comments[i].Text), wit)
				break
			}
		}
	}
	return toks
}

func lexTexts(t lexgen.Text) []string {
	var out []string
	for _, l := range t.Lexemes {
		out = append(out, l.Text)
	}
	return out
}

func tokTexts(ts []models.TokenWithSpan) string {
	var out []string
	for _, t := range ts {
		out = append(out, fmt.Sprintf("%s:%q", t.Token.Type.String(), t.Token.Value))
	}
	return strings.Join(out, " ")
}

// kvSeq is the (type, value) sequence with keyword values folded.
func kvSeq(toks []models.TokenWithSpan) string {
	var sb strings.Builder
	for _, t := range toks {
		v := t.Token.Value
		if tokClass(t.Token) == lexgen.Word && t.Token.Type != models.TokenTypeIdentifier {
			v = strings.ToUpper(v)
		}
		fmt.Fprintf(&sb, "%d:%q ", int(t.Token.Type), v)
	}
	return sb.String()
}

func c04Child(a *ChildArgs) {
	ident := func(s string) lexgen.Lexeme { return lexgen.Lexeme{Class: lexgen.Word, Text: s, Value: s} }
	switch a.Phase {
	case "pairs":
		ops := lexgen.AllOps()
		n := 0
		for _, o1 := range ops {
			for _, o2 := range ops {
				n++
				if n%a.NShards != a.Shard {
					continue
				}
				for sep := range lexgen.SepNames {
					lex := []lexgen.Lexeme{ident("a"), o1, o2, ident("b")}
					t := lexgen.Build(lex, []int{0, 1, sep, 1, 0}, nil)
					c04CheckText(a, fmt.Sprintf("C04/oppair/%s %s/%s", o1.Text, o2.Text, lexgen.SepNames[sep]), t)
				}
			}
		}
		a.Rec.Sample("pairs", 1, map[string]string{"text": "a ->>?| b", "note": "every ordered operator pair under every separator class"})
	case "catalogue":
		cat := lexgen.Catalogue()
		reps := []lexgen.Lexeme{ident("x"), {Class: lexgen.Number, Text: "7", Value: "7"}, {Class: lexgen.String, Text: "'s'", Value: "s"}, {Class: lexgen.Op, Text: "(", Value: "("},
			{Class: lexgen.Op, Text: ",", Value: ","}, {Class: lexgen.Op, Text: "-", Value: "-"}, {Class: lexgen.QIdent, Text: `"q"`, Value: "q"}, {Class: lexgen.Word, Text: "SELECT", Value: "SELECT", Keyword: true}}
		n := 0
		for _, lx := range cat {
			for _, rp := range reps {
				n++
				if n%a.NShards != a.Shard {
					continue
				}
				for sep := range lexgen.SepNames {
					for _, order := range []int{0, 1} {
						lex := []lexgen.Lexeme{lx, rp}
						if order == 1 {
							lex = []lexgen.Lexeme{rp, lx}
						}
						t := lexgen.Build(lex, []int{0, sep, sep % 3}, nil)
						c04CheckText(a, fmt.Sprintf("C04/cat/%s/%s/%s", lx.Class, rp.Class, lexgen.SepNames[sep]), t)
					}
				}
			}
		}
		// every unusual comment spelling between two lexemes, tight and spaced
		if a.Shard == 0 {
			for rot := 0; rot < len(lexgen.BlockBodies)*len(lexgen.LineBodies); rot++ {
				lexgen.Rot = rot
				for _, kind := range []int{11, 12} {
					for _, pair := range [][2]lexgen.Lexeme{{ident("a"), ident("b")}, {reps[1], reps[2]}, {reps[5], reps[5]}, {reps[3], reps[7]}} {
						t := lexgen.Build([]lexgen.Lexeme{pair[0], pair[1], ident("z")}, []int{kind, kind, 1, kind}, nil)
						c04CheckText(a, fmt.Sprintf("C04/comment/%s/%d", lexgen.SepNames[kind], rot%14), t)
					}
				}
			}
			lexgen.Rot = 0
		}
		// ill-formed texts must be rejected
		if a.Shard == 0 {
			for name, s := range map[string]string{"unterminated-block-comment": "SELECT a /* never closed", "unterminated-block-comment-2": "SELECT a /* x * / y", "unterminated-string": "SELECT 'abc",
				"unterminated-qident": "SELECT \"abc", "unterminated-backtick": "SELECT `abc", "unterminated-dollar": "SELECT $t$ abc", "unterminated-string-after-comment": "-- c\nSELECT 'x"} {
				a.Rec.Count("evaluations", 1)
				tk := mustTokenizer()
				_, err := tk.Tokenize([]byte(s))
				if err == nil {
					a.Rec.Viol("C04/illformed/"+name+"/accepted", "ill-formed text is rejected, not mis-tokenised", "accepted: "+s, map[string]string{"text": s})
				} else {
					var ge *goerrors.Error
					if !errors.As(err, &ge) || !strings.HasPrefix(string(ge.Code), "E1") {
						a.Rec.Viol("C04/illformed/"+name+"/code", "lexical problems carry a tokenizer code", "error: "+firstLine(err.Error()), map[string]string{"text": s})
					}
				}
			}
		}
	case "compound":
		// compound keywords: the merged token must not depend on what separates the two words
		for _, cw := range [][2]string{{"GROUP", "BY"}, {"ORDER", "BY"}, {"LEFT", "JOIN"}, {"RIGHT", "JOIN"}, {"INNER", "JOIN"}, {"OUTER", "JOIN"}, {"FULL", "JOIN"}, {"CROSS", "JOIN"},
			{"GROUPING", "SETS"}, {"LEFT", "OUTER"}, {"NATURAL", "JOIN"}, {"GROUP", "x"}, {"ORDER", "ORDER"}} {
			for cs := 0; cs < 3; cs++ {
				kc := func(i int, s string) string {
					switch (cs + i) % 3 {
					case 1:
						return strings.ToLower(s)
					case 2:
						return s[:1] + strings.ToLower(s[1:])
					}
					return s
				}
				kw := func(s string) lexgen.Lexeme {
					return lexgen.Lexeme{Class: lexgen.Word, Text: s, Value: s, Keyword: s != "x"}
				}
				lex := []lexgen.Lexeme{ident("t"), kw(cw[0]), kw(cw[1]), ident("c")}
				var ref, refTxt string
				for sep := 1; sep < len(lexgen.SepNames); sep++ {
					t := lexgen.Build(lex, []int{0, 1, sep, 1, 0}, kc)
					a.Rec.Count("evaluations", 1)
					a.Rec.Distinct("texts", t.S)
					tk := mustTokenizer()
					toks, err := tk.Tokenize([]byte(t.S))
					id := fmt.Sprintf("C04/compound/%s %s/%s", cw[0], cw[1], lexgen.SepNames[sep])
					if err != nil {
						a.Rec.Viol(id+"/rejected", "every lexeme sequence of the documented lexical grammar is tokenized", firstLine(err.Error()), map[string]string{"text": t.S})
						continue
					}
					if len(tk.Comments) != len(t.Comments) {
						a.Rec.Viol(id+"/comments", "each comment captured separately with its exact text", fmt.Sprintf("%d comments captured, %d written", len(tk.Comments), len(t.Comments)), map[string]string{"text": t.S})
					}
					kv := kvSeqUpper(toks)
					if ref == "" {
						ref, refTxt = kv, t.S
					} else if kv != ref {
						a.Rec.Viol(id+"/layout-dependent", "changing only whitespace, comments or keyword case never changes the sequence of kinds and values",
							"different (type, value) sequence than with a single blank", map[string]string{"text_a": refTxt, "text_b": t.S, "seq_a": ref, "seq_b": kv})
					}
				}
			}
		}
		// eighth round: an opener followed by a name that merely begins with the second word ("ORDER byé", "LEFT joins",
		// "GROUPING sets_1"): two tokens, the opener alone and the whole name, whatever follows the look-alike prefix
		for _, cw := range [][2]string{{"GROUP", "BY"}, {"ORDER", "BY"}, {"LEFT", "JOIN"}, {"RIGHT", "JOIN"}, {"INNER", "JOIN"}, {"FULL", "JOIN"}, {"CROSS", "JOIN"}, {"NATURAL", "JOIN"},
			{"GROUPING", "SETS"}, {"LEFT", "OUTER"}, {"FULL", "OUTER"}} {
			for ti, tail := range []string{"x", "_1", "9", "\u00e9", "\u65e5\u672c", "\u00c9t\u00e9", "\u0436"} {
				for cs := 0; cs < 2; cs++ {
					second := cw[1]
					if cs == 1 {
						second = strings.ToLower(second)
					}
					name := second + tail
					for si, sep := range []string{" ", "\n", "\t", " /* c */ ", "  "} {
						text := "t " + cw[0] + sep + name + " c"
						a.Rec.Count("evaluations", 1)
						a.Rec.Distinct("texts", text)
						toks, err := mustTokenizer().Tokenize([]byte(text))
						id := fmt.Sprintf("C04/compound-lookalike/%s %s/tail-%d/sep-%d", cw[0], cw[1], ti, si)
						wit := map[string]string{"text": text}
						if err != nil {
							a.Rec.Viol(id+"/rejected", "every lexeme sequence of the documented lexical grammar is tokenized", firstLine(err.Error()), wit)
							continue
						}
						var vals []string
						for _, t := range toks {
							if t.Token.Type != models.TokenTypeEOF {
								vals = append(vals, t.Token.Value)
							}
						}
						if len(vals) != 4 || !strings.EqualFold(vals[1], cw[0]) || vals[2] != name {
							a.Rec.Viol(id+"/split", "maximal munch: a name is one token, and a compound keyword needs its second word to be a whole word",
								fmt.Sprintf("token values %q, want [t %s %s c]", vals, cw[0], name), wit)
						}
					}
				}
			}
		}
	case "soup":
		// texts not built from the reference grammar: character soup over an SQL-ish alphabet. No expectation about
		// acceptance; when the text is accepted, nothing of it may be lost: every byte lies in a token span, in a comment
		// or is blank, spans are ordered, and a token whose kind has no decoding (word, number, operator, placeholder)
		// carries exactly the text of its span
		alphabet := []string{"a", "b", "sel", "FROM", "1", "23", ".", "5e", " ", " ", "\n", "$", "$$", "$x", "@", ":", "?", "'", "''", "\"", "`", "-", "--", "/", "*", "/*", "*/", "(", ")", ",", ";", "=", "<", ">", "!", "|", "&", "#", "~", "%", "+", "[", "]", "\\", "_", "é"}
		base := a.Seed*7919 + int64(a.Shard)*104729 + 3
		for i := 0; i < a.N; i++ {
			r := rand.New(rand.NewSource(base + int64(i)*15485863))
			var sb strings.Builder
			for k := 2 + r.Intn(14); k > 0; k-- {
				sb.WriteString(alphabet[r.Intn(len(alphabet))])
			}
			c04Soup(a, sb.String())
		}
		for _, s := range []string{"SELECT $foo FROM t", "SELECT $abc", "$a b$", "SELECT @order by id", "SELECT @left JOIN x", "SELECT \u017Felect", "\u017Felect 1", "\u0131n", "SELECT 1 \u0131n (1)", "a$b", "$1x", "$$", "x$$y$$", ":a:b", "??", "?|&", "1e", "1.2.3", "..", "1..2"} {
			c04Soup(a, s)
		}
	case "random":
		base := a.Seed*7919 + int64(a.Shard)*104729
		for i := 0; i < a.N; i++ {
			r := rand.New(rand.NewSource(base + int64(i)*15485863))
			n := 3 + r.Intn(22)
			lex := make([]lexgen.Lexeme, n)
			for k := range lex {
				lex[k] = lexgen.RandomLexeme(r)
			}
			var ref string
			var refTxt string
			for v := 0; v < 4; v++ {
				seps := make([]int, n+1)
				for k := range seps {
					switch v {
					case 0:
						seps[k] = 1
					case 1:
						seps[k] = 0
					default:
						seps[k] = r.Intn(len(lexgen.SepNames))
					}
				}
				if v < 2 {
					seps[0], seps[n] = 0, 0
				}
				kc := func(i int, s string) string {
					switch (v + i) % 3 {
					case 1:
						return strings.ToLower(s)
					case 2:
						return s[:1] + strings.ToLower(s[1:])
					}
					return s
				}
				t := lexgen.Build(lex, seps, kc)
				toks := c04CheckText(a, "C04/random/"+[]string{"spaces", "tight", "mixed", "mixed"}[v], t)
				if toks == nil {
					continue
				}
				kv := kvSeq(toks)
				if ref == "" {
					ref, refTxt = kv, t.S
				} else if kv != ref {
					a.Rec.Viol("C04/random/layout-dependent", "changing only whitespace, comments or keyword case never changes the sequence of kinds and values",
						fmt.Sprintf("layout %d gives a different (type, value) sequence", v), map[string]interface{}{"text_a": refTxt, "text_b": t.S, "seq_a": trunc(ref, 400), "seq_b": trunc(kv, 400)})
				}
			}
			if i < 2 {
				a.Rec.Sample("random", 2, map[string]interface{}{"lexemes": len(lex)})
			}
		}
	case "statements":
		avoid := mon.AvoidFeatures()
		base := a.Seed*7919 + int64(a.Shard)*104729
		if a.Shard == 0 {
			// a word that only case-folds to a keyword (Kelvin sign, long s, dotless i) is a name: the statement is judged
			// exactly like the same statement with an ordinary name in that place
			for _, pair := range [][2]string{
				{"SELECT a rli\u212ae 'x' FROM t", "SELECT a rlixe 'x' FROM t"}, {"SELECT a ili\u212ae 'x' FROM t", "SELECT a ilixe 'x' FROM t"},
				{"SELECT GROUP_CONCAT(a \u017feparator ',') FROM t", "SELECT GROUP_CONCAT(a xeparator ',') FROM t"}, {"SELECT a FROM t FOR \u017fhare", "SELECT a FROM t FOR xhare"},
				{"\u017felect a FROM t", "xelect a FROM t"}, {"SELECT \u017fet FROM t", "SELECT xet FROM t"}, {"SELECT \u0131ndex, \u0131nto FROM t", "SELECT xndex, xnto FROM t"},
				{"UPDATE t SET value\u017f = 1", "UPDATE t SET valuex = 1"}, {"SELECT u\u017f\u0131ng FROM t", "SELECT uxxng FROM t"}, {"SELECT a AS \u017fhare FROM t", "SELECT a AS xhare FROM t"}, {"SELECT a FROM t WHERE a \u0131n (1)", "SELECT a FROM t WHERE a xn (1)"},
			} {
				_, e1 := gosqlx.Parse(pair[0])
				_, e2 := gosqlx.Parse(pair[1])
				a.Rec.Count("evaluations", 1)
				a.Rec.Distinct("texts", pair[0])
				if (e1 == nil) != (e2 == nil) {
					a.Rec.Viol("C04/statements/fold-spelled-keyword", "each element with its kind: a word that merely case-folds to a keyword is a name",
						fmt.Sprintf("%q: err=%v; with an ordinary name %q: err=%v", pair[0], e1, pair[1], e2), map[string]interface{}{"text": pair[0], "control": pair[1]})
				}
			}
			// a quoted name or a string in the place of a clause keyword is judged like any other quoted name or string
			// there, whatever it spells
			for _, pair := range [][2]string{
				{"INSERT INTO t VALUES (1) ON \"conflict\" DO NOTHING", "INSERT INTO t VALUES (1) ON \"xonflict\" DO NOTHING"}, {"INSERT INTO t VALUES (1) ON 'conflict' DO NOTHING", "INSERT INTO t VALUES (1) ON 'xonflict' DO NOTHING"},
				{"INSERT INTO t (a) VALUES (1) ON \"duplicate\" KEY UPDATE a = 2", "INSERT INTO t (a) VALUES (1) ON \"xuplicate\" KEY UPDATE a = 2"}, {"INSERT INTO t (a) VALUES (1) ON DUPLICATE 'key' UPDATE a = 2", "INSERT INTO t (a) VALUES (1) ON DUPLICATE 'xey' UPDATE a = 2"},
				{"INSERT INTO t (a) VALUES (1) ON CONFLICT ON \"constraint\" c DO NOTHING", "INSERT INTO t (a) VALUES (1) ON CONFLICT ON \"xonstraint\" c DO NOTHING"},
				{"SELECT MATCH(a) \"against\" ('x') FROM t", "SELECT MATCH(a) \"xgainst\" ('x') FROM t"}, {"SELECT MATCH(a) 'against' ('x') FROM t", "SELECT MATCH(a) 'xgainst' ('x') FROM t"},
				{"SELECT a FROM t WHERE a NOT 'in' (1)", "SELECT a FROM t WHERE a NOT 'xn' (1)"}, {"SELECT a FROM t WHERE a NOT \"like\" 'x'", "SELECT a FROM t WHERE a NOT \"xike\" 'x'"},
				{"SELECT a FROM t WHERE a NOT 'between' 1 AND 2", "SELECT a FROM t WHERE a NOT 'xetween' 1 AND 2"}, {"SELECT a FROM t WHERE a NOT $$ilike$$ 'x'", "SELECT a FROM t WHERE a NOT $$xlike$$ 'x'"},
			} {
				_, e1 := gosqlx.Parse(pair[0])
				_, e2 := gosqlx.Parse(pair[1])
				a.Rec.Count("evaluations", 1)
				a.Rec.Distinct("texts", pair[0])
				if (e1 == nil) != (e2 == nil) {
					a.Rec.Viol("C04/statements/quoted-word-read-as-keyword", "quoted identifiers kept distinct from strings and from keywords",
						fmt.Sprintf("%q: err=%v; with another quoted word %q: err=%v", pair[0], e1, pair[1], e2), map[string]interface{}{"text": pair[0], "control": pair[1]})
				}
			}
			// a literal or quoted name whose whole content spells a keyword (or a compound keyword) is still a literal
			// or a name for the parser: every quoting form the expression grammar takes (triple-quoted strings are lexical only), every such content
			for _, content := range []string{"order by", "GROUP BY", "left join", "FULL OUTER JOIN", "cross join", "grouping sets", "select", "from", "ilike", "separator", "NULL"} {
				forms := map[string]string{"single": "'" + content + "'", "dollar": "$$" + content + "$$", "dollar-tag": "$k$" + content + "$k$", "double": "\"" + content + "\"", "backtick": "`" + content + "`"}
				for fname, lit := range forms {
					for _, ctx := range []string{"SELECT %s FROM t", "SELECT a FROM t WHERE b = %s", "SELECT a, %s AS x FROM t ORDER BY a"} {
						sql := fmt.Sprintf(ctx, lit)
						a.Rec.Count("evaluations", 1)
						a.Rec.Distinct("texts", sql)
						if _, err := mustTokenizer().Tokenize([]byte(sql)); err != nil {
							continue // this quoting form is not part of the lexical grammar (or the content needs escaping)
						}
						if _, err := gosqlx.Parse(sql); err != nil {
							a.Rec.Viol("C04/statements/literal-read-as-keyword/"+fname+"/"+strings.ToUpper(content), "each element with its kind: the text of a literal or quoted name is never a keyword",
								"rejected: "+firstLine(err.Error()), map[string]interface{}{"text": sql})
						}
					}
				}
			}
		}
		for i := 0; i < a.N; i++ {
			seed := base + int64(i)*15485863
			g := gen.New(rand.New(rand.NewSource(seed)), avoid)
			x := g.Statement(2)
			var refTree, refSQL string
			for v := 0; v < 4; v++ {
				lay := gen.Layout{R: rand.New(rand.NewSource(seed + int64(v))), KwCase: v % 3, Sep: v}
				sql := gen.Render(x.Toks, lay)
				a.Rec.Count("evaluations", 1)
				a.Rec.Distinct("texts", sql)
				tree, err := gosqlx.Parse(sql)
				if err != nil {
					if v == 0 {
						break
					}
					a.Rec.Viol("C04/statements/layout-changes-acceptance", "changing layout never changes the parse", "layout "+fmt.Sprint(v)+" rejected: "+firstLine(err.Error()), map[string]interface{}{"text_a": refSQL, "text_b": sql})
					continue
				}
				d := dump.Tree(tree).String()
				if v == 0 {
					refTree, refSQL = d, sql
				} else if d != refTree {
					a.Rec.Viol("C04/statements/layout-changes-parse", "changing layout never changes the parse", dump.Diff(dump.Tree(mustParse(refSQL)), dump.Tree(tree)), map[string]interface{}{"text_a": refSQL, "text_b": sql})
				}
			}
		}
	}
}

// kvSeqUpper is kvSeq with every word value upper-cased (for keyword-only texts).
func kvSeqUpper(toks []models.TokenWithSpan) string {
	var sb strings.Builder
	for _, t := range toks {
		fmt.Fprintf(&sb, "%d:%q ", int(t.Token.Type), strings.ToUpper(t.Token.Value))
	}
	return sb.String()
}

// c04Soup applies the nothing-is-lost oracle to an arbitrary text.
func c04Soup(a *ChildArgs, text string) {
	a.Rec.Count("evaluations", 1)
	a.Rec.Distinct("texts", text)
	tk := mustTokenizer()
	toks, err := tk.Tokenize([]byte(text))
	if err != nil {
		a.Rec.Count("soup_rejected", 1)
		return
	}
	a.Rec.Count("soup_accepted", 1)
	// a word with a non-ASCII letter is a name, never a keyword (ſ and ı fold to ASCII letters under ToUpper)
	for i, t := range toks {
		if t.Token.Type != models.TokenTypeIdentifier && t.Token.Quote == 0 && tokClass(t.Token) == lexgen.Word && !isASCII(t.Token.Value) {
			a.Rec.Viol("C04/soup/non-ascii-keyword", "each element with its kind", fmt.Sprintf("token %d %q (type %v) contains a non-ASCII letter and is typed as a keyword", i, t.Token.Value, t.Token.Type), map[string]interface{}{"text": text, "tokens": tokTexts(toks)})
			return
		}
	}
	lines := linesOf(text)
	plain := true
	for _, l := range lines {
		if !l.plain {
			plain = false
		}
	}
	if !plain {
		return // columns are only exact on ASCII tab-free lines
	}
	wit := map[string]interface{}{"text": text, "tokens": tokTexts(toks)}
	off := func(l models.Location) int {
		if l.Line < 1 || l.Line > len(lines) || l.Column < 1 {
			return -1
		}
		o := lines[l.Line-1].start + l.Column - 1
		if o > len(text) {
			return -1
		}
		return o
	}
	covered := make([]bool, len(text))
	prevEnd := 0
	for i, t := range toks {
		if t.Token.Type == models.TokenTypeEOF {
			continue
		}
		s0, e0 := off(t.Start), off(t.End)
		if s0 < 0 || e0 < s0 || e0 > len(text) || s0 < prevEnd {
			a.Rec.Viol("C04/soup/span", "exactly the lexical elements of the input, in source order", fmt.Sprintf("token %d %q has span %v-%v (offsets %d-%d, previous end %d)", i, t.Token.Value, t.Start, t.End, s0, e0, prevEnd), wit)
			return
		}
		prevEnd = e0
		for k := s0; k < e0; k++ {
			covered[k] = true
		}
		src := text[s0:e0]
		// a parameter, number or operator is one lexeme: it never extends over a blank (only keywords are merged
		// into compound tokens)
		if cl := tokClass(t.Token); (cl == lexgen.Placeholder || cl == lexgen.Number || cl == lexgen.Op) && strings.ContainsAny(src, " \n\t") {
			a.Rec.Viol("C04/soup/merged-lexemes/"+cl.String(), "nothing added, dropped or merged", fmt.Sprintf("token %d %q covers the text %q: two lexemes in one token", i, t.Token.Value, src), wit)
			return
		}
		switch tokClass(t.Token) {
		case lexgen.Word, lexgen.Number, lexgen.Op, lexgen.Placeholder:
			norm := func(x string) string { return strings.ToUpper(strings.Join(strings.Fields(stripComments(x)), " ")) }
			if norm(src) != norm(t.Token.Value) {
				a.Rec.Viol("C04/soup/value-vs-span/"+tokClass(t.Token).String(), "each element with its value; nothing added, dropped or merged", fmt.Sprintf("token %d has value %q but covers the text %q", i, t.Token.Value, src), wit)
				return
			}
		}
	}
	for _, c := range tk.Comments {
		s0, e0 := off(c.Start), off(c.End)
		if s0 >= 0 && e0 >= s0 && e0 <= len(text) {
			for k := s0; k < e0; k++ {
				covered[k] = true
			}
		}
	}
	for k := 0; k < len(text); k++ {
		if !covered[k] && text[k] != ' ' && text[k] != '\n' && text[k] != '\r' {
			a.Rec.Viol("C04/soup/byte-lost", "nothing of the input is dropped", fmt.Sprintf("byte %d %q belongs to no token and no comment", k, text[k]), wit)
			return
		}
	}
}

// stripComments removes /* */ and -- comments (for compound keywords merged across a comment).
func stripComments(s string) string {
	for {
		i := strings.Index(s, "/*")
		if i < 0 {
			break
		}
		j := strings.Index(s[i+2:], "*/")
		if j < 0 {
			break
		}
		s = s[:i] + " " + s[i+2+j+2:]
	}
	for {
		i := strings.Index(s, "--")
		if i < 0 {
			break
		}
		j := strings.IndexByte(s[i:], '\n')
		if j < 0 {
			s = s[:i]
			break
		}
		s = s[:i] + " " + s[i+j:]
	}
	return s
}

func mustParse(sql string) interface{} {
	a, _ := gosqlx.Parse(sql)
	return a
}

var _ = tokenizer.MaxTokens

func isASCII(s string) bool {
	for i := 0; i < len(s); i++ {
		if s[i] >= 0x80 {
			return false
		}
	}
	return true
}
