package gen

import (
	"fmt"
	"strings"

	"verifharness/dump"
)

// TableRef is a FROM / JOIN item.
type TableRef struct {
	Name    string // written name (possibly qualified); empty for a derived table
	Alias   string
	AsKw    bool // AS written
	Sub     *X   // derived table
	Lateral bool
}

func (g *G) tableRef(tr TableRef) (*dump.T, []Tok) {
	t := dump.N("TableReference", "Name", tr.Name, "Alias", tr.Alias, "Lateral", tr.Lateral)
	var toks []Tok
	if tr.Lateral {
		toks = cat(toks, kw("LATERAL"))
	}
	if tr.Sub != nil {
		t.F["Subquery"] = tr.Sub.T
		toks = cat(toks, paren(tr.Sub.Toks))
	} else {
		g.P.Tables[tr.Name] = true
		toks = append(toks, sym(tr.Name))
	}
	if tr.Alias != "" {
		if tr.AsKw {
			toks = cat(toks, kw("AS"))
		}
		toks = append(toks, sym(tr.Alias))
	}
	return t, toks
}

// Join is one JOIN clause.
type Join struct {
	Kind  string // INNER, LEFT, RIGHT, FULL, CROSS, NATURAL INNER, ...
	Words string // the keywords as written, e.g. "LEFT OUTER JOIN"
	Right TableRef
	On    *X
	Using []string
}

// SelectSpec is the model of one SELECT block.
type SelectSpec struct {
	Distinct   bool
	DistinctOn []X
	AllKw      bool
	Cols       []SelCol
	From       []TableRef
	Joins      []Join
	Where      *X
	GroupBy    []X
	Having     *X
	OrderBy    []OrderItem
	Limit      *int
	Offset     *int
	OffsetRows string // "", ROW, ROWS
	Fetch      *FetchSpec
	For        *ForSpec
	With       *WithSpec
}

type SelCol struct {
	E     X
	Alias string
	AsKw  bool
}

type FetchSpec struct {
	First   bool // FIRST vs NEXT
	N       int64
	Percent bool
	Rows    string // ROW / ROWS / ""
	Ties    bool
	Only    bool // ONLY written
}

type ForSpec struct {
	Lock   string // UPDATE, SHARE, NO KEY UPDATE, KEY SHARE
	Of     []string
	NoWait bool
	Skip   bool
}

type CTE struct {
	Name string
	Cols []string
	Mat  int // 0 none, 1 MATERIALIZED, 2 NOT MATERIALIZED
	Q    X
}

type WithSpec struct {
	Recursive bool
	CTEs      []CTE
}

func (g *G) withClause(w *WithSpec) (*dump.T, []Tok) {
	t := dump.N("WithClause", "Recursive", w.Recursive)
	toks := kw("WITH")
	if w.Recursive {
		toks = cat(toks, kw("RECURSIVE"))
	}
	var cts []*dump.T
	for i, c := range w.CTEs {
		if i > 0 {
			toks = append(toks, sym(","))
		}
		ct := dump.N("CommonTableExpr", "Name", c.Name, "Statement", c.Q.T)
		toks = append(toks, sym(c.Name))
		if len(c.Cols) > 0 {
			var cs []*dump.T
			toks = append(toks, sym("("))
			for j, cn := range c.Cols {
				if j > 0 {
					toks = append(toks, sym(","))
				}
				toks = append(toks, sym(cn))
				cs = append(cs, dump.Str(cn))
				g.P.Forbidden[cn] = true
			}
			toks = append(toks, sym(")"))
			ct.Set("Columns", cs)
		}
		toks = cat(toks, kw("AS"))
		switch c.Mat {
		case 1:
			toks = cat(toks, kw("MATERIALIZED"))
			ct.F["Materialized"] = dump.PtrBool(true)
		case 2:
			toks = cat(toks, kw("NOT MATERIALIZED"))
			ct.F["Materialized"] = dump.PtrBool(false)
		}
		toks = cat(toks, paren(c.Q.Toks))
		cts = append(cts, ct)
	}
	t.Set("CTEs", cts)
	return t, toks
}

// Select renders a SelectSpec. The returned X has Prec 0 (statement).
func (g *G) Select(s *SelectSpec) X {
	t := dump.N("SelectStatement", "Distinct", s.Distinct)
	var toks []Tok
	if s.With != nil {
		wt, wtoks := g.withClause(s.With)
		t.F["With"] = wt
		toks = cat(toks, wtoks)
	}
	toks = cat(toks, kw("SELECT"))
	if s.Distinct {
		toks = cat(toks, kw("DISTINCT"))
		if len(s.DistinctOn) > 0 {
			toks = cat(toks, kw("ON"), one(sym("(")))
			var ts []*dump.T
			for i, e := range s.DistinctOn {
				if i > 0 {
					toks = append(toks, sym(","))
				}
				toks = cat(toks, g.wrap(e, PrecOr))
				ts = append(ts, e.T)
			}
			toks = append(toks, sym(")"))
			t.Set("DistinctOnColumns", ts)
		}
	} else if s.AllKw {
		toks = cat(toks, kw("ALL"))
	}
	var cts []*dump.T
	for i, c := range s.Cols {
		if i > 0 {
			toks = append(toks, sym(","))
		}
		ct := c.E.T
		// a select item is never wrapped in redundant parentheses at top level when it is "*"
		if isStar(c.E) {
			toks = cat(toks, c.E.Toks)
		} else {
			toks = cat(toks, g.wrap(c.E, PrecOr))
		}
		if c.Alias != "" {
			if c.AsKw {
				toks = cat(toks, kw("AS"))
			}
			toks = append(toks, sym(c.Alias))
			ct = dump.N("AliasedExpression", "Expr", c.E.T, "Alias", c.Alias)
		}
		cts = append(cts, ct)
	}
	t.Set("Columns", cts)
	if len(s.From) > 0 {
		toks = cat(toks, kw("FROM"))
		var fts []*dump.T
		for i, f := range s.From {
			if i > 0 {
				toks = append(toks, sym(","))
			}
			ft, ftoks := g.tableRef(f)
			fts = append(fts, ft)
			toks = cat(toks, ftoks)
		}
		t.Set("From", fts)
		var jts []*dump.T
		for _, j := range s.Joins {
			toks = cat(toks, kw(j.Words))
			rt, rtoks := g.tableRef(j.Right)
			toks = cat(toks, rtoks)
			jt := dump.N("JoinClause", "Type", j.Kind, "Right", rt)
			if j.On != nil {
				toks = cat(toks, kw("ON"), g.wrap(*j.On, PrecOr))
				jt.F["Condition"] = j.On.T
			} else if len(j.Using) > 0 {
				toks = cat(toks, kw("USING"), one(sym("(")))
				var us []*dump.T
				for k, u := range j.Using {
					if k > 0 {
						toks = append(toks, sym(","))
					}
					toks = append(toks, sym(u))
					us = append(us, dump.N("Identifier", "Name", u))
					g.P.Columns[u] = true
					g.P.QColumns[u] = true
				}
				toks = append(toks, sym(")"))
				if len(us) == 1 {
					jt.F["Condition"] = us[0]
				} else {
					jt.F["Condition"] = dump.N("ListExpression", "Values", us)
				}
			}
			jts = append(jts, jt)
		}
		t.Set("Joins", jts)
	}
	if s.Where != nil {
		toks = cat(toks, kw("WHERE"), g.wrap(*s.Where, PrecOr))
		t.F["Where"] = s.Where.T
	}
	if len(s.GroupBy) > 0 {
		toks = cat(toks, kw("GROUP BY"))
		var ts []*dump.T
		for i, e := range s.GroupBy {
			if i > 0 {
				toks = append(toks, sym(","))
			}
			if e.Prec == 0 { // grouping construct: never parenthesised
				toks = cat(toks, e.Toks)
			} else {
				toks = cat(toks, g.wrap(e, PrecOr))
			}
			ts = append(ts, e.T)
		}
		t.Set("GroupBy", ts)
	}
	if s.Having != nil {
		toks = cat(toks, kw("HAVING"), g.wrap(*s.Having, PrecOr))
		t.F["Having"] = s.Having.T
	}
	if len(s.OrderBy) > 0 {
		ots, otoks := g.orderList(s.OrderBy)
		toks = cat(toks, kw("ORDER BY"), otoks)
		t.Set("OrderBy", ots)
	}
	if s.Limit != nil {
		toks = cat(toks, kw("LIMIT"), one(sym(fmt.Sprint(*s.Limit))))
		t.F["Limit"] = dump.PtrInt(int64(*s.Limit))
	}
	if s.Offset != nil {
		toks = cat(toks, kw("OFFSET"), one(sym(fmt.Sprint(*s.Offset))))
		if s.OffsetRows != "" {
			toks = cat(toks, kw(s.OffsetRows))
		}
		t.F["Offset"] = dump.PtrInt(int64(*s.Offset))
	}
	if s.Fetch != nil {
		f := s.Fetch
		ft := dump.N("FetchClause", "FetchValue", dump.PtrInt(f.N), "IsPercent", f.Percent, "WithTies", f.Ties)
		toks = cat(toks, kw("FETCH"))
		if f.First {
			toks = cat(toks, kw("FIRST"))
			ft.Set("FetchType", "FIRST")
		} else {
			toks = cat(toks, kw("NEXT"))
			ft.Set("FetchType", "NEXT")
		}
		toks = append(toks, sym(fmt.Sprint(f.N)))
		if f.Percent {
			toks = cat(toks, kw("PERCENT"))
		}
		if f.Rows != "" {
			toks = cat(toks, kw(f.Rows))
		}
		if f.Ties {
			toks = cat(toks, kw("WITH TIES"))
		} else if f.Only {
			toks = cat(toks, kw("ONLY"))
		}
		t.F["Fetch"] = ft
	}
	if s.For != nil {
		f := s.For
		ft := dump.N("ForClause", "LockType", f.Lock, "NoWait", f.NoWait, "SkipLocked", f.Skip)
		toks = cat(toks, kw("FOR"), kw(f.Lock))
		if len(f.Of) > 0 {
			toks = cat(toks, kw("OF"))
			var ts []*dump.T
			for i, n := range f.Of {
				if i > 0 {
					toks = append(toks, sym(","))
				}
				toks = append(toks, sym(n))
				ts = append(ts, dump.Str(n))
			}
			ft.Set("Tables", ts)
		}
		if f.NoWait {
			toks = cat(toks, kw("NOWAIT"))
		} else if f.Skip {
			toks = cat(toks, kw("SKIP LOCKED"))
		}
		t.F["For"] = ft
	}
	return X{T: t, Toks: toks}
}

func isStar(x X) bool {
	return len(x.Toks) == 1 && (x.Toks[0].S == "*" || strings.HasSuffix(x.Toks[0].S, ".*"))
}

// SetOp builds l op [ALL] r (left-associative chain handled by the caller).
func (g *G) SetOp(op string, all bool, l, r X) X {
	toks := cat(l.Toks, kw(op))
	if all {
		toks = cat(toks, kw("ALL"))
	}
	toks = cat(toks, r.Toks)
	return X{T: dump.N("SetOperation", "Left", l.T, "Operator", op, "Right", r.T, "All", all), Toks: toks}
}

// Rollup / Cube / GroupingSets grouping constructs (Prec 0 so they are never parenthesised).
func (g *G) Rollup(kind string, xs []X) X {
	typ := "RollupExpression"
	if kind == "CUBE" {
		typ = "CubeExpression"
	}
	var ts []*dump.T
	toks := cat(kw(kind), one(sym("(")))
	for i, x := range xs {
		if i > 0 {
			toks = append(toks, sym(","))
		}
		toks = cat(toks, g.wrap(x, PrecOr))
		ts = append(ts, x.T)
	}
	toks = append(toks, sym(")"))
	return X{T: dump.N(typ, "Expressions", ts), Toks: toks}
}

func (g *G) GroupingSets(sets [][]X) X {
	toks := cat(kw("GROUPING SETS"), one(sym("(")))
	var outer []*dump.T
	for i, set := range sets {
		if i > 0 {
			toks = append(toks, sym(","))
		}
		toks = append(toks, sym("("))
		var inner []*dump.T
		for j, x := range set {
			if j > 0 {
				toks = append(toks, sym(","))
			}
			toks = cat(toks, g.wrap(x, PrecOr))
			inner = append(inner, x.T)
		}
		toks = append(toks, sym(")"))
		if len(inner) == 0 {
			outer = append(outer, dump.Raw("nil"))
		} else {
			outer = append(outer, dump.List(inner...))
		}
	}
	toks = append(toks, sym(")"))
	return X{T: dump.N("GroupingSetsExpression", "Sets", outer), Toks: toks}
}

// ---------- random SELECT ----------

func (g *G) tableName() string {
	if len(g.CTENames) > 0 && g.R.Intn(3) == 0 {
		return g.CTENames[g.R.Intn(len(g.CTENames))]
	}
	if g.R.Intn(6) == 0 && g.ok("qualified-table") {
		return g.pick([]string{"public", "s1", "db"}) + "." + g.pick(tblNames)
	}
	return g.pick(tblNames)
}

func (g *G) randTableRef(d int, allowDerived bool) TableRef {
	tr := TableRef{}
	if allowDerived && d > 0 && g.R.Intn(5) == 0 && g.ok("derived-table") {
		q := g.Select(g.randSelectSpec(d-1, false))
		tr.Sub = &q
		tr.Alias = g.alias()
		tr.AsKw = g.R.Intn(2) == 0
		if g.R.Intn(4) == 0 && g.ok("lateral") {
			tr.Lateral = true
		}
		return tr
	}
	tr.Name = g.tableName()
	if g.R.Intn(2) == 0 {
		tr.Alias = g.alias()
		tr.AsKw = g.R.Intn(2) == 0
	}
	return tr
}

var joinKinds = [][2]string{
	{"INNER", "JOIN"}, {"INNER", "INNER JOIN"}, {"LEFT", "LEFT JOIN"}, {"LEFT", "LEFT OUTER JOIN"},
	{"RIGHT", "RIGHT JOIN"}, {"RIGHT", "RIGHT OUTER JOIN"}, {"FULL", "FULL JOIN"}, {"FULL", "FULL OUTER JOIN"},
	{"CROSS", "CROSS JOIN"}, {"NATURAL INNER", "NATURAL JOIN"}, {"NATURAL LEFT", "NATURAL LEFT JOIN"},
}

func (g *G) randJoin(d int) Join {
	k := joinKinds[g.R.Intn(len(joinKinds))]
	if strings.HasPrefix(k[0], "NATURAL") && !g.ok("natural-join") {
		k = joinKinds[0]
	}
	j := Join{Kind: k[0], Words: k[1], Right: g.randTableRef(d, true)}
	if j.Right.Lateral && !g.ok("lateral-join") {
		j.Right.Lateral = false
	}
	if k[0] == "CROSS" || strings.HasPrefix(k[0], "NATURAL") {
		return j
	}
	if g.R.Intn(4) == 0 && g.ok("join-using") {
		n := 1 + g.R.Intn(2)
		for i := 0; i < n; i++ {
			j.Using = append(j.Using, g.pick(colNames))
		}
		return j
	}
	on := g.Bool_(d)
	j.On = &on
	return j
}

func (g *G) randSelectSpec(d int, top bool) *SelectSpec {
	if d < 0 {
		d = 0
	}
	s := &SelectSpec{}
	if g.R.Intn(6) == 0 && g.ok("distinct") {
		s.Distinct = true
		if g.R.Intn(3) == 0 && g.ok("distinct-on") {
			s.DistinctOn = []X{g.Val(d)}
		}
	} else if g.R.Intn(20) == 0 && g.ok("select-all") {
		s.AllKw = true
	}
	n := 1 + g.R.Intn(3)
	for i := 0; i < n; i++ {
		c := SelCol{}
		switch g.R.Intn(10) {
		case 0:
			c.E = g.Star()
		case 1:
			if g.ok("qualified-star") {
				tn := g.pick(tblNames)
				c.E = X{T: dump.N("Identifier", "Name", "*", "Table", tn), Toks: one(sym(tn + ".*")), Prec: PrecPrimary}
			} else {
				c.E = g.Val(d)
			}
		case 2, 3:
			if g.ok("bool-as-value") {
				c.E = g.Bool_(d)
			} else {
				c.E = g.Val(d)
			}
		default:
			c.E = g.Val(d)
		}
		if !isStar(c.E) && g.R.Intn(3) == 0 {
			c.Alias = g.alias()
			c.AsKw = true
			if g.R.Intn(3) == 0 && g.ok("implicit-alias") && c.E.T.Type != "Identifier" {
				c.AsKw = false
			}
		}
		s.Cols = append(s.Cols, c)
	}
	if g.R.Intn(10) != 0 || g.NeedFrom > 0 {
		nf := 1
		if g.R.Intn(5) == 0 {
			nf = 2
		}
		for i := 0; i < nf; i++ {
			s.From = append(s.From, g.randTableRef(d, true))
		}
		nj := 0
		switch g.R.Intn(6) {
		case 0:
			nj = 1
		case 1:
			nj = 2
		}
		for i := 0; i < nj; i++ {
			s.Joins = append(s.Joins, g.randJoin(d))
		}
	}
	hasFrom := len(s.From) > 0 // WHERE / GROUP BY without FROM is not part of the documented surface
	if hasFrom && g.R.Intn(2) == 0 {
		w := g.Bool_(d)
		s.Where = &w
	}
	if hasFrom && g.R.Intn(5) == 0 {
		ng := 1 + g.R.Intn(2)
		for i := 0; i < ng; i++ {
			switch {
			case g.R.Intn(8) == 0 && g.ok("rollup"):
				s.GroupBy = append(s.GroupBy, g.Rollup(g.pick([]string{"ROLLUP", "CUBE"}), []X{g.Val(0), g.Val(0)}))
			case g.R.Intn(10) == 0 && g.ok("grouping-sets"):
				s.GroupBy = append(s.GroupBy, g.GroupingSets([][]X{{g.Val(0)}, {g.Val(0), g.Val(0)}, {}}))
			default:
				s.GroupBy = append(s.GroupBy, g.Val(d))
			}
		}
		if g.R.Intn(2) == 0 {
			h := g.Bool_(d)
			s.Having = &h
		}
	} else if hasFrom && g.R.Intn(14) == 0 && g.ok("having-without-group-by") {
		// the whole result is one group
		g.use("having-without-group-by")
		h := g.Bool_(d)
		s.Having = &h
	}
	if top && hasFrom {
		if g.R.Intn(4) == 0 {
			s.OrderBy = g.randOrder(d, 2)
			// ordering by an output name: the alias of a select item, which is not a column reference
			if g.ok("order-by-alias") {
				for _, c := range s.Cols {
					if c.Alias != "" && g.R.Intn(2) == 0 {
						g.use("order-by-alias")
						s.OrderBy = append(s.OrderBy, OrderItem{E: X{T: dump.N("Identifier", "Name", c.Alias), Toks: one(sym(c.Alias)), Prec: PrecPrimary}, Desc: g.R.Intn(2) == 0})
						break
					}
				}
			}
		}
		if g.R.Intn(5) == 0 {
			l := g.R.Intn(100)
			s.Limit = &l
		}
		if g.R.Intn(8) == 0 {
			o := g.R.Intn(50)
			s.Offset = &o
			if s.Limit == nil && g.R.Intn(2) == 0 && g.ok("offset-rows") {
				s.OffsetRows = g.pick([]string{"ROW", "ROWS"})
			}
		}
		if s.Limit == nil && g.R.Intn(10) == 0 && g.ok("fetch") {
			f := &FetchSpec{First: g.R.Intn(2) == 0, N: int64(1 + g.R.Intn(20)), Rows: g.pick([]string{"ROW", "ROWS"})}
			switch g.R.Intn(3) {
			case 0:
				f.Only = true
			case 1:
				f.Ties = true
			}
			if g.R.Intn(4) == 0 {
				f.Percent = true
			}
			s.Fetch = f
		}
		if g.R.Intn(12) == 0 && g.ok("for-lock") {
			f := &ForSpec{Lock: g.pick([]string{"UPDATE", "SHARE", "NO KEY UPDATE", "KEY SHARE"})}
			if g.R.Intn(3) == 0 {
				f.Of = []string{g.pick(tblNames)}
			}
			switch g.R.Intn(3) {
			case 0:
				f.NoWait = true
			case 1:
				f.Skip = true
			}
			s.For = f
		}
	}
	return s
}

// SimpleQuery is a sub-query (no ORDER BY / LIMIT), possibly a set operation.
func (g *G) SimpleQuery(d int) X {
	q := g.Select(g.randSelectSpec(d, false))
	if d > 0 && g.R.Intn(8) == 0 && g.ok("setop-in-subquery") {
		q = g.SetOp(g.pick([]string{"UNION", "EXCEPT", "INTERSECT"}), g.R.Intn(2) == 0, q, g.Select(g.randSelectSpec(d-1, false)))
	}
	return q
}

// Query is a top-level query: select, set-operation chain, optionally with CTEs.
func (g *G) Query(d int) X {
	var with *WithSpec
	if g.R.Intn(6) == 0 && g.ok("cte") {
		with = &WithSpec{Recursive: g.R.Intn(4) == 0 && g.ok("cte-recursive")}
		n := 1 + g.R.Intn(2)
		for i := 0; i < n; i++ {
			c := CTE{Name: fmt.Sprintf("cte%d", i+1)}
			if g.R.Intn(3) == 0 {
				c.Cols = []string{"cc1", "cc2"}[:1+g.R.Intn(2)]
			}
			if g.R.Intn(5) == 0 && g.ok("cte-materialized") {
				c.Mat = 1 + g.R.Intn(2)
			}
			c.Q = g.SimpleQuery(d - 1)
			with.CTEs = append(with.CTEs, c)
			g.CTENames = append(g.CTENames, c.Name)
		}
	}
	if g.R.Intn(6) == 0 && g.ok("setop") {
		first := g.randSelectSpec(d, false)
		first.With = with
		n := 1 + g.R.Intn(2)
		qs := []X{g.Select(first)}
		var ops []string
		var alls []bool
		op := g.pick([]string{"UNION", "EXCEPT", "INTERSECT"})
		for i := 0; i < n; i++ {
			if g.ok("setop-mixed") {
				op = g.pick([]string{"UNION", "EXCEPT", "INTERSECT"})
				if op == "INTERSECT" && !g.ok("setop-intersect-after-union") && len(ops) > 0 && ops[len(ops)-1] != "INTERSECT" {
					op = ops[len(ops)-1]
				}
			}
			ops = append(ops, op)
			alls = append(alls, g.R.Intn(2) == 0)
			qs = append(qs, g.Select(g.randSelectSpec(d, false)))
		}
		return g.SetChain(qs, ops, alls)
	}
	s := g.randSelectSpec(d, true)
	s.With = with
	return g.Select(s)
}

// SetChain builds q0 op1 q1 op2 q2 … as written without parentheses; the model
// tree follows the standard: INTERSECT binds tighter than UNION / EXCEPT, each
// level associates to the left.
func (g *G) SetChain(qs []X, ops []string, alls []bool) X {
	// first pass: fold INTERSECT runs
	type item struct {
		x X
	}
	curQ := []X{qs[0]}
	var curOps []string
	var curAll []bool
	for i, op := range ops {
		if op == "INTERSECT" {
			l := curQ[len(curQ)-1]
			r := qs[i+1]
			m := X{T: dump.N("SetOperation", "Left", l.T, "Operator", op, "Right", r.T, "All", alls[i])}
			m.Toks = g.setToks(l, op, alls[i], r)
			curQ[len(curQ)-1] = m
		} else {
			curQ = append(curQ, qs[i+1])
			curOps = append(curOps, op)
			curAll = append(curAll, alls[i])
		}
	}
	acc := curQ[0]
	for i, op := range curOps {
		r := curQ[i+1]
		m := X{T: dump.N("SetOperation", "Left", acc.T, "Operator", op, "Right", r.T, "All", curAll[i])}
		m.Toks = g.setToks(acc, op, curAll[i], r)
		acc = m
	}
	return acc
}

func (g *G) setToks(l X, op string, all bool, r X) []Tok {
	toks := cat(l.Toks, kw(op))
	if all {
		toks = cat(toks, kw("ALL"))
	}
	return cat(toks, r.Toks)
}
