package gen

import (
	"fmt"

	"verifharness/dump"
)

func (g *G) identList(names []string, asColumns bool) ([]*dump.T, []Tok) {
	var ts []*dump.T
	toks := one(sym("("))
	for i, n := range names {
		if i > 0 {
			toks = append(toks, sym(","))
		}
		toks = append(toks, sym(n))
		ts = append(ts, dump.N("Identifier", "Name", n))
		if asColumns {
			g.P.Columns[n] = true
			g.P.QColumns[n] = true
		}
	}
	toks = append(toks, sym(")"))
	return ts, toks
}

func (g *G) strList(names []string) ([]*dump.T, []Tok) {
	var ts []*dump.T
	toks := one(sym("("))
	for i, n := range names {
		if i > 0 {
			toks = append(toks, sym(","))
		}
		toks = append(toks, sym(n))
		ts = append(ts, dump.Str(n))
	}
	toks = append(toks, sym(")"))
	return ts, toks
}

func (g *G) someCols(n int) []string {
	seen := map[string]bool{}
	var out []string
	for len(out) < n {
		c := g.pick(colNames)
		if !seen[c] {
			seen[c] = true
			out = append(out, c)
		}
	}
	return out
}

func (g *G) returning(d int) ([]*dump.T, []Tok) {
	toks := kw("RETURNING")
	var ts []*dump.T
	n := 1 + g.R.Intn(2)
	for i := 0; i < n; i++ {
		if i > 0 {
			toks = append(toks, sym(","))
		}
		var e X
		if i == 0 && g.R.Intn(3) == 0 {
			e = g.Star()
			toks = cat(toks, e.Toks)
		} else {
			e = g.Val(d)
			toks = cat(toks, g.wrap(e, PrecOr))
		}
		ts = append(ts, e.T)
	}
	return ts, toks
}

func (g *G) setList(d int, typ string) ([]*dump.T, []Tok) {
	var ts []*dump.T
	var toks []Tok
	cols := g.someCols(1 + g.R.Intn(2))
	for i, c := range cols {
		if i > 0 {
			toks = append(toks, sym(","))
		}
		v := g.Val(d)
		if typ == "SetClause" && g.SetQual != "" && g.R.Intn(3) == 0 && g.ok("merge-qualified-set") {
			// a MERGE assignment target qualified with the target table or its alias: kept as one dotted name
			g.use("merge-qualified-set")
			toks = cat(toks, one(sym(g.SetQual+"."+c)), one(sym("=")), g.wrap(v, PrecOr))
			g.P.Columns[c] = true
			g.P.QColumns[g.SetQual+"."+c] = true
			ts = append(ts, dump.N("SetClause", "Column", g.SetQual+"."+c, "Value", v.T))
			continue
		}
		toks = cat(toks, one(sym(c)), one(sym("=")), g.wrap(v, PrecOr))
		g.P.Columns[c] = true
		g.P.QColumns[c] = true
		if typ == "SetClause" {
			ts = append(ts, dump.N("SetClause", "Column", c, "Value", v.T))
		} else {
			ts = append(ts, dump.N("UpdateExpression", "Column", dump.N("Identifier", "Name", c), "Value", v.T))
		}
	}
	return ts, toks
}

func (g *G) Insert(d int) X {
	g.use("insert")
	tn := g.tableName()
	g.P.Tables[tn] = true
	t := dump.N("InsertStatement", "TableName", tn)
	toks := cat(kw("INSERT INTO"), one(sym(tn)))
	ncols := g.R.Intn(3)
	if ncols > 0 {
		cts, ctoks := g.identList(g.someCols(ncols), true)
		t.Set("Columns", cts)
		toks = cat(toks, ctoks)
	}
	if g.R.Intn(4) == 0 && g.ok("insert-select") {
		g.NeedFrom++
		q := g.SimpleQuery(d)
		g.NeedFrom--
		t.F["Query"] = q.T
		toks = cat(toks, q.Toks)
	} else {
		toks = cat(toks, kw("VALUES"))
		nrows := 1 + g.R.Intn(3)
		w := ncols
		if w == 0 {
			w = 1 + g.R.Intn(3)
		}
		var rows []*dump.T
		for r := 0; r < nrows; r++ {
			if r > 0 {
				toks = append(toks, sym(","))
			}
			toks = append(toks, sym("("))
			var row []*dump.T
			rw := w
			if r > 0 && g.R.Intn(4) == 0 && g.ok("ragged-values") {
				rw = 1 + g.R.Intn(w+1) // the grammar does not ask the rows to be equally wide
				g.use("ragged-values")
			}
			for c := 0; c < rw; c++ {
				if c > 0 {
					toks = append(toks, sym(","))
				}
				v := g.Val(d)
				toks = cat(toks, g.wrap(v, PrecOr))
				row = append(row, v.T)
			}
			toks = append(toks, sym(")"))
			rows = append(rows, dump.List(row...))
		}
		t.Set("Values", rows)
	}
	if g.R.Intn(5) == 0 && g.ok("on-conflict") {
		oc := dump.N("OnConflict")
		toks = cat(toks, kw("ON CONFLICT"))
		if g.R.Intn(2) == 0 {
			cts, ctoks := g.identList(g.someCols(1+g.R.Intn(2)), true)
			oc.Set("Target", cts)
			toks = cat(toks, ctoks)
		}
		act := dump.N("OnConflictAction")
		if g.R.Intn(2) == 0 {
			toks = cat(toks, kw("DO NOTHING"))
			act.Set("DoNothing", true)
		} else {
			toks = cat(toks, kw("DO UPDATE SET"))
			sts, stoks := g.setList(d, "UpdateExpression")
			act.Set("DoUpdate", sts)
			toks = cat(toks, stoks)
			if g.R.Intn(3) == 0 {
				w := g.Bool_(d)
				act.F["Where"] = w.T
				toks = cat(toks, kw("WHERE"), g.wrap(w, PrecOr))
			}
		}
		oc.F["Action"] = act
		t.F["OnConflict"] = oc
	}
	if g.R.Intn(4) == 0 && g.ok("returning") {
		rts, rtoks := g.returning(d)
		t.Set("Returning", rts)
		toks = cat(toks, rtoks)
	}
	return X{T: t, Toks: toks}
}

func (g *G) Update(d int) X {
	g.use("update")
	tn := g.tableName()
	g.P.Tables[tn] = true
	t := dump.N("UpdateStatement", "TableName", tn)
	toks := cat(kw("UPDATE"), one(sym(tn)), kw("SET"))
	sts, stoks := g.setList(d, "UpdateExpression")
	t.Set("Assignments", sts)
	toks = cat(toks, stoks)
	if g.R.Intn(3) != 0 {
		w := g.Bool_(d)
		t.F["Where"] = w.T
		toks = cat(toks, kw("WHERE"), g.wrap(w, PrecOr))
	}
	if g.R.Intn(4) == 0 && g.ok("returning") {
		rts, rtoks := g.returning(d)
		t.Set("Returning", rts)
		toks = cat(toks, rtoks)
	}
	return X{T: t, Toks: toks}
}

func (g *G) Delete(d int) X {
	g.use("delete")
	tn := g.tableName()
	g.P.Tables[tn] = true
	t := dump.N("DeleteStatement", "TableName", tn)
	toks := cat(kw("DELETE FROM"), one(sym(tn)))
	if g.R.Intn(3) != 0 {
		w := g.Bool_(d)
		t.F["Where"] = w.T
		toks = cat(toks, kw("WHERE"), g.wrap(w, PrecOr))
	}
	if g.R.Intn(4) == 0 && g.ok("returning") {
		rts, rtoks := g.returning(d)
		t.Set("Returning", rts)
		toks = cat(toks, rtoks)
	}
	return X{T: t, Toks: toks}
}

func (g *G) Merge(d int) X {
	g.use("merge")
	tgt, src := g.pick(tblNames), g.pick(tblNames)
	g.P.Tables[tgt] = true
	g.P.Tables[src] = true
	t := dump.N("MergeStatement", "TargetTable", dump.N("TableReference", "Name", tgt), "SourceTable", dump.N("TableReference", "Name", src))
	toks := cat(kw("MERGE INTO"), one(sym(tgt)))
	mergeAlias := ""
	if g.R.Intn(2) == 0 {
		a := g.alias()
		mergeAlias = a
		t.Set("TargetAlias", a)
		if g.R.Intn(2) == 0 {
			toks = cat(toks, kw("AS"))
		}
		toks = append(toks, sym(a))
	}
	toks = cat(toks, kw("USING"), one(sym(src)))
	if g.R.Intn(2) == 0 {
		a := g.alias()
		t.Set("SourceAlias", a)
		if g.R.Intn(2) == 0 {
			toks = cat(toks, kw("AS"))
		}
		toks = append(toks, sym(a))
	}
	on := g.Bool_(d)
	t.F["OnCondition"] = on.T
	toks = cat(toks, kw("ON"), g.wrap(on, PrecOr))
	n := 1 + g.R.Intn(3)
	var wts []*dump.T
	for i := 0; i < n; i++ {
		kind := g.R.Intn(3)
		wc := dump.N("MergeWhenClause")
		switch kind {
		case 0:
			toks = cat(toks, kw("WHEN MATCHED"))
			wc.Set("Type", "MATCHED")
		case 1:
			toks = cat(toks, kw("WHEN NOT MATCHED"))
			wc.Set("Type", "NOT_MATCHED")
		case 2:
			toks = cat(toks, kw("WHEN NOT MATCHED BY SOURCE"))
			wc.Set("Type", "NOT_MATCHED_BY_SOURCE")
		}
		if g.R.Intn(3) == 0 {
			c := g.Bool_(d)
			wc.F["Condition"] = c.T
			toks = cat(toks, kw("AND"), g.wrap(c, PrecOr))
		}
		toks = cat(toks, kw("THEN"))
		act := dump.N("MergeAction")
		if kind == 1 {
			act.Set("ActionType", "INSERT")
			toks = cat(toks, kw("INSERT"))
			nc := g.R.Intn(3)
			defaultValues := g.R.Intn(5) == 0
			if defaultValues {
				nc = 0
			}
			if nc > 0 {
				cols := g.someCols(nc)
				for _, cn := range cols { // like an INSERT column list: column references
					g.P.Columns[cn] = true
					g.P.QColumns[cn] = true
				}
				cts, ctoks := g.strList(cols)
				act.Set("Columns", cts)
				toks = cat(toks, ctoks)
			}
			if defaultValues {
				toks = cat(toks, kw("DEFAULT VALUES"))
				act.Set("DefaultValues", true)
			} else {
				toks = cat(toks, kw("VALUES"), one(sym("(")))
				w := nc
				if w == 0 {
					w = 1 + g.R.Intn(2)
				}
				var vs []*dump.T
				for c := 0; c < w; c++ {
					if c > 0 {
						toks = append(toks, sym(","))
					}
					v := g.Val(d)
					toks = cat(toks, g.wrap(v, PrecOr))
					vs = append(vs, v.T)
				}
				toks = append(toks, sym(")"))
				act.Set("Values", vs)
			}
		} else if g.R.Intn(2) == 0 {
			act.Set("ActionType", "DELETE")
			toks = cat(toks, kw("DELETE"))
		} else {
			act.Set("ActionType", "UPDATE")
			toks = cat(toks, kw("UPDATE SET"))
			g.SetQual = tgt
			if mergeAlias != "" {
				g.SetQual = mergeAlias
			}
			sts, stoks := g.setList(d, "SetClause")
			g.SetQual = ""
			act.Set("SetClauses", sts)
			toks = cat(toks, stoks)
		}
		wc.F["Action"] = act
		wts = append(wts, wc)
	}
	t.Set("WhenClauses", wts)
	return X{T: t, Toks: toks}
}

// ---------- DDL ----------

func (g *G) CreateTable(d int) X {
	g.use("create-table")
	tn := g.tableName()
	t := dump.N("CreateTableStatement", "Name", tn)
	toks := kw("CREATE")
	if g.R.Intn(6) == 0 {
		toks = cat(toks, kw(g.pick([]string{"TEMPORARY", "TEMP"})))
		t.Set("Temporary", true)
	}
	toks = cat(toks, kw("TABLE"))
	if g.R.Intn(4) == 0 {
		toks = cat(toks, kw("IF NOT EXISTS"))
		t.Set("IfNotExists", true)
	}
	toks = cat(toks, one(sym(tn)), one(sym("(")))
	cols := g.someCols(1 + g.R.Intn(4))
	var cts []*dump.T
	for i, c := range cols {
		if i > 0 {
			toks = append(toks, sym(","))
		}
		typ := g.pick([]string{"INT", "TEXT", "VARCHAR(10)", "NUMERIC(10,2)", "BIGINT", "DATE", "BOOLEAN"})
		ct := dump.N("ColumnDef", "Name", c, "Type", typ)
		toks = cat(toks, one(sym(c)), one(sym(typ)))
		var cons []*dump.T
		nc := g.R.Intn(3)
		for k := 0; k < nc; k++ {
			switch g.R.Intn(7) {
			case 0:
				toks = cat(toks, kw("PRIMARY KEY"))
				cons = append(cons, dump.N("ColumnConstraint", "Type", "PRIMARY KEY"))
			case 1:
				toks = cat(toks, kw("NOT NULL"))
				cons = append(cons, dump.N("ColumnConstraint", "Type", "NOT NULL"))
			case 2:
				toks = cat(toks, kw("UNIQUE"))
				cons = append(cons, dump.N("ColumnConstraint", "Type", "UNIQUE"))
			case 3:
				v := g.lit()
				if g.R.Intn(3) == 0 {
					v = g.Val(1)
				}
				toks = cat(toks, kw("DEFAULT"), g.wrap(v, PrecOr))
				cons = append(cons, dump.N("ColumnConstraint", "Type", "DEFAULT", "Default", v.T))
			case 4:
				c := g.Bool_(1)
				toks = cat(toks, kw("CHECK"), paren(g.wrap(c, PrecOr)))
				cons = append(cons, dump.N("ColumnConstraint", "Type", "CHECK", "Check", c.T))
			case 5:
				rt := g.pick(tblNames)
				rd := dump.N("ReferenceDefinition", "Table", rt)
				toks = cat(toks, kw("REFERENCES"), one(sym(rt)))
				if g.R.Intn(2) == 0 {
					rc := g.someCols(1)
					rts, rtoks := g.strList(rc)
					rd.Set("Columns", rts)
					toks = cat(toks, rtoks)
				}
				// referential actions, in either written order
				var acts [][]Tok
				if g.R.Intn(2) == 0 {
					a := g.pick([]string{"CASCADE", "RESTRICT", "SET NULL", "SET DEFAULT", "NO ACTION"})
					acts = append(acts, cat(kw("ON DELETE"), kw(a)))
					rd.Set("OnDelete", a)
				}
				if g.R.Intn(2) == 0 {
					a := g.pick([]string{"CASCADE", "RESTRICT", "SET NULL"})
					acts = append(acts, cat(kw("ON UPDATE"), kw(a)))
					rd.Set("OnUpdate", a)
				}
				if len(acts) == 2 && g.R.Intn(2) == 0 {
					acts[0], acts[1] = acts[1], acts[0]
				}
				for _, at := range acts {
					toks = cat(toks, at)
				}
				cons = append(cons, dump.N("ColumnConstraint", "Type", "REFERENCES", "References", rd))
			case 6:
				toks = cat(toks, kw("NULL"))
				cons = append(cons, dump.N("ColumnConstraint", "Type", "NULL"))
			}
		}
		ct.Set("Constraints", cons)
		cts = append(cts, ct)
	}
	t.Set("Columns", cts)
	var tcs []*dump.T
	ntc := g.R.Intn(3)
	for k := 0; k < ntc; k++ {
		toks = append(toks, sym(","))
		tc := dump.N("TableConstraint")
		if g.R.Intn(2) == 0 {
			cn := fmt.Sprintf("con%d", k+1)
			toks = cat(toks, kw("CONSTRAINT"), one(sym(cn)))
			tc.Set("Name", cn)
		}
		switch g.R.Intn(4) {
		case 0:
			cs, ctoks := g.strList(g.someCols(1 + g.R.Intn(2)))
			toks = cat(toks, kw("PRIMARY KEY"), ctoks)
			tc.Set("Type", "PRIMARY KEY").Set("Columns", cs)
		case 1:
			cs, ctoks := g.strList(g.someCols(1 + g.R.Intn(2)))
			toks = cat(toks, kw("UNIQUE"), ctoks)
			tc.Set("Type", "UNIQUE").Set("Columns", cs)
		case 2:
			c := g.Bool_(1)
			toks = cat(toks, kw("CHECK"), paren(g.wrap(c, PrecOr)))
			tc.Set("Type", "CHECK")
			tc.F["Check"] = c.T
		case 3:
			cs, ctoks := g.strList(g.someCols(1))
			rt := g.pick(tblNames)
			rd := dump.N("ReferenceDefinition", "Table", rt)
			toks = cat(toks, kw("FOREIGN KEY"), ctoks, kw("REFERENCES"), one(sym(rt)))
			if g.R.Intn(2) == 0 {
				rts, rtoks := g.strList(g.someCols(1))
				rd.Set("Columns", rts)
				toks = cat(toks, rtoks)
			}
			var acts [][]Tok
			if g.R.Intn(2) == 0 {
				a := g.pick([]string{"CASCADE", "RESTRICT", "SET NULL"})
				acts = append(acts, cat(kw("ON DELETE"), kw(a)))
				rd.Set("OnDelete", a)
			}
			if g.R.Intn(2) == 0 {
				a := g.pick([]string{"CASCADE", "RESTRICT", "NO ACTION"})
				acts = append(acts, cat(kw("ON UPDATE"), kw(a)))
				rd.Set("OnUpdate", a)
			}
			if len(acts) == 2 && g.R.Intn(2) == 0 {
				acts[0], acts[1] = acts[1], acts[0]
			}
			for _, at := range acts {
				toks = cat(toks, at)
			}
			tc.Set("Type", "FOREIGN KEY").Set("Columns", cs)
			tc.F["References"] = rd
		}
		tcs = append(tcs, tc)
	}
	t.Set("Constraints", tcs)
	toks = append(toks, sym(")"))
	return X{T: t, Toks: toks}
}

func (g *G) CreateIndex(d int) X {
	g.use("create-index")
	t := dump.N("CreateIndexStatement")
	toks := kw("CREATE")
	if g.R.Intn(3) == 0 {
		toks = cat(toks, kw("UNIQUE"))
		t.Set("Unique", true)
	}
	toks = cat(toks, kw("INDEX"))
	if g.R.Intn(4) == 0 {
		toks = cat(toks, kw("IF NOT EXISTS"))
		t.Set("IfNotExists", true)
	}
	in, tn := "idx_"+g.pick(colNames), g.tableName()
	t.Set("Name", in).Set("Table", tn)
	toks = cat(toks, one(sym(in)), kw("ON"), one(sym(tn)))
	if g.R.Intn(4) == 0 {
		m := g.pick([]string{"btree", "hash", "gin"})
		toks = cat(toks, kw("USING"), one(sym(m)))
		t.Set("Using", m)
	}
	toks = append(toks, sym("("))
	var cts []*dump.T
	for i, c := range g.someCols(1 + g.R.Intn(3)) {
		if i > 0 {
			toks = append(toks, sym(","))
		}
		ct := dump.N("IndexColumn", "Column", c)
		toks = append(toks, sym(c))
		switch g.R.Intn(4) {
		case 0:
			toks = cat(toks, kw("ASC"))
			ct.Set("Direction", "ASC")
		case 1:
			toks = cat(toks, kw("DESC"))
			ct.Set("Direction", "DESC")
		}
		if g.R.Intn(5) == 0 {
			toks = cat(toks, kw("NULLS LAST"))
			ct.Set("NullsLast", true)
		}
		cts = append(cts, ct)
	}
	t.Set("Columns", cts)
	toks = append(toks, sym(")"))
	if g.R.Intn(4) == 0 {
		w := g.Bool_(d)
		t.F["Where"] = w.T
		toks = cat(toks, kw("WHERE"), g.wrap(w, PrecOr))
	}
	return X{T: t, Toks: toks}
}

func (g *G) CreateView(d int) X {
	g.use("create-view")
	mat := g.R.Intn(3) == 0
	vn := "v_" + g.pick(tblNames)
	toks := kw("CREATE")
	var t *dump.T
	if mat {
		t = dump.N("CreateMaterializedViewStatement", "Name", vn)
		toks = cat(toks, kw("MATERIALIZED VIEW"))
	} else {
		t = dump.N("CreateViewStatement", "Name", vn)
		if g.R.Intn(3) == 0 {
			toks = cat(toks, kw("OR REPLACE"))
			t.Set("OrReplace", true)
		}
		if g.R.Intn(6) == 0 {
			toks = cat(toks, kw("TEMPORARY"))
			t.Set("Temporary", true)
		}
		toks = cat(toks, kw("VIEW"))
	}
	if g.R.Intn(5) == 0 {
		toks = cat(toks, kw("IF NOT EXISTS"))
		t.Set("IfNotExists", true)
	}
	toks = append(toks, sym(vn))
	if g.R.Intn(3) == 0 {
		cs, ctoks := g.strList(g.someCols(1 + g.R.Intn(2)))
		t.Set("Columns", cs)
		toks = cat(toks, ctoks)
	}
	g.NeedFrom++
	q := g.SimpleQuery(d)
	g.NeedFrom--
	t.F["Query"] = q.T
	toks = cat(toks, kw("AS"), q.Toks)
	if !mat && g.R.Intn(4) == 0 {
		opt := g.pick([]string{"CHECK OPTION", "CASCADED CHECK OPTION", "LOCAL CHECK OPTION"})
		toks = cat(toks, kw("WITH "+opt))
		t.Set("WithOption", opt)
	}
	if mat && g.R.Intn(3) == 0 {
		if g.R.Intn(2) == 0 {
			toks = cat(toks, kw("WITH DATA"))
			t.F["WithData"] = dump.PtrBool(true)
		} else {
			toks = cat(toks, kw("WITH NO DATA"))
			t.F["WithData"] = dump.PtrBool(false)
		}
	}
	return X{T: t, Toks: toks}
}

func (g *G) Drop() X {
	g.use("drop")
	ot := g.pick([]string{"TABLE", "VIEW", "MATERIALIZED VIEW", "INDEX"})
	t := dump.N("DropStatement", "ObjectType", ot)
	toks := cat(kw("DROP"), kw(ot))
	if g.R.Intn(2) == 0 {
		toks = cat(toks, kw("IF EXISTS"))
		t.Set("IfExists", true)
	}
	var ns []*dump.T
	for i := 0; i < 1+g.R.Intn(2); i++ {
		if i > 0 {
			toks = append(toks, sym(","))
		}
		n := g.tableName()
		toks = append(toks, sym(n))
		ns = append(ns, dump.Str(n))
	}
	t.Set("Names", ns)
	switch g.R.Intn(3) {
	case 0:
		toks = cat(toks, kw("CASCADE"))
		t.Set("CascadeType", "CASCADE")
	case 1:
		toks = cat(toks, kw("RESTRICT"))
		t.Set("CascadeType", "RESTRICT")
	}
	return X{T: t, Toks: toks}
}

// AlterTable: the ALTER TABLE forms of the documented surface (ADD COLUMN / CONSTRAINT, DROP COLUMN / CONSTRAINT,
// RENAME TO, RENAME COLUMN).
func (g *G) AlterTable(d int) X {
	g.use("alter-table")
	tn := g.tableName()
	op := dump.N("AlterTableOperation", "TableName", dump.N("ObjectName"), "NewTableName", dump.N("ObjectName"))
	toks := cat(kw("ALTER TABLE"), one(sym(tn)))
	ident := func(n string) *dump.T { return dump.N("Ident", "Name", n) }
	switch g.R.Intn(6) {
	case 0: // ADD COLUMN
		c := g.someCols(1)[0]
		typ := g.pick([]string{"INT", "TEXT", "VARCHAR(10)", "NUMERIC(10,2)", "BIGINT", "DATE", "BOOLEAN"})
		cd := dump.N("ColumnDef", "Name", c, "Type", typ)
		toks = cat(toks, kw("ADD COLUMN"), one(sym(c)), one(sym(typ)))
		var cons []*dump.T
		switch g.R.Intn(5) {
		case 0:
			toks = cat(toks, kw("NOT NULL"))
			cons = append(cons, dump.N("ColumnConstraint", "Type", "NOT NULL"))
		case 1:
			v := g.lit()
			toks = cat(toks, kw("DEFAULT"), g.wrap(v, PrecOr))
			cons = append(cons, dump.N("ColumnConstraint", "Type", "DEFAULT", "Default", v.T))
		case 2:
			c := g.Bool_(1)
			toks = cat(toks, kw("CHECK"), paren(g.wrap(c, PrecOr)))
			cons = append(cons, dump.N("ColumnConstraint", "Type", "CHECK", "Check", c.T))
		case 3:
			toks = cat(toks, kw("UNIQUE"))
			cons = append(cons, dump.N("ColumnConstraint", "Type", "UNIQUE"))
		}
		if len(cons) > 0 {
			cd.Set("Constraints", cons)
		}
		op.Set("Type", 1).Set("ColumnDef", cd)
	case 1: // ADD CONSTRAINT
		cn := g.pick([]string{"pk_1", "uq_x", "fk_t_u", "ck_pos", "STATUS_chk", "ORDERS_PK", "Item_Order_FK", "CUSTOMER_EMAIL_UQ", "constraint_1", "TRIANON"})
		tc := dump.N("TableConstraint", "Name", cn)
		toks = cat(toks, kw("ADD CONSTRAINT"), one(sym(cn)))
		switch g.R.Intn(4) {
		case 0:
			cs, ctoks := g.strList(g.someCols(1 + g.R.Intn(2)))
			toks = cat(toks, kw("PRIMARY KEY"), ctoks)
			tc.Set("Type", "PRIMARY KEY").Set("Columns", cs)
		case 1:
			cs, ctoks := g.strList(g.someCols(1 + g.R.Intn(2)))
			toks = cat(toks, kw("UNIQUE"), ctoks)
			tc.Set("Type", "UNIQUE").Set("Columns", cs)
		case 2:
			c := g.Bool_(1)
			toks = cat(toks, kw("CHECK"), paren(g.wrap(c, PrecOr)))
			tc.Set("Type", "CHECK")
			tc.F["Check"] = c.T
		default:
			cs, ctoks := g.strList(g.someCols(1))
			rt := g.pick(tblNames)
			rd := dump.N("ReferenceDefinition", "Table", rt)
			toks = cat(toks, kw("FOREIGN KEY"), ctoks, kw("REFERENCES"), one(sym(rt)))
			rts, rtoks := g.strList(g.someCols(1))
			rd.Set("Columns", rts)
			toks = cat(toks, rtoks)
			if g.R.Intn(2) == 0 {
				a := g.pick([]string{"CASCADE", "RESTRICT", "SET NULL"})
				toks = cat(toks, kw("ON DELETE"), kw(a))
				rd.Set("OnDelete", a)
			}
			tc.Set("Type", "FOREIGN KEY").Set("Columns", cs)
			tc.F["References"] = rd
		}
		op.Set("Constraint", tc) // Type = AddConstraint = 0: dropped by the projection like every zero value
	case 2: // DROP COLUMN
		c := g.someCols(1)[0]
		toks = cat(toks, kw("DROP COLUMN"), one(sym(c)))
		op.Set("Type", 6).Set("ColumnName", ident(c))
		if g.R.Intn(2) == 0 {
			toks = cat(toks, kw("CASCADE"))
			op.Set("CascadeDrops", true)
		}
	case 3: // DROP CONSTRAINT
		cn := g.pick([]string{"pk_1", "uq_x", "fk_t_u"})
		toks = cat(toks, kw("DROP CONSTRAINT"), one(sym(cn)))
		op.Set("Type", 7).Set("ConstraintName", ident(cn))
		if g.R.Intn(2) == 0 {
			toks = cat(toks, kw("CASCADE"))
			op.Set("CascadeDrops", true)
		}
	case 4: // RENAME TO
		nn := g.pick([]string{"t_new", "archive_2024", "u2"})
		toks = cat(toks, kw("RENAME TO"), one(sym(nn)))
		op.Set("Type", 15).Set("NewTableName", dump.N("ObjectName", "Name", nn))
	default: // RENAME COLUMN
		cs := g.someCols(2)
		toks = cat(toks, kw("RENAME COLUMN"), one(sym(cs[0])), kw("TO"), one(sym(cs[1])))
		op.Set("Type", 12).Set("ColumnName", ident(cs[0])).Set("NewColumnName", ident(cs[1]))
	}
	t := dump.N("AlterStatement", "Name", tn, "Operation", op)
	return X{T: t, Toks: toks}
}

func (g *G) Truncate() X {
	g.use("truncate")
	t := dump.N("TruncateStatement")
	toks := kw("TRUNCATE")
	if g.R.Intn(2) == 0 {
		toks = cat(toks, kw("TABLE"))
	}
	var ns []*dump.T
	for i := 0; i < 1+g.R.Intn(2); i++ {
		if i > 0 {
			toks = append(toks, sym(","))
		}
		n := g.tableName()
		toks = append(toks, sym(n))
		ns = append(ns, dump.Str(n))
	}
	t.Set("Tables", ns)
	switch g.R.Intn(3) {
	case 0:
		toks = cat(toks, kw("RESTART IDENTITY"))
		t.Set("RestartIdentity", true)
	case 1:
		toks = cat(toks, kw("CONTINUE IDENTITY"))
		t.Set("ContinueIdentity", true)
	}
	switch g.R.Intn(3) {
	case 0:
		toks = cat(toks, kw("CASCADE"))
		t.Set("CascadeType", "CASCADE")
	case 1:
		toks = cat(toks, kw("RESTRICT"))
		t.Set("CascadeType", "RESTRICT")
	}
	return X{T: t, Toks: toks}
}

func (g *G) Refresh() X {
	g.use("refresh")
	t := dump.N("RefreshMaterializedViewStatement")
	toks := kw("REFRESH MATERIALIZED VIEW")
	if g.R.Intn(2) == 0 {
		toks = cat(toks, kw("CONCURRENTLY"))
		t.Set("Concurrently", true)
	}
	n := "v_" + g.pick(tblNames)
	t.Set("Name", n)
	toks = append(toks, sym(n))
	switch g.R.Intn(3) {
	case 0:
		toks = cat(toks, kw("WITH DATA"))
		t.F["WithData"] = dump.PtrBool(true)
	case 1:
		toks = cat(toks, kw("WITH NO DATA"))
		t.F["WithData"] = dump.PtrBool(false)
	}
	return X{T: t, Toks: toks}
}

// Statement generates one random statement of the documented surface.
func (g *G) Statement(d int) X {
	g.ResetStmt()
	r := g.R.Intn(100)
	switch {
	case r < 55:
		return g.Query(d)
	case r < 63:
		return g.withDML(d, g.Insert)
	case r < 71:
		return g.withDML(d, g.Update)
	case r < 78:
		return g.withDML(d, g.Delete)
	case r < 82 && g.ok("merge"):
		return g.Merge(d)
	case r < 88 && g.ok("create-table"):
		return g.CreateTable(d)
	case r < 91 && g.ok("create-index"):
		return g.CreateIndex(d)
	case r < 95 && g.ok("create-view"):
		return g.CreateView(d)
	case r < 96 && g.ok("drop"):
		return g.Drop()
	case r < 97 && g.ok("alter-table"):
		return g.AlterTable(d)
	case r < 99 && g.ok("truncate"):
		return g.Truncate()
	case g.ok("refresh"):
		return g.Refresh()
	}
	return g.Query(d)
}

// withDML optionally prefixes a DML statement with a WITH clause.
func (g *G) withDML(d int, f func(int) X) X {
	if g.R.Intn(8) == 0 && g.ok("cte") && g.ok("cte-dml") {
		w := &WithSpec{}
		c := CTE{Name: "cte1", Q: g.SimpleQuery(d - 1)}
		w.CTEs = []CTE{c}
		g.CTENames = append(g.CTENames, c.Name)
		wt, wtoks := g.withClause(w)
		x := f(d)
		x.T.F["With"] = wt
		x.Toks = cat(wtoks, x.Toks)
		return x
	}
	return f(d)
}
