// Package gen is the model-grammar generator: it builds, for the documented SQL
// surface, a statement as (a) the tree the grammar prescribes, in the neutral
// form of package dump, (b) a token list that is rendered with tree-preserving
// parenthesisation, keyword case and layout, and (c) the record of every table,
// column and function name it placed.
package gen

import (
	"fmt"
	"math/rand"
	"sort"
	"strings"

	"verifharness/dump"
)

// Tok is one lexeme of the rendering.
type Tok struct {
	S  string
	Kw bool // keyword: letter case may be varied by the layout
}

// X is a generated expression or clause fragment.
type X struct {
	T    *dump.T
	Toks []Tok
	Prec int
}

// Precedence levels (standard SQL / PostgreSQL order, low to high).
const (
	PrecOr = iota + 1
	PrecAnd
	PrecNot
	PrecCmp // comparisons, IS NULL, IN, BETWEEN, LIKE: non-associative
	PrecConcat
	PrecAdd
	PrecMul
	PrecJSON
	PrecUnary
	PrecCast
	PrecPrimary
)

// Placement records what the generator wrote where (C15).
type Placement struct {
	Tables    map[string]bool // names written in table positions (possibly qualified)
	Columns   map[string]bool // bare column names referenced
	QColumns  map[string]bool // table.column as written (or column when unqualified)
	Functions map[string]bool
	Forbidden map[string]bool // aliases, CTE column lists, string contents, synthetic names
}

func newPlacement() *Placement {
	return &Placement{Tables: map[string]bool{}, Columns: map[string]bool{}, QColumns: map[string]bool{},
		Functions: map[string]bool{}, Forbidden: map[string]bool{}}
}

func Keys(m map[string]bool) []string {
	out := make([]string, 0, len(m))
	for k := range m {
		out = append(out, k)
	}
	sort.Strings(out)
	return out
}

// G is a generator instance.
type G struct {
	R        *rand.Rand
	PR       *rand.Rand      // separate stream for parenthesisation choices, so that the model does not depend on the policy
	Avoid    map[string]bool // features not to use (open findings)
	ParenPol int             // 0 minimal, 1 full, 2 random redundant
	MaxDepth int
	P        *Placement
	Feat     map[string]bool
	nAlias   int
	CTENames []string // CTE names in scope (usable as tables)
	SetQual  string   // qualifier a MERGE assignment target may carry (target table or alias)
	NeedFrom int      // >0: every SELECT gets a FROM clause (a FROM-less SELECT followed by a statement-level clause is not part of the documented surface)
}

func New(r *rand.Rand, avoid map[string]bool) *G {
	if avoid == nil {
		avoid = map[string]bool{}
	}
	return &G{R: r, PR: rand.New(rand.NewSource(r.Int63())), Avoid: avoid, MaxDepth: 4, P: newPlacement(), Feat: map[string]bool{}}
}

// ResetStmt clears per-statement records.
func (g *G) ResetStmt() {
	g.P = newPlacement()
	g.Feat = map[string]bool{}
	g.nAlias = 0
	g.CTENames = nil
}

func (g *G) ok(feature string) bool {
	if g.Avoid[feature] {
		return false
	}
	return true
}

func (g *G) use(feature string) { g.Feat[feature] = true }

func kw(s string) []Tok {
	var out []Tok
	for _, w := range strings.Fields(s) {
		out = append(out, Tok{S: w, Kw: true})
	}
	return out
}
func sym(s string) Tok { return Tok{S: s} }

func cat(parts ...[]Tok) []Tok {
	var out []Tok
	for _, p := range parts {
		out = append(out, p...)
	}
	return out
}

func one(t Tok) []Tok { return []Tok{t} }

func paren(t []Tok) []Tok { return cat(one(sym("(")), t, one(sym(")"))) }

// wrap returns x's tokens, parenthesised if required (x.Prec < min) or chosen by the paren policy.
func (g *G) wrap(x X, min int) []Tok {
	if x.Prec < min {
		return paren(x.Toks)
	}
	switch g.ParenPol {
	case 1:
		if x.Prec < PrecPrimary {
			return paren(x.Toks)
		}
	case 2:
		if g.PR.Intn(6) == 0 {
			if g.PR.Intn(4) == 0 {
				return paren(paren(x.Toks))
			}
			return paren(x.Toks)
		}
	}
	return x.Toks
}

var colNames = []string{"a", "b", "c", "d", "id", "name", "price", "qty", "total", "created_at", "x1", "col_2"}
var tblNames = []string{"t", "u", "orders", "users", "items", "sales", "emp", "dept", "_migrations", "users_with_roles", "t_with_1_joins"}
var fnNames = []string{"f", "COUNT", "SUM", "MAX", "COALESCE", "lower", "abs", "ROUND", "concat", "my_func"}
var typeNames = []string{"INT", "TEXT", "VARCHAR(10)", "NUMERIC(10,2)", "BIGINT", "DATE", "BOOLEAN", "INT[]", "TEXT[]"}

func (g *G) pick(xs []string) string { return xs[g.R.Intn(len(xs))] }

// ---------- leaves ----------

func (g *G) Ident(name string) X {
	g.P.Columns[name] = true
	g.P.QColumns[name] = true
	return X{T: dump.N("Identifier", "Name", name), Toks: one(sym(name)), Prec: PrecPrimary}
}

func (g *G) QIdent(tbl, name string) X {
	g.P.Columns[name] = true
	g.P.QColumns[tbl+"."+name] = true
	return X{T: dump.N("Identifier", "Name", name, "Table", tbl), Toks: one(sym(tbl + "." + name)), Prec: PrecPrimary}
}

func (g *G) Int(v string) X {
	return X{T: dump.N("LiteralValue", "Value", v, "Type", "int"), Toks: one(sym(v)), Prec: PrecPrimary}
}
func (g *G) Float(v string) X {
	return X{T: dump.N("LiteralValue", "Value", v, "Type", "float"), Toks: one(sym(v)), Prec: PrecPrimary}
}

// Str builds a string literal; content must not contain quotes or backslashes unless escape handling is intended.
func (g *G) Str(content string) X {
	g.P.Forbidden[content] = true
	lit := "'" + strings.ReplaceAll(strings.ReplaceAll(content, "\\", "\\\\"), "'", "''") + "'"
	return X{T: dump.N("LiteralValue", "Value", content, "Type", "string"), Toks: one(sym(lit)), Prec: PrecPrimary}
}
func (g *G) Bool(b bool) X {
	w := "FALSE"
	if b {
		w = "TRUE"
	}
	return X{T: dump.N("LiteralValue", "Value", w, "Type", "bool"), Toks: kw(w), Prec: PrecPrimary}
}
func (g *G) Null() X {
	return X{T: dump.N("LiteralValue", "Type", "null"), Toks: kw("NULL"), Prec: PrecPrimary}
}
func (g *G) Placeholder(p string) X {
	return X{T: dump.N("LiteralValue", "Value", p, "Type", "placeholder"), Toks: one(sym(p)), Prec: PrecPrimary}
}

// ---------- operators ----------

var binPrec = map[string]int{
	"OR": PrecOr, "AND": PrecAnd,
	"=": PrecCmp, "<>": PrecCmp, "!=": PrecCmp, "<": PrecCmp, ">": PrecCmp, "<=": PrecCmp, ">=": PrecCmp,
	"||": PrecConcat, "+": PrecAdd, "-": PrecAdd, "*": PrecMul, "/": PrecMul, "%": PrecMul,
	"->": PrecJSON, "->>": PrecJSON, "#>": PrecJSON, "#>>": PrecJSON, "@>": PrecJSON, "<@": PrecJSON,
	"?": PrecJSON, "?|": PrecJSON, "?&": PrecJSON, "#-": PrecJSON,
}

var CmpOps = []string{"=", "<>", "!=", "<", ">", "<=", ">="}
var ArithOps = []string{"+", "-", "*", "/", "%"}
var JSONOps = []string{"->", "->>", "#>", "#>>", "@>", "<@", "?", "?|", "?&", "#-"}

func isWordOp(op string) bool { return op == "OR" || op == "AND" }

// Bin builds l op r with standard precedence and left associativity.
func (g *G) Bin(op string, l, r X) X {
	p := binPrec[op]
	lmin, rmin := p, p+1
	if p == PrecCmp { // non-associative
		lmin = p + 1
	}
	if p == PrecJSON {
		// documented only as operators between primaries; operands that are not primary are parenthesised
		lmin, rmin = PrecJSON, PrecCast
		if l.Prec == PrecUnary {
			lmin = PrecCast
		}
	}
	var optoks []Tok
	if isWordOp(op) {
		optoks = kw(op)
	} else {
		optoks = one(sym(op))
	}
	return X{
		T:    dump.N("BinaryExpression", "Left", l.T, "Operator", op, "Right", r.T),
		Toks: cat(g.wrap(l, lmin), optoks, g.wrap(r, rmin)),
		Prec: p,
	}
}

// Not builds NOT e (library idiom: UnaryExpression{Operator: Not}).
func (g *G) Not(e X) X {
	return X{T: dump.N("UnaryExpression", "Operator", dump.Raw("2"), "Expr", e.T),
		Toks: cat(kw("NOT"), g.wrap(e, PrecNot)), Prec: PrecNot}
}

// Neg builds -e / +e (UnaryExpression{Operator: Minus|Plus}).
func (g *G) Neg(e X, plus bool) X {
	op, s := "1", "-"
	if plus {
		op, s = "", "+" // Plus is the zero value of the enum: field empty
	}
	t := dump.N("UnaryExpression", "Expr", e.T)
	if op != "" {
		t.F["Operator"] = dump.Raw(op)
	}
	return X{T: t, Toks: cat(one(sym(s)), g.wrap(e, PrecUnary)), Prec: PrecUnary}
}

func (g *G) IsNull(e X, not bool) X {
	t := dump.N("BinaryExpression", "Left", e.T, "Operator", "IS NULL", "Right", dump.N("LiteralValue", "Type", "null"), "Not", not)
	w := "IS NULL"
	if not {
		w = "IS NOT NULL"
	}
	return X{T: t, Toks: cat(g.wrap(e, PrecConcat), kw(w)), Prec: PrecCmp}
}

func (g *G) InList(e X, not bool, list []X) X {
	var ts []*dump.T
	toks := cat(g.wrap(e, PrecConcat))
	if not {
		toks = cat(toks, kw("NOT"))
	}
	toks = cat(toks, kw("IN"), one(sym("(")))
	for i, v := range list {
		if i > 0 {
			toks = append(toks, sym(","))
		}
		toks = cat(toks, g.wrap(v, PrecOr))
		ts = append(ts, v.T)
	}
	toks = append(toks, sym(")"))
	return X{T: dump.N("InExpression", "Expr", e.T, "List", ts, "Not", not), Toks: toks, Prec: PrecCmp}
}

func (g *G) InQuery(e X, not bool, q X) X {
	toks := cat(g.wrap(e, PrecConcat))
	if not {
		toks = cat(toks, kw("NOT"))
	}
	toks = cat(toks, kw("IN"), paren(q.Toks))
	return X{T: dump.N("InExpression", "Expr", e.T, "Subquery", q.T, "Not", not), Toks: toks, Prec: PrecCmp}
}

func (g *G) Between(e X, not bool, lo, hi X) X {
	toks := cat(g.wrap(e, PrecConcat))
	if not {
		toks = cat(toks, kw("NOT"))
	}
	toks = cat(toks, kw("BETWEEN"), g.wrap(lo, PrecConcat), kw("AND"), g.wrap(hi, PrecConcat))
	return X{T: dump.N("BetweenExpression", "Expr", e.T, "Lower", lo.T, "Upper", hi.T, "Not", not), Toks: toks, Prec: PrecCmp}
}

func (g *G) Like(op string, e X, not bool, pat X) X {
	toks := cat(g.wrap(e, PrecConcat))
	if not {
		toks = cat(toks, kw("NOT"))
	}
	toks = cat(toks, kw(op), g.wrap(pat, PrecConcat))
	return X{T: dump.N("BinaryExpression", "Left", e.T, "Operator", op, "Right", pat.T, "Not", not), Toks: toks, Prec: PrecCmp}
}

func (g *G) Exists(q X, not bool) X {
	ex := dump.N("ExistsExpression", "Subquery", q.T)
	if not {
		return X{T: dump.N("UnaryExpression", "Operator", dump.Raw("2"), "Expr", ex),
			Toks: cat(kw("NOT EXISTS"), paren(q.Toks)), Prec: PrecNot}
	}
	return X{T: ex, Toks: cat(kw("EXISTS"), paren(q.Toks)), Prec: PrecPrimary}
}

func (g *G) Subquery(q X) X {
	return X{T: dump.N("SubqueryExpression", "Subquery", q.T), Toks: paren(q.Toks), Prec: PrecPrimary}
}

func (g *G) Quantified(e X, op, quant string, q X) X {
	typ := "AnyExpression"
	if quant == "ALL" {
		typ = "AllExpression"
	}
	return X{T: dump.N(typ, "Expr", e.T, "Operator", op, "Subquery", q.T),
		Toks: cat(g.wrap(e, PrecConcat), one(sym(op)), kw(quant), paren(q.Toks)), Prec: PrecCmp}
}

func (g *G) Cast(e X, typ string) X {
	return X{T: dump.N("CastExpression", "Expr", e.T, "Type", typ),
		Toks: cat(kw("CAST"), one(sym("(")), g.wrap(e, PrecOr), kw("AS"), one(sym(typ)), one(sym(")"))), Prec: PrecPrimary}
}

func (g *G) CastOp(e X, typ string) X {
	return X{T: dump.N("CastExpression", "Expr", e.T, "Type", typ),
		Toks: cat(g.wrap(e, PrecCast), one(sym("::")), one(sym(typ))), Prec: PrecCast}
}

// OrderItem is one ORDER BY element.
type OrderItem struct {
	E     X
	Desc  bool
	Asc   bool // ASC written explicitly
	Nulls int  // 0 none, 1 FIRST, 2 LAST
}

func (g *G) orderList(items []OrderItem) ([]*dump.T, []Tok) {
	var ts []*dump.T
	var toks []Tok
	for i, it := range items {
		if i > 0 {
			toks = append(toks, sym(","))
		}
		toks = cat(toks, g.wrap(it.E, PrecOr))
		t := dump.N("OrderByExpression", "Expression", it.E.T, "Ascending", !it.Desc)
		if it.Desc {
			toks = cat(toks, kw("DESC"))
		} else if it.Asc {
			toks = cat(toks, kw("ASC"))
		}
		switch it.Nulls {
		case 1:
			toks = cat(toks, kw("NULLS FIRST"))
			t.F["NullsFirst"] = dump.PtrBool(true)
		case 2:
			toks = cat(toks, kw("NULLS LAST"))
			t.F["NullsFirst"] = dump.PtrBool(false)
		}
		ts = append(ts, t)
	}
	return ts, toks
}

// FrameBound: kind 0 UNBOUNDED PRECEDING, 1 n PRECEDING, 2 CURRENT ROW, 3 n FOLLOWING, 4 UNBOUNDED FOLLOWING
type FrameBound struct {
	Kind int
	N    X
}

func (g *G) frameBound(b FrameBound) (*dump.T, []Tok) {
	switch b.Kind {
	case 0:
		return dump.N("WindowFrameBound", "Type", "UNBOUNDED PRECEDING"), kw("UNBOUNDED PRECEDING")
	case 1:
		return dump.N("WindowFrameBound", "Type", "PRECEDING", "Value", b.N.T), cat(g.wrap(b.N, PrecPrimary), kw("PRECEDING"))
	case 2:
		return dump.N("WindowFrameBound", "Type", "CURRENT ROW"), kw("CURRENT ROW")
	case 3:
		return dump.N("WindowFrameBound", "Type", "FOLLOWING", "Value", b.N.T), cat(g.wrap(b.N, PrecPrimary), kw("FOLLOWING"))
	}
	return dump.N("WindowFrameBound", "Type", "UNBOUNDED FOLLOWING"), kw("UNBOUNDED FOLLOWING")
}

// Window is an OVER (...) specification.
type Window struct {
	Partition []X
	Order     []OrderItem
	FrameType string // "", ROWS, RANGE
	Start     FrameBound
	End       *FrameBound
}

func (g *G) windowSpec(w *Window) (*dump.T, []Tok) {
	t := dump.N("WindowSpec")
	var toks []Tok
	if len(w.Partition) > 0 {
		toks = cat(toks, kw("PARTITION BY"))
		var ts []*dump.T
		for i, p := range w.Partition {
			if i > 0 {
				toks = append(toks, sym(","))
			}
			toks = cat(toks, g.wrap(p, PrecOr))
			ts = append(ts, p.T)
		}
		t.Set("PartitionBy", ts)
	}
	if len(w.Order) > 0 {
		ots, otoks := g.orderList(w.Order)
		toks = cat(toks, kw("ORDER BY"), otoks)
		t.Set("OrderBy", ots)
	}
	if w.FrameType != "" {
		ft := dump.N("WindowFrame", "Type", w.FrameType)
		toks = cat(toks, kw(w.FrameType))
		st, stoks := g.frameBound(w.Start)
		ft.F["Start"] = st
		if w.End != nil {
			et, etoks := g.frameBound(*w.End)
			ft.F["End"] = et
			toks = cat(toks, kw("BETWEEN"), stoks, kw("AND"), etoks)
		} else {
			toks = cat(toks, stoks)
		}
		t.F["FrameClause"] = ft
	}
	return t, paren(toks)
}

// CallOpts are the optional parts of a function call.
type CallOpts struct {
	Distinct    bool
	Star        bool // f(*)
	OrderBy     []OrderItem
	WithinGroup []OrderItem
	Filter      *X
	Over        *Window
}

func (g *G) Call(name string, args []X, o CallOpts) X {
	g.P.Functions[name] = true
	t := dump.N("FunctionCall", "Name", name, "Distinct", o.Distinct)
	toks := cat(one(sym(name)), one(sym("(")))
	if o.Distinct {
		toks = cat(toks, kw("DISTINCT"))
	}
	var ats []*dump.T
	if o.Star {
		toks = append(toks, sym("*"))
		ats = append(ats, dump.N("Identifier", "Name", "*"))
	}
	for i, a := range args {
		if i > 0 || o.Star {
			toks = append(toks, sym(","))
		}
		toks = cat(toks, g.wrap(a, PrecOr))
		ats = append(ats, a.T)
	}
	t.Set("Arguments", ats)
	if len(o.OrderBy) > 0 {
		ots, otoks := g.orderList(o.OrderBy)
		toks = cat(toks, kw("ORDER BY"), otoks)
		t.Set("OrderBy", ots)
	}
	toks = append(toks, sym(")"))
	if len(o.WithinGroup) > 0 {
		ots, otoks := g.orderList(o.WithinGroup)
		toks = cat(toks, kw("WITHIN GROUP"), paren(cat(kw("ORDER BY"), otoks)))
		t.Set("WithinGroup", ots)
	}
	if o.Filter != nil {
		toks = cat(toks, kw("FILTER"), paren(cat(kw("WHERE"), g.wrap(*o.Filter, PrecOr))))
		t.F["Filter"] = o.Filter.T
	}
	if o.Over != nil {
		wt, wtoks := g.windowSpec(o.Over)
		toks = cat(toks, kw("OVER"), wtoks)
		t.F["Over"] = wt
	}
	return X{T: t, Toks: toks, Prec: PrecPrimary}
}

// Case builds CASE [operand] WHEN c THEN r ... [ELSE e] END.
func (g *G) Case(operand *X, whens [][2]X, els *X) X {
	t := dump.N("CaseExpression")
	toks := kw("CASE")
	if operand != nil {
		t.F["Value"] = operand.T
		toks = cat(toks, g.wrap(*operand, PrecOr))
	}
	var wts []*dump.T
	for _, w := range whens {
		toks = cat(toks, kw("WHEN"), g.wrap(w[0], PrecOr), kw("THEN"), g.wrap(w[1], PrecOr))
		wts = append(wts, dump.N("WhenClause", "Condition", w[0].T, "Result", w[1].T))
	}
	t.Set("WhenClauses", wts)
	if els != nil {
		toks = cat(toks, kw("ELSE"), g.wrap(*els, PrecOr))
		t.F["ElseClause"] = els.T
	}
	toks = cat(toks, kw("END"))
	return X{T: t, Toks: toks, Prec: PrecPrimary}
}

func (g *G) Tuple(xs []X) X {
	var ts []*dump.T
	var toks []Tok
	for i, x := range xs {
		if i > 0 {
			toks = append(toks, sym(","))
		}
		toks = cat(toks, g.wrap(x, PrecOr))
		ts = append(ts, x.T)
	}
	return X{T: dump.N("TupleExpression", "Expressions", ts), Toks: paren(toks), Prec: PrecPrimary}
}

func (g *G) Array(xs []X) X {
	var ts []*dump.T
	toks := cat(kw("ARRAY"), one(sym("[")))
	for i, x := range xs {
		if i > 0 {
			toks = append(toks, sym(","))
		}
		toks = cat(toks, g.wrap(x, PrecOr))
		ts = append(ts, x.T)
	}
	toks = append(toks, sym("]"))
	return X{T: dump.N("ArrayConstructorExpression", "Elements", ts), Toks: toks, Prec: PrecPrimary}
}

func (g *G) Subscript(arr X, idx X) X {
	return X{T: dump.N("ArraySubscriptExpression", "Array", arr.T, "Indices", []*dump.T{idx.T}),
		Toks: cat(g.wrap(arr, PrecPrimary), one(sym("[")), g.wrap(idx, PrecOr), one(sym("]"))), Prec: PrecPrimary}
}

func (g *G) Slice(arr X, lo, hi *X) X {
	t := dump.N("ArraySliceExpression", "Array", arr.T)
	toks := cat(g.wrap(arr, PrecPrimary), one(sym("[")))
	if lo != nil {
		t.F["Start"] = lo.T
		toks = cat(toks, g.wrap(*lo, PrecOr))
	}
	toks = append(toks, sym(":"))
	if hi != nil {
		t.F["End"] = hi.T
		toks = cat(toks, g.wrap(*hi, PrecOr))
	}
	toks = append(toks, sym("]"))
	return X{T: t, Toks: toks, Prec: PrecPrimary}
}

// Match builds the MySQL full-text predicate MATCH(cols) AGAINST (search [mode words]) in the library's
// representation: a binary AGAINST whose right operand is a call named AGAINST holding the search
// expression and, if present, the mode words as one string.  The synthetic AGAINST call is not a function the
// statement calls (placement record: only MATCH).
func (g *G) Match(cols []X, search X, mode string) X {
	m := g.Call("MATCH", cols, CallOpts{})
	args := []*dump.T{search.T}
	toks := cat(m.Toks, one(sym("AGAINST")), one(sym("(")), g.wrap(search, PrecPrimary))
	for _, w := range strings.Fields(mode) {
		toks = append(toks, sym(w))
	}
	if mode != "" {
		args = append(args, dump.N("LiteralValue", "Value", mode, "Type", "STRING"))
	}
	toks = append(toks, sym(")"))
	against := dump.N("FunctionCall", "Name", "AGAINST", "Distinct", false)
	against.Set("Arguments", args)
	return X{T: dump.N("BinaryExpression", "Left", m.T, "Operator", "AGAINST", "Right", against), Toks: toks, Prec: PrecPrimary}
}

func (g *G) Interval(content string) X {
	g.P.Forbidden[content] = true
	lit := "'" + strings.ReplaceAll(strings.ReplaceAll(content, "\\", "\\\\"), "'", "''") + "'"
	return X{T: dump.N("IntervalExpression", "Value", content), Toks: cat(kw("INTERVAL"), one(sym(lit))), Prec: PrecPrimary}
}

func (g *G) Star() X {
	return X{T: dump.N("Identifier", "Name", "*"), Toks: one(sym("*")), Prec: PrecPrimary}
}

// ---------- random expressions ----------

func (g *G) col() X {
	if g.R.Intn(3) == 0 {
		return g.QIdent(g.pick(tblNames), g.pick(colNames))
	}
	return g.Ident(g.pick(colNames))
}

func (g *G) lit() X {
	switch g.R.Intn(8) {
	case 0:
		return g.Str(g.pick([]string{"x", "hello world", "it's", "", "select", "a,b", "100%", "order by", "left join", "GROUP BY", "full join", "grouping sets", "union all", "is not null", "first line  \nsecond line", "tab\there", " \n ", "back\\slash"}))
	case 1:
		return g.Float(g.pick([]string{"1.5", "0.25", "3.14", "1e5", "2.5E-3"}))
	case 2:
		if g.ok("bool-literal") {
			return g.Bool(g.R.Intn(2) == 0)
		}
	case 3:
		return g.Null()
	case 4:
		if g.ok("placeholder") {
			return g.Placeholder(g.pick([]string{"$1", "$2", "$3"}))
		}
	}
	return g.Int(g.pick([]string{"0", "1", "2", "10", "42", "100", "999"}))
}

// Val generates a value expression.
func (g *G) Val(d int) X {
	if d <= 0 {
		if g.R.Intn(3) == 0 {
			return g.lit()
		}
		return g.col()
	}
	switch g.R.Intn(22) {
	case 0, 1, 2:
		return g.Bin(g.pick(ArithOps), g.Val(d-1), g.Val(d-1))
	case 3:
		if g.ok("concat") {
			return g.Bin("||", g.Val(d-1), g.Val(d-1))
		}
	case 4:
		if g.ok("unary-minus") {
			return g.Neg(g.Val(0), g.R.Intn(5) == 0 && g.ok("unary-plus"))
		}
	case 5:
		if g.ok("cast-op") {
			return g.CastOp(g.Val(d-1), g.pick(typeNames))
		}
	case 6:
		if g.ok("cast") {
			return g.Cast(g.Val(d-1), g.pick([]string{"INT", "TEXT", "BIGINT", "DATE", "VARCHAR(10)", "NUMERIC(10,2)", "INT[]"}))
		}
	case 7, 8:
		return g.randCall(d)
	case 9:
		if g.ok("case") {
			return g.randCase(d)
		}
	case 10:
		if g.ok("scalar-subquery") {
			return g.Subquery(g.SimpleQuery(d - 1))
		}
	case 11:
		if g.ok("array") {
			n := 1 + g.R.Intn(3)
			var xs []X
			for i := 0; i < n; i++ {
				xs = append(xs, g.Val(d-1))
			}
			return g.Array(xs)
		}
	case 12:
		if g.ok("subscript") {
			return g.Subscript(g.col(), g.Val(d-1))
		}
	case 13:
		if g.ok("slice") {
			// operands are generated only when they are written (the placement record must match the text)
			switch g.R.Intn(3) {
			case 0:
				arr := g.col()
				lo, hi := g.Val(0), g.Val(0)
				return g.Slice(arr, &lo, &hi)
			case 1:
				arr := g.col()
				hi := g.Val(0)
				return g.Slice(arr, nil, &hi)
			}
			arr := g.col()
			lo := g.Val(0)
			return g.Slice(arr, &lo, nil)
		}
	case 14:
		if g.ok("interval") {
			return g.Interval(g.pick([]string{"1 day", "2 hours", "3 months"}))
		}
	case 15:
		if g.ok("json-op") {
			return g.Bin(g.pick(JSONOps), g.col(), g.Str(g.pick([]string{"k", "a", "{}"})))
		}
	case 16:
		if g.ok("bool-as-value") {
			return g.Pred(d - 1)
		}
	}
	if g.R.Intn(2) == 0 {
		return g.lit()
	}
	return g.col()
}

func (g *G) randOrder(d, max int) []OrderItem {
	n := 1 + g.R.Intn(max)
	var out []OrderItem
	for i := 0; i < n; i++ {
		it := OrderItem{E: g.Val(d)}
		switch g.R.Intn(3) {
		case 0:
			it.Desc = true
		case 1:
			it.Asc = true
		}
		if g.ok("nulls-order") && g.R.Intn(3) == 0 {
			it.Nulls = 1 + g.R.Intn(2)
		}
		out = append(out, it)
	}
	return out
}

func (g *G) randWindow(d int) *Window {
	w := &Window{}
	if g.R.Intn(2) == 0 {
		n := 1 + g.R.Intn(2)
		for i := 0; i < n; i++ {
			w.Partition = append(w.Partition, g.Val(d))
		}
	}
	if g.R.Intn(2) == 0 {
		w.Order = g.randOrder(d, 2)
	}
	if g.ok("window-frame") && g.R.Intn(3) == 0 {
		w.FrameType = g.pick([]string{"ROWS", "RANGE"})
		w.Start = g.randBound(true)
		if g.R.Intn(2) == 0 {
			e := g.randBound(false)
			w.End = &e
		}
	}
	return w
}

func (g *G) randBound(start bool) FrameBound {
	k := g.R.Intn(4)
	if !start {
		k++
	}
	b := FrameBound{Kind: k}
	if k == 1 || k == 3 {
		b.N = g.Int(g.pick([]string{"1", "2", "5"}))
	}
	return b
}

func (g *G) randCall(d int) X {
	name := g.pick(fnNames)
	n := g.R.Intn(3)
	var args []X
	for i := 0; i < n; i++ {
		args = append(args, g.Val(d-1))
	}
	o := CallOpts{}
	if n == 0 && g.R.Intn(3) == 0 && g.ok("call-star") {
		o.Star = true
	}
	if n > 0 && g.R.Intn(5) == 0 && g.ok("call-distinct") {
		o.Distinct = true
	}
	if n > 0 && g.R.Intn(8) == 0 && g.ok("agg-order-by") {
		o.OrderBy = g.randOrder(d-1, 2)
	}
	if n > 0 && g.R.Intn(10) == 0 && g.ok("within-group") && len(o.OrderBy) == 0 {
		o.WithinGroup = g.randOrder(d-1, 1)
	}
	if g.R.Intn(8) == 0 && g.ok("filter") {
		f := g.Bool_(d - 1)
		o.Filter = &f
	}
	if g.R.Intn(5) == 0 && g.ok("over") {
		o.Over = g.randWindow(d - 1)
	}
	return g.Call(name, args, o)
}

func (g *G) randCase(d int) X {
	var operand *X
	nw := 1 + g.R.Intn(2)
	var whens [][2]X
	if g.R.Intn(2) == 0 {
		v := g.Val(d - 1)
		operand = &v
		for i := 0; i < nw; i++ {
			whens = append(whens, [2]X{g.Val(d - 1), g.Val(d - 1)})
		}
	} else {
		for i := 0; i < nw; i++ {
			whens = append(whens, [2]X{g.Bool_(d - 1), g.Val(d - 1)})
		}
	}
	var els *X
	if g.R.Intn(2) == 0 {
		e := g.Val(d - 1)
		els = &e
	}
	return g.Case(operand, whens, els)
}

// Pred generates an atomic predicate.
func (g *G) Pred(d int) X {
	if d < 0 {
		d = 0
	}
	for {
		switch g.R.Intn(14) {
		case 0, 1, 2, 3:
			return g.Bin(g.pick(CmpOps), g.Val(d), g.Val(d))
		case 4:
			if g.ok("is-null") {
				not := g.R.Intn(2) == 0
				if not && !g.ok("is-not-null") {
					not = false
				}
				return g.IsNull(g.Val(d), not)
			}
		case 5:
			if g.ok("in-list") {
				n := 1 + g.R.Intn(3)
				var xs []X
				for i := 0; i < n; i++ {
					xs = append(xs, g.Val(d))
				}
				return g.InList(g.Val(d), g.R.Intn(3) == 0 && g.ok("not-in"), xs)
			}
		case 6:
			if g.ok("in-subquery") && d > 0 {
				return g.InQuery(g.Val(d-1), g.R.Intn(3) == 0 && g.ok("not-in"), g.SimpleQuery(d-1))
			}
		case 7:
			if g.ok("between") {
				return g.Between(g.Val(d), g.R.Intn(3) == 0 && g.ok("not-between"), g.Val(d), g.Val(d))
			}
		case 8:
			if g.ok("like") {
				op := "LIKE"
				if g.R.Intn(3) == 0 && g.ok("ilike") {
					op = "ILIKE"
				}
				return g.Like(op, g.Val(d), g.R.Intn(3) == 0 && g.ok("not-like"), g.Str(g.pick([]string{"a%", "%x%", "_b"})))
			}
		case 9:
			if g.ok("exists") && d > 0 {
				not := g.R.Intn(3) == 0 && g.ok("not-exists")
				return g.Exists(g.SimpleQuery(d-1), not)
			}
		case 10:
			if g.ok("quantified") && d > 0 {
				return g.Quantified(g.Val(d-1), g.pick(CmpOps), g.pick([]string{"ANY", "ALL"}), g.SimpleQuery(d-1))
			}
		case 11:
			if g.ok("tuple") {
				return g.Bin("=", g.Tuple([]X{g.Val(0), g.Val(0)}), g.Tuple([]X{g.Val(0), g.Val(0)}))
			}
		}
	}
}

// Bool_ generates a boolean expression (conditions).
func (g *G) Bool_(d int) X {
	if d <= 0 {
		return g.Pred(0)
	}
	switch g.R.Intn(8) {
	case 0, 1:
		return g.Bin("AND", g.Bool_(d-1), g.Bool_(d-1))
	case 2, 3:
		return g.Bin("OR", g.Bool_(d-1), g.Bool_(d-1))
	case 4:
		if g.ok("not") {
			return g.Not(g.Bool_(d - 1))
		}
	}
	return g.Pred(d - 1)
}

func (g *G) alias() string {
	g.nAlias++
	a := fmt.Sprintf("al%d", g.nAlias)
	g.P.Forbidden[a] = true
	return a
}
