package gen

import (
	"math/rand"
	"strings"

	"verifharness/dump"
)

// Layout chooses separators and keyword case. It never changes the lexemes.
type Layout struct {
	KwCase int // 0 upper, 1 lower, 2 mixed per keyword
	Sep    int // 0 single space, 1 newlines, 2 mixed blanks, 3 with comments
	R      *rand.Rand
}

var seps = []string{" ", "\n", "  ", "\t", " \n ", "\r\n"}
var commentSeps = []string{" /* c */ ", " -- note\n", "/**/", "\n-- x\n"}

func Render(toks []Tok, l Layout) string {
	var sb strings.Builder
	for i, t := range toks {
		if i > 0 {
			switch l.Sep {
			case 0:
				sb.WriteByte(' ')
			case 1:
				if t.Kw && l.R != nil && l.R.Intn(2) == 0 {
					sb.WriteByte('\n')
				} else {
					sb.WriteByte(' ')
				}
			case 2:
				sb.WriteString(seps[l.R.Intn(len(seps))])
			case 3:
				if l.R.Intn(5) == 0 {
					sb.WriteString(commentSeps[l.R.Intn(len(commentSeps))])
				} else {
					sb.WriteString(seps[l.R.Intn(len(seps))])
				}
			}
		}
		s := t.S
		if t.Kw {
			switch l.KwCase {
			case 1:
				s = strings.ToLower(s)
			case 2:
				if l.R.Intn(2) == 0 {
					s = strings.ToLower(s)
				} else if l.R.Intn(3) == 0 && len(s) > 1 {
					s = s[:1] + strings.ToLower(s[1:])
				}
			}
		}
		sb.WriteString(s)
	}
	return sb.String()
}

// Plain renders with single spaces and upper-case keywords.
func Plain(toks []Tok) string { return Render(toks, Layout{}) }

// AST wraps statement trees into the expected (AST Statements=[…]) tree.
func AST(stmts ...X) *dump.T {
	var ts []*dump.T
	for _, s := range stmts {
		ts = append(ts, s.T)
	}
	return dump.N("AST", "Statements", ts)
}
