package gen

import (
	"math/rand"
)

// Poison tokens: lexemes that are legal in no syntactic context of the model grammar.
var Poison = []string{"]", "?|", "THEN", ")", "#>>", "END", "["}

// MutateToks returns a token-level corruption of toks and the index of the first changed token.
// kinds: 0 delete, 1 duplicate, 2 replace by poison, 3 swap neighbours, 4 truncate after k, 5 insert poison
func MutateToks(r *rand.Rand, toks []Tok) ([]Tok, int, string) {
	if len(toks) < 2 {
		return append([]Tok{}, toks...), 0, "none"
	}
	k := r.Intn(len(toks))
	out := make([]Tok, 0, len(toks)+1)
	switch r.Intn(6) {
	case 0:
		out = append(out, toks[:k]...)
		out = append(out, toks[k+1:]...)
		return out, k, "delete"
	case 1:
		out = append(out, toks[:k+1]...)
		out = append(out, toks[k:]...)
		return out, k + 1, "duplicate"
	case 2:
		out = append(out, toks...)
		out[k] = Tok{S: Poison[r.Intn(len(Poison))]}
		return out, k, "replace"
	case 3:
		if k == len(toks)-1 {
			k--
		}
		out = append(out, toks...)
		out[k], out[k+1] = out[k+1], out[k]
		return out, k, "swap"
	case 4:
		if k == 0 {
			k = 1
		}
		out = append(out, toks[:k]...)
		return out, k, "truncate"
	default:
		out = append(out, toks[:k]...)
		out = append(out, Tok{S: Poison[r.Intn(len(Poison))]})
		out = append(out, toks[k:]...)
		return out, k, "insert"
	}
}
