// Package dump renders any AST value (or any Go value) as a canonical,
// deterministic S-expression by reflection. nil and empty slices are equal;
// listed representation-only fields are skipped; every other exported field is
// printed, so a field added to the library later is compared automatically.
package dump

import (
	"fmt"
	"reflect"
	"sort"
	"strconv"
	"strings"
)

// Options controls normalisation.
type Options struct {
	FoldKeywordCase bool // upper-case the values of fields known to hold keywords / operator words
}

// skipped fields: compatibility duplicates that restate other fields.
var skipFields = map[string]bool{
	"SelectStatement.TableName": true,
}

// fields holding keyword-valued strings (compared case-insensitively when FoldKeywordCase is set).
var keywordFields = map[string]bool{
	"BinaryExpression.Operator": true, "SetOperation.Operator": true, "JoinClause.Type": true,
	"WindowFrame.Type": true, "WindowFrameBound.Type": true, "ForClause.LockType": true,
	"FetchClause.FetchType": true, "AnyExpression.Operator": true, "AllExpression.Operator": true,
	"CastExpression.Type": true, "ColumnDef.Type": true, "ColumnConstraint.Type": true,
	"TableConstraint.Type": true, "DropStatement.ObjectType": true, "DropStatement.CascadeType": true,
	"TruncateStatement.CascadeType": true, "MergeWhenClause.Type": true, "MergeAction.ActionType": true,
	"ExtractExpression.Field": true, "IndexColumn.Direction": true, "ReferenceDefinition.OnDelete": true,
	"ReferenceDefinition.OnUpdate": true, "IntervalExpression.Value": false,
	"AlterTableAction.Type": true, "PartitionBy.Type": true, "CreateViewStatement.WithOption": true,
}

func Dump(v interface{}) string { return DumpOpt(v, Options{}) }

func DumpFold(v interface{}) string { return DumpOpt(v, Options{FoldKeywordCase: true}) }

func DumpOpt(v interface{}, o Options) string {
	var sb strings.Builder
	d := &dumper{o: o, sb: &sb, seen: map[uintptr]int{}}
	d.val(reflect.ValueOf(v), 0)
	return sb.String()
}

type dumper struct {
	o    Options
	sb   *strings.Builder
	seen map[uintptr]int
}

func isEmpty(v reflect.Value) bool {
	switch v.Kind() {
	case reflect.Ptr, reflect.Interface:
		return v.IsNil()
	case reflect.Slice, reflect.Map:
		return v.Len() == 0
	case reflect.String:
		return v.Len() == 0
	case reflect.Bool:
		return !v.Bool()
	case reflect.Int, reflect.Int8, reflect.Int16, reflect.Int32, reflect.Int64:
		return v.Int() == 0
	case reflect.Uint, reflect.Uint8, reflect.Uint16, reflect.Uint32, reflect.Uint64:
		return v.Uint() == 0
	case reflect.Float32, reflect.Float64:
		return v.Float() == 0
	case reflect.Invalid:
		return true
	}
	return false
}

func (d *dumper) val(v reflect.Value, depth int) {
	if depth > 5000 {
		d.sb.WriteString("<too-deep>")
		return
	}
	switch v.Kind() {
	case reflect.Invalid:
		d.sb.WriteString("nil")
	case reflect.Interface:
		if v.IsNil() {
			d.sb.WriteString("nil")
			return
		}
		d.val(v.Elem(), depth+1)
	case reflect.Ptr:
		if v.IsNil() {
			d.sb.WriteString("nil")
			return
		}
		if v.Elem().Kind() == reflect.Struct {
			p := v.Pointer()
			if d.seen[p] > 0 {
				d.sb.WriteString("<cycle>")
				return
			}
			d.seen[p]++
			d.val(v.Elem(), depth+1)
			d.seen[p]--
			return
		}
		d.sb.WriteString("&")
		d.val(v.Elem(), depth+1)
	case reflect.Struct:
		t := v.Type()
		d.sb.WriteString("(")
		d.sb.WriteString(t.Name())
		for i := 0; i < t.NumField(); i++ {
			f := t.Field(i)
			if f.PkgPath != "" { // unexported
				continue
			}
			key := t.Name() + "." + f.Name
			if skipFields[key] {
				continue
			}
			fv := v.Field(i)
			if isEmpty(fv) {
				continue
			}
			d.sb.WriteString(" ")
			d.sb.WriteString(f.Name)
			d.sb.WriteString("=")
			if d.o.FoldKeywordCase && keywordFields[key] && fv.Kind() == reflect.String {
				d.sb.WriteString(strconv.Quote(strings.ToUpper(fv.String())))
				continue
			}
			d.val(fv, depth+1)
		}
		d.sb.WriteString(")")
	case reflect.Slice, reflect.Array:
		if v.Kind() == reflect.Slice && v.Len() == 0 {
			d.sb.WriteString("nil")
			return
		}
		d.sb.WriteString("[")
		for i := 0; i < v.Len(); i++ {
			if i > 0 {
				d.sb.WriteString(" ")
			}
			d.val(v.Index(i), depth+1)
		}
		d.sb.WriteString("]")
	case reflect.Map:
		if v.Len() == 0 {
			d.sb.WriteString("nil")
			return
		}
		keys := v.MapKeys()
		strs := make([]string, len(keys))
		for i, k := range keys {
			strs[i] = fmt.Sprint(k.Interface())
		}
		idx := make([]int, len(keys))
		for i := range idx {
			idx[i] = i
		}
		sort.Slice(idx, func(a, b int) bool { return strs[idx[a]] < strs[idx[b]] })
		d.sb.WriteString("{")
		for _, i := range idx {
			d.sb.WriteString(strs[i])
			d.sb.WriteString(":")
			d.val(v.MapIndex(keys[i]), depth+1)
			d.sb.WriteString(" ")
		}
		d.sb.WriteString("}")
	case reflect.String:
		d.sb.WriteString(strconv.Quote(v.String()))
	case reflect.Bool:
		d.sb.WriteString(strconv.FormatBool(v.Bool()))
	case reflect.Int, reflect.Int8, reflect.Int16, reflect.Int32, reflect.Int64:
		d.sb.WriteString(strconv.FormatInt(v.Int(), 10))
	case reflect.Uint, reflect.Uint8, reflect.Uint16, reflect.Uint32, reflect.Uint64, reflect.Uintptr:
		d.sb.WriteString(strconv.FormatUint(v.Uint(), 10))
	case reflect.Float32, reflect.Float64:
		d.sb.WriteString(strconv.FormatFloat(v.Float(), 'g', -1, 64))
	case reflect.Func, reflect.Chan, reflect.UnsafePointer:
		d.sb.WriteString("<" + v.Kind().String() + ">")
	default:
		d.sb.WriteString(fmt.Sprint(v))
	}
}
