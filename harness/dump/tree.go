package dump

import (
	"fmt"
	"reflect"
	"sort"
	"strconv"
	"strings"
)

// T is the neutral tree: a struct node (Type + non-empty fields), a list, or a scalar.
type T struct {
	Type   string
	F      map[string]*T
	L      []*T
	IsList bool
	Scalar string
}

// N builds a struct node; kv alternates field name, value (*T, string→quoted scalar, bool, int, []*T).
func N(typ string, kv ...interface{}) *T {
	t := &T{Type: typ, F: map[string]*T{}}
	for i := 0; i+1 < len(kv); i += 2 {
		t.Set(kv[i].(string), kv[i+1])
	}
	return t
}

// Set sets a field; empty values (nil, "", false, 0, empty list) are dropped, matching the dumper.
func (t *T) Set(name string, v interface{}) *T {
	switch x := v.(type) {
	case nil:
	case *T:
		if x != nil && !(x.IsList && len(x.L) == 0) {
			t.F[name] = x
		}
	case string:
		if x != "" {
			t.F[name] = &T{Scalar: strconv.Quote(x)}
		}
	case bool:
		if x {
			t.F[name] = &T{Scalar: "true"}
		}
	case int:
		if x != 0 {
			t.F[name] = &T{Scalar: strconv.Itoa(x)}
		}
	case []*T:
		if len(x) > 0 {
			t.F[name] = &T{IsList: true, L: x}
		}
	default:
		panic(fmt.Sprintf("dump.T.Set: unsupported %T", v))
	}
	return t
}

func Str(s string) *T      { return &T{Scalar: strconv.Quote(s)} }
func Raw(s string) *T      { return &T{Scalar: s} }
func List(xs ...*T) *T     { return &T{IsList: true, L: xs} }
func PtrBool(b bool) *T    { return &T{Scalar: "&" + strconv.FormatBool(b)} }
func PtrInt(i int64) *T    { return &T{Scalar: "&" + strconv.FormatInt(i, 10)} }

func (t *T) String() string {
	var sb strings.Builder
	t.write(&sb)
	return sb.String()
}

func (t *T) write(sb *strings.Builder) {
	if t == nil {
		sb.WriteString("nil")
		return
	}
	if t.IsList {
		sb.WriteString("[")
		for i, e := range t.L {
			if i > 0 {
				sb.WriteString(" ")
			}
			e.write(sb)
		}
		sb.WriteString("]")
		return
	}
	if t.Type == "" {
		sb.WriteString(t.Scalar)
		return
	}
	sb.WriteString("(")
	sb.WriteString(t.Type)
	keys := make([]string, 0, len(t.F))
	for k := range t.F {
		keys = append(keys, k)
	}
	sort.Strings(keys)
	for _, k := range keys {
		sb.WriteString(" ")
		sb.WriteString(k)
		sb.WriteString("=")
		t.F[k].write(sb)
	}
	sb.WriteString(")")
}

// Diff returns "" when equal, else the path of the first difference with both values.
func Diff(want, got *T) string {
	return diff(want, got, "")
}

func short(t *T) string {
	s := t.String()
	if len(s) > 160 {
		s = s[:160] + "…"
	}
	return s
}

func diff(a, b *T, path string) string {
	if a == nil && b == nil {
		return ""
	}
	if a == nil || b == nil {
		return fmt.Sprintf("%s: want %s got %s", path, short(a), short(b))
	}
	if a.IsList != b.IsList || (a.Type == "") != (b.Type == "") {
		return fmt.Sprintf("%s: want %s got %s", path, short(a), short(b))
	}
	if a.IsList {
		n := len(a.L)
		if len(b.L) < n {
			n = len(b.L)
		}
		for i := 0; i < n; i++ {
			if d := diff(a.L[i], b.L[i], fmt.Sprintf("%s[%d]", path, i)); d != "" {
				return d
			}
		}
		if len(a.L) != len(b.L) {
			return fmt.Sprintf("%s: want %d elements got %d", path, len(a.L), len(b.L))
		}
		return ""
	}
	if a.Type == "" {
		if a.Scalar != b.Scalar {
			return fmt.Sprintf("%s: want %s got %s", path, a.Scalar, b.Scalar)
		}
		return ""
	}
	if a.Type != b.Type {
		return fmt.Sprintf("%s: want %s got %s", path, short(a), short(b))
	}
	keys := map[string]bool{}
	for k := range a.F {
		keys[k] = true
	}
	for k := range b.F {
		keys[k] = true
	}
	ks := make([]string, 0, len(keys))
	for k := range keys {
		ks = append(ks, k)
	}
	sort.Strings(ks)
	for _, k := range ks {
		if d := diff(a.F[k], b.F[k], path+"/"+a.Type+"."+k); d != "" {
			return d
		}
	}
	return ""
}

// DiffKey reduces a Diff result to its path with list indices removed (for identities).
func DiffKey(d string) string {
	if i := strings.Index(d, ": want"); i >= 0 {
		d = d[:i]
	}
	var sb strings.Builder
	skip := false
	for _, r := range d {
		if r == '[' {
			skip = true
			continue
		}
		if r == ']' {
			skip = false
			continue
		}
		if !skip {
			sb.WriteRune(r)
		}
	}
	return sb.String()
}

// extra skipped fields for tree form
var treeSkip = map[string]bool{
	"SelectStatement.TableName": true,
	"JoinClause.Left":           true,
}

// Tree converts a Go value (typically *ast.AST or a node) to a neutral tree.
// Keyword-valued fields are upper-cased (the property allows keyword case to differ).
func Tree(v interface{}) *T {
	c := &conv{seen: map[uintptr]int{}}
	return c.val(reflect.ValueOf(v), 0)
}

type conv struct{ seen map[uintptr]int }

func (c *conv) val(v reflect.Value, depth int) *T {
	if depth > 4000 {
		return &T{Scalar: "<too-deep>"}
	}
	switch v.Kind() {
	case reflect.Invalid:
		return nil
	case reflect.Interface:
		if v.IsNil() {
			return nil
		}
		return c.val(v.Elem(), depth+1)
	case reflect.Ptr:
		if v.IsNil() {
			return nil
		}
		if v.Elem().Kind() == reflect.Struct {
			p := v.Pointer()
			if c.seen[p] > 0 {
				return &T{Scalar: "<cycle>"}
			}
			c.seen[p]++
			t := c.val(v.Elem(), depth+1)
			c.seen[p]--
			return t
		}
		in := c.val(v.Elem(), depth+1)
		if in == nil {
			// pointer to an "empty" scalar: still non-nil, keep it visible
			return &T{Scalar: "&" + fmt.Sprint(v.Elem().Interface())}
		}
		if in.Type == "" && !in.IsList {
			return &T{Scalar: "&" + in.Scalar}
		}
		return in
	case reflect.Struct:
		t := v.Type()
		n := &T{Type: t.Name(), F: map[string]*T{}}
		for i := 0; i < t.NumField(); i++ {
			f := t.Field(i)
			if f.PkgPath != "" {
				continue
			}
			key := t.Name() + "." + f.Name
			if treeSkip[key] {
				continue
			}
			fv := v.Field(i)
			if isEmpty(fv) {
				continue
			}
			if keywordFields[key] && fv.Kind() == reflect.String {
				n.F[f.Name] = &T{Scalar: strconv.Quote(strings.ToUpper(fv.String()))}
				continue
			}
			ch := c.val(fv, depth+1)
			if ch != nil {
				n.F[f.Name] = ch
			}
		}
		// library idiom: NOT EXISTS q arrives as BinaryExpression{Left: Exists, Operator: "NOT", Not: true};
		// it carries the same content as UnaryExpression{Not, Exists} and maps to that.
		if t.Name() == "BinaryExpression" && len(n.F) == 3 {
			if op := n.F["Operator"]; op != nil && op.Scalar == `"NOT"` && n.F["Not"] != nil {
				if l := n.F["Left"]; l != nil && l.Type == "ExistsExpression" {
					return &T{Type: "UnaryExpression", F: map[string]*T{"Operator": {Scalar: "2"}, "Expr": l}}
				}
			}
		}
		if t.Name() == "LiteralValue" {
			if ty := n.F["Type"]; ty != nil && (ty.Scalar == `"bool"`) {
				if val := n.F["Value"]; val != nil {
					val.Scalar = strings.ToUpper(val.Scalar)
				}
			}
		}
		return n
	case reflect.Slice, reflect.Array:
		if v.Len() == 0 {
			return nil
		}
		l := &T{IsList: true}
		for i := 0; i < v.Len(); i++ {
			e := c.val(v.Index(i), depth+1)
			if e == nil {
				e = &T{Scalar: "nil"}
			}
			l.L = append(l.L, e)
		}
		return l
	case reflect.Map:
		if v.Len() == 0 {
			return nil
		}
		keys := v.MapKeys()
		sort.Slice(keys, func(a, b int) bool { return fmt.Sprint(keys[a].Interface()) < fmt.Sprint(keys[b].Interface()) })
		n := &T{Type: "map", F: map[string]*T{}}
		for _, k := range keys {
			n.F[fmt.Sprint(k.Interface())] = c.val(v.MapIndex(k), depth+1)
		}
		return n
	case reflect.String:
		if v.Len() == 0 {
			return nil
		}
		return &T{Scalar: strconv.Quote(v.String())}
	case reflect.Bool:
		if !v.Bool() {
			return nil
		}
		return &T{Scalar: "true"}
	case reflect.Int, reflect.Int8, reflect.Int16, reflect.Int32, reflect.Int64:
		if v.Int() == 0 {
			return nil
		}
		return &T{Scalar: strconv.FormatInt(v.Int(), 10)}
	case reflect.Uint, reflect.Uint8, reflect.Uint16, reflect.Uint32, reflect.Uint64:
		if v.Uint() == 0 {
			return nil
		}
		return &T{Scalar: strconv.FormatUint(v.Uint(), 10)}
	case reflect.Float32, reflect.Float64:
		if v.Float() == 0 {
			return nil
		}
		return &T{Scalar: strconv.FormatFloat(v.Float(), 'g', -1, 64)}
	default:
		return &T{Scalar: "<" + v.Kind().String() + ">"}
	}
}
