// Package lexgen generates sequences of lexemes from a small reference lexical
// grammar together with everything known about them by construction: class,
// decoded value, byte offset, line and column of every element and comment.
package lexgen

import (
	"math/rand"
	"strings"
	"unicode/utf8"
)

// Class of a lexeme in the reference grammar.
type Class int

const (
	Word        Class = iota // unquoted keyword or identifier
	Number
	String      // single-quoted string literal
	QIdent      // double-quoted identifier
	Backtick    // back-ticked identifier
	Placeholder // $1
	DollarStr   // $tag$...$tag$
	Op          // operator or punctuation
)

func (c Class) String() string {
	return [...]string{"word", "number", "string", "qident", "backtick", "placeholder", "dollar-string", "op"}[c]
}

// Lexeme is one element with its written text and decoded value.
type Lexeme struct {
	Class   Class
	Text    string // as written
	Value   string // decoded value the token must carry
	Keyword bool   // Word that is an SQL keyword (compared case-insensitively)
}

// Placed is a lexeme or comment with its position in the generated text.
type Placed struct {
	Lexeme
	Offset, EndOffset int
	Line, Col         int // 1-based, of the first byte
	EndLine, EndCol   int // of the byte after the last one
}

type Comment struct {
	Text              string
	Block             bool
	Offset, EndOffset int
	Line, Col         int
	EndLine, EndCol   int
}

// Text is a generated input.
type Text struct {
	S        string
	Lexemes  []Placed
	Comments []Comment
	ASCIINoTab bool // every line is ASCII and tab-free: columns can be asserted exactly
}

var Keywords = []string{"SELECT", "FROM", "WHERE", "AND", "OR", "NOT", "AS", "ON", "IN", "IS", "NULL", "LIKE", "BETWEEN", "CASE", "WHEN", "THEN", "ELSE", "END",
	"INSERT", "INTO", "VALUES", "UPDATE", "SET", "DELETE", "CREATE", "TABLE", "DISTINCT", "HAVING", "LIMIT", "OFFSET", "UNION", "ALL", "EXISTS", "WITH", "DESC", "ASC", "TRUE", "FALSE"}

// words that start compound keywords in the library are kept apart from their second word by the generator
var compoundStarts = map[string]bool{"GROUP": true, "ORDER": true, "LEFT": true, "RIGHT": true, "INNER": true, "OUTER": true, "CROSS": true, "NATURAL": true, "FULL": true, "GROUPING": true}

var Idents = []string{"a", "b1", "col_2", "tbl", "x", "users", "_tmp", "naïve", "名前", "Ünïcode_1", "selectx", "fromage", "a1b2", "注文\uff3f番号", "user\u203fid"}

// Ops is the documented operator and punctuation set.
var Ops = []string{"(", ")", "[", "]", ",", ";", ".", "+", "-", "*", "/", "%", "=", "<>", "!=", "<", "<=", ">", ">=", "||", "::",
	"->", "->>", "#>", "#>>", "@>", "<@", "?", "?|", "?&", "#-", "~", "~*", "!~", "!~*", "=>", "&&", "@@", "|", "&"}

var Numbers = []string{"0", "1", "42", "007", "1.5", "3.14159", "1e5", "1E5", "1e-5", "2.5E+3", "1000000"}

type strForm struct{ text, value string }

var Strings = []strForm{
	{"'abc'", "abc"}, {"''", ""}, {"'it''s'", "it's"}, {"'a b  c'", "a b  c"}, {"'select from'", "select from"}, {"'-- not a comment'", "-- not a comment"},
	{"'/* nor this */'", "/* nor this */"}, {"'a\\\\b'", "a\\b"}, {"'tab\\tx'", "tab\tx"}, {"'nl\\nx'", "nl\nx"}, {"'q\\'x'", "q'x"}, {"'dq\"x'", "dq\"x"},
	{"'two\nlines'", "two\nlines"}, {"'héllo wörld'", "héllo wörld"}, {"'日本語'", "日本語"}, {"'100%'", "100%"}, {"'$1'", "$1"}, {"';'", ";"},
	// typographic quotes delimit strings too; a doubled closing quote stands for one apostrophe
	{"\u2018abc\u2019", "abc"}, {"\u2018it\u2019\u2019s\u2019", "it's"}, {"'it'\u2019s'", "it's"}, {"\u2018a\u2019\u2019\u2019", "a'"},
}

var QIdents = []strForm{{`"a\tb"`, `a\tb`}, {`"C:\data"`, `C:\data`}, {`"dom\user"`, `dom\user`}, {`"100\%"`, `100\%`}, {`"back\\slash"`, `back\\slash`}, {`"abc"`, "abc"}, {`"Mixed Case"`, "Mixed Case"}, {`"select"`, "select"}, {`"a""b"`, `a"b`}, {`"from"`, "from"}, {`"naïve col"`, "naïve col"}, {`"a.b"`, "a.b"}, {`"it's"`, "it's"}}

var Backticks = []strForm{{"`abc`", "abc"}, {"`select`", "select"}, {"`my col`", "my col"}, {"`order`", "order"}}

var DollarStrs = []strForm{{"$$body$$", "body"}, {"$tag$ it's $tag$", " it's "}, {"$q$a $$ b$q$", "a $$ b"}, {"$$$$", ""}, {"$$order by$$", "order by"}, {"$k$LEFT JOIN$k$", "LEFT JOIN"},
	{"$fn$SELECT $1 + $2$fn$", "SELECT $1 + $2"}, {"$$SELECT $1$$", "SELECT $1"}, {"$q$cost in $us$q$", "cost in $us"}, {"$a$x$1$a$", "x$1"}, {"$a$ $b$ inner $b$ $a$", " $b$ inner $b$ "},
	// eighth round: line breaks inside the body (every later position depends on them being counted)
	{"$$two\nlines$$", "two\nlines"}, {"$body$\nBEGIN\n  RETURN 1;\nEND\n$body$", "\nBEGIN\n  RETURN 1;\nEND\n"}, {"$$\n$$", "\n"}, {"$t$a\n\n\tb$t$", "a\n\n\tb"}}

func isWordByte(b byte) bool {
	return b == '_' || b >= '0' && b <= '9' || b >= 'a' && b <= 'z' || b >= 'A' && b <= 'Z' || b >= 0x80
}

// NeedSeparator reports whether a and b may not be written next to each other
// without changing the lexeme sequence under a max-munch reading.
func NeedSeparator(a, b Lexeme) bool {
	la, fb := a.Text[len(a.Text)-1], b.Text[0]
	// two word-like things merge
	if isWordByte(la) && isWordByte(fb) {
		return true
	}
	if a.Class == Number && (fb == '.' || b.Class == Number || b.Class == Word) {
		return true
	}
	if b.Class == Number && (la == '.' || a.Class == Word) {
		return true
	}
	if a.Class == Word && b.Class == String || a.Class == Word && b.Class == QIdent {
		return true // N'..' / x'..' / E'..' prefixes
	}
	// quotes: 'a''b' and "a""b" merge
	if (a.Class == String && b.Class == String) || (a.Class == QIdent && b.Class == QIdent) || (a.Class == Backtick && b.Class == Backtick) {
		return true
	}
	if a.Class == Placeholder || b.Class == Placeholder || a.Class == DollarStr || b.Class == DollarStr {
		if isWordByte(la) || isWordByte(fb) || la == '$' && fb == '$' {
			return true
		}
	}
	if a.Class == Op && b.Class == Op || a.Class == Op && fb == '-' || la == '-' && b.Class == Op {
		j := a.Text + b.Text
		// comment openers / closers
		if strings.Contains(j, "--") || strings.Contains(j, "/*") || strings.Contains(j, "*/") {
			return true
		}
		// max-munch over the operator set must give back exactly a, b
		got := munchOps(j)
		if len(got) != 2 || got[0] != a.Text || got[1] != b.Text {
			return true
		}
	}
	if a.Class == Op && a.Text == "." && (b.Class == Number) || b.Class == Op && b.Text == "." && a.Class == Number {
		return true
	}
	// an operator character followed by something that could extend it ( ':' ':' , '$' ...)
	if la == ':' || fb == ':' && la == ':' {
		return a.Class == Op && b.Class == Op
	}
	if la == '$' || la == '@' || la == '#' && fb == '-' {
		return true
	}
	if a.Class == Op && (a.Text == "?" || a.Text == "@>" || a.Text == "#>" || a.Text == "->") && (fb == '|' || fb == '&' || fb == '>') {
		return true
	}
	return false
}

func munchOps(s string) []string {
	var out []string
	for len(s) > 0 {
		best := ""
		for _, o := range Ops {
			if strings.HasPrefix(s, o) && len(o) > len(best) {
				best = o
			}
		}
		if best == "" {
			return nil
		}
		out = append(out, best)
		s = s[len(best):]
	}
	return out
}

// Separator classes.
var SepNames = []string{"none", "space", "spaces", "tab", "newline", "crlf", "blank-line", "line-comment", "block-comment", "empty-block-comment", "comment-mix", "block-comment-odd", "line-comment-odd", "tab-comment-tab", "lone-cr"}

// BlockBodies / LineBodies are the unusual comment spellings used by the *-odd separator kinds; Rot rotates through them.
var BlockBodies = []string{"/***/", "/** doc **/", "/* a*b */", "/* * / */", "/*/ x */", "/* -- */", "/* ' \" ` */", "/* multi\n * line\n **/", "/****/", "/* ;; */", "/* é 日本 */", "/* $1 $$ */", "/*\t*/", "/* **/"}
var LineBodies = []string{"--", "--x", "-- /* not open", "-- it's", "--- dashes ---", "-- é 日本", "-- */", "-- $$", "--\t tab", "-- ;"}
var Rot int

func sepText(kind int, n int) (string, []string) {
	switch kind {
	case 1:
		return " ", nil
	case 2:
		return "   ", nil
	case 3:
		return "\t", nil
	case 4:
		return "\n", nil
	case 5:
		return "\r\n", nil
	case 6:
		return "\n\n  ", nil
	case 7:
		c := "-- note " + string(rune('a'+n%26))
		return " " + c + "\n", []string{c}
	case 8:
		c := "/* blk " + string(rune('a'+n%26)) + " */"
		return " " + c + " ", []string{c}
	case 9:
		return "/**/", []string{"/**/"}
	case 10:
		c1, c2 := "/* x\n y */", "-- 'quote\" in comment"
		return "\n" + c1 + " " + c2 + "\n  ", []string{c1, c2}
	case 11:
		c := BlockBodies[(n+Rot)%len(BlockBodies)]
		return c, []string{c}
	case 12:
		c := LineBodies[(n+Rot)%len(LineBodies)]
		return c + "\n", []string{c}
	case 13:
		c := "/* t" + string(rune('a'+n%26)) + " */"
		return "\t" + c + "\t", []string{c}
	case 14:
		return "\r", nil // a carriage return on its own is a blank, not a line break
	}
	return "", nil
}

// Build lays the lexemes out with the given separator choices (one per gap, plus lead and tail) and records positions.
// seps[i] is the separator kind before lexeme i; seps[len(lex)] is the trailing one. Kind 0 ("none") is replaced by a
// space where juxtaposition would be ambiguous.
func Build(lex []Lexeme, seps []int, kwCase func(i int, s string) string) Text {
	var sb strings.Builder
	t := Text{ASCIINoTab: true}
	line, col := 1, 1
	advance := func(s string) {
		for i := 0; i < len(s); i++ {
			if s[i] == '\n' {
				line++
				col = 1
			} else {
				col++
			}
		}
	}
	emitSep := func(kind, n int, prev, next *Lexeme) {
		if kind == 0 && prev != nil && next != nil && NeedSeparator(*prev, *next) {
			kind = 1
		}
		if kind == 0 && (prev == nil || next == nil) {
			return
		}
		s, comments := sepText(kind, n)
		if kind == 12 && prev != nil && strings.HasSuffix(prev.Text, "-") {
			s = " " + s // "-" directly before "--" would itself open the comment one byte early
		}
		// record comments inside the separator
		base := sb.Len()
		sb.WriteString(s)
		search := 0
		for _, c := range comments {
			k := strings.Index(s[search:], c) + search
			// position of the comment start
			l0, c0 := line, col
			for i := 0; i < k; i++ {
				if s[i] == '\n' {
					l0++
					c0 = 1
				} else {
					c0++
				}
			}
			l1, c1 := l0, c0
			for i := 0; i < len(c); i++ {
				if c[i] == '\n' {
					l1++
					c1 = 1
				} else {
					c1++
				}
			}
			t.Comments = append(t.Comments, Comment{Text: c, Block: strings.HasPrefix(c, "/*"), Offset: base + k, EndOffset: base + k + len(c), Line: l0, Col: c0, EndLine: l1, EndCol: c1})
			search = k + len(c)
		}
		advance(s)
	}
	for i := range lex {
		var prev *Lexeme
		if i > 0 {
			prev = &lex[i-1]
		}
		emitSep(seps[i], i, prev, &lex[i])
		txt := lex[i].Text
		if lex[i].Class == Word && lex[i].Keyword && kwCase != nil {
			txt = kwCase(i, txt)
		}
		p := Placed{Lexeme: lex[i], Offset: sb.Len(), Line: line, Col: col}
		p.Text = txt
		sb.WriteString(txt)
		advance(txt)
		p.EndOffset, p.EndLine, p.EndCol = sb.Len(), line, col
		t.Lexemes = append(t.Lexemes, p)
	}
	if len(lex) > 0 {
		emitSep(seps[len(lex)], len(lex), &lex[len(lex)-1], nil)
	}
	t.S = sb.String()
	for _, ln := range strings.Split(t.S, "\n") {
		if strings.ContainsRune(ln, '\t') || !isASCII(ln) {
			t.ASCIINoTab = false
		}
	}
	return t
}

func isASCII(s string) bool {
	for i := 0; i < len(s); i++ {
		if s[i] >= utf8.RuneSelf {
			return false
		}
	}
	return true
}

// RandomLexeme draws one lexeme.
func RandomLexeme(r *rand.Rand) Lexeme {
	switch r.Intn(16) {
	case 0, 1, 2:
		k := Keywords[r.Intn(len(Keywords))]
		return Lexeme{Class: Word, Text: k, Value: k, Keyword: true}
	case 3, 4, 5:
		id := Idents[r.Intn(len(Idents))]
		return Lexeme{Class: Word, Text: id, Value: id}
	case 6:
		n := Numbers[r.Intn(len(Numbers))]
		return Lexeme{Class: Number, Text: n, Value: n}
	case 7, 8:
		s := Strings[r.Intn(len(Strings))]
		return Lexeme{Class: String, Text: s.text, Value: s.value}
	case 9:
		s := QIdents[r.Intn(len(QIdents))]
		return Lexeme{Class: QIdent, Text: s.text, Value: s.value}
	case 10:
		if r.Intn(3) == 0 {
			s := Backticks[r.Intn(len(Backticks))]
			return Lexeme{Class: Backtick, Text: s.text, Value: s.value}
		}
		p := []string{"$1", "$2", "$10"}[r.Intn(3)]
		return Lexeme{Class: Placeholder, Text: p, Value: p}
	case 11:
		if r.Intn(3) == 0 {
			s := DollarStrs[r.Intn(len(DollarStrs))]
			return Lexeme{Class: DollarStr, Text: s.text, Value: s.value}
		}
		fallthrough
	default:
		o := Ops[r.Intn(len(Ops))]
		return Lexeme{Class: Op, Text: o, Value: o}
	}
}

// AllOfClass lists every catalogue lexeme of the classes used by the exhaustive layer.
func AllOps() []Lexeme {
	var out []Lexeme
	for _, o := range Ops {
		out = append(out, Lexeme{Class: Op, Text: o, Value: o})
	}
	return out
}

func Catalogue() []Lexeme {
	var out []Lexeme
	for _, k := range Keywords {
		out = append(out, Lexeme{Class: Word, Text: k, Value: k, Keyword: true})
	}
	for _, id := range Idents {
		out = append(out, Lexeme{Class: Word, Text: id, Value: id})
	}
	for _, n := range Numbers {
		out = append(out, Lexeme{Class: Number, Text: n, Value: n})
	}
	for _, s := range Strings {
		out = append(out, Lexeme{Class: String, Text: s.text, Value: s.value})
	}
	for _, s := range QIdents {
		out = append(out, Lexeme{Class: QIdent, Text: s.text, Value: s.value})
	}
	for _, s := range Backticks {
		out = append(out, Lexeme{Class: Backtick, Text: s.text, Value: s.value})
	}
	for _, s := range DollarStrs {
		out = append(out, Lexeme{Class: DollarStr, Text: s.text, Value: s.value})
	}
	for _, p := range []string{"$1", "$2", "$10"} {
		out = append(out, Lexeme{Class: Placeholder, Text: p, Value: p})
	}
	return append(out, AllOps()...)
}

// CompoundStart reports whether w starts a compound keyword in the library (GROUP BY, LEFT JOIN, ...).
func CompoundStart(w string) bool { return compoundStarts[strings.ToUpper(w)] }
