// vh is the single harness binary: `vh run <Cxx> <tier>` is the parent
// (orchestrates builds, children, oracles, findings, evidence); `vh child …`
// runs one workload shard inside a monitored child process.
package main

import (
	"flag"
	"fmt"
	"os"
	"strconv"

	"verifharness/mon"
	"verifharness/props"
)

func main() {
	if len(os.Args) < 2 {
		fmt.Println("usage: vh run <Cxx> <quick|thorough> | vh child -prop … | vh replay <file>")
		os.Exit(3)
	}
	switch os.Args[1] {
	case "run":
		prop := os.Args[2]
		tier := "quick"
		if len(os.Args) > 3 {
			tier = os.Args[3]
		}
		seed := int64(1)
		if s := os.Getenv("VERIF_SEED"); s != "" {
			if v, err := strconv.ParseInt(s, 10, 64); err == nil {
				seed = v
			}
		}
		p, ok := props.Registry[prop]
		if !ok {
			fmt.Println("unknown property", prop)
			os.Exit(3)
		}
		ctx := mon.NewCtx(prop, tier, seed, p.Level)
		p.Parent(ctx)
		os.Exit(ctx.Finish())
	case "child":
		fs := flag.NewFlagSet("child", flag.ExitOnError)
		a := &props.ChildArgs{}
		fs.StringVar(&a.Prop, "prop", "", "")
		fs.StringVar(&a.Phase, "phase", "", "")
		fs.StringVar(&a.Tier, "tier", "quick", "")
		fs.Int64Var(&a.Seed, "seed", 1, "")
		fs.StringVar(&a.Out, "out", "", "")
		fs.IntVar(&a.Shard, "shard", 0, "")
		fs.IntVar(&a.NShards, "nshards", 1, "")
		fs.StringVar(&a.Arg, "arg", "", "")
		fs.IntVar(&a.N, "n", 0, "")
		fs.Parse(os.Args[2:])
		a.Rest = fs.Args()
		p, ok := props.Registry[a.Prop]
		if !ok {
			fmt.Fprintln(os.Stderr, "unknown property", a.Prop)
			os.Exit(3)
		}
		rec, err := mon.NewRecorder(a.Out)
		if err != nil {
			fmt.Fprintln(os.Stderr, err)
			os.Exit(3)
		}
		a.Rec = rec
		p.Child(a)
		rec.Close()
	case "sql":
		for _, q := range os.Args[2:] {
			props.ToolSQL(q)
		}
	case "replay":
		os.Exit(props.Replay(os.Args[2]))
	default:
		fmt.Println("unknown command", os.Args[1])
		os.Exit(3)
	}
}
