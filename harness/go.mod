module verifharness

go 1.21

require (
	github.com/ajitpratap0/GoSQLX v0.0.0
	github.com/anishathalye/porcupine v1.3.0
)

replace github.com/ajitpratap0/GoSQLX => /repo
